(* S-expression codec between harness/bridge.py and the extracted [Model.expr]. *)
open Model

type sx = A of string | L of sx list

let parse (s : string) : sx =
  let n = String.length s in
  let pos = ref 0 in
  let rec skip () = if !pos < n && (s.[!pos] = ' ' || s.[!pos] = '\t' || s.[!pos] = '\n') then (incr pos; skip ()) in
  let rec item () =
    skip ();
    if !pos >= n then failwith "sx: eof"
    else if s.[!pos] = '(' then begin
      incr pos;
      let acc = ref [] in
      let rec loop () =
        skip ();
        if !pos >= n then failwith "sx: unclosed"
        else if s.[!pos] = ')' then incr pos
        else (acc := item () :: !acc; loop ())
      in
      loop (); L (List.rev !acc)
    end else begin
      let st = !pos in
      while !pos < n && s.[!pos] <> ' ' && s.[!pos] <> '(' && s.[!pos] <> ')' && s.[!pos] <> '\t' && s.[!pos] <> '\n' do incr pos done;
      A (String.sub s st (!pos - st))
    end
  in
  item ()

let hexval c = match c with
  | '0'..'9' -> Char.code c - 48 | 'a'..'f' -> Char.code c - 87 | 'A'..'F' -> Char.code c - 55
  | _ -> failwith "hex"

let unhx (t : string) : string =
  if String.length t = 0 || t.[0] <> 's' then failwith ("unhx: " ^ t);
  let n = (String.length t - 1) / 2 in
  String.init n (fun i -> Char.chr (hexval t.[1 + 2*i] * 16 + hexval t.[2 + 2*i]))

let hx (s : string) : string =
  let b = Buffer.create (1 + 2 * String.length s) in
  Buffer.add_char b 's';
  String.iter (fun c -> Buffer.add_string b (Printf.sprintf "%02x" (Char.code c))) s;
  Buffer.contents b

let z_of_dec (s : string) : z = match z_of_string s with Some z -> z | None -> failwith ("int: " ^ s)

let const_of = function
  | A "N" -> CNone
  | A "E" -> CEllipsis
  | L [A "B"; A b] -> CBool (b = "1")
  | L [A "I"; A d] -> CInt (z_of_dec d)
  | L [A "S"; A h] -> CStr (unhx h)
  | L [A "Y"; A h] -> CBytes (unhx h)
  | L [A "F"; A h] -> CFloat (unhx h)
  | L [A "X"; A h] -> CComplex (unhx h)
  | L [A "O"; A k; A i] -> CObj (unhx k, unhx i)
  | _ -> failwith "const"

let uop_of = function "UNot" -> UNot | "USub" -> USub | "UAdd" -> UAdd | "UInvert" -> UInvert | s -> failwith s
let bop_of = function
  | "Add" -> BAdd | "Sub" -> BSub | "Mult" -> BMult | "Div" -> BDiv | "FloorDiv" -> BFloorDiv | "Mod" -> BMod
  | "Pow" -> BPow | "LShift" -> BLShift | "RShift" -> BRShift | "BitOr" -> BBitOr | "BitXor" -> BBitXor
  | "BitAnd" -> BBitAnd | "MatMult" -> BMatMult | s -> failwith s
let boolop_of = function "And" -> And | "Or" -> Or | s -> failwith s
let cmpop_of = function
  | "Eq" -> CEq | "NotEq" -> CNotEq | "Lt" -> CLt | "LtE" -> CLtE | "Gt" -> CGt | "GtE" -> CGtE
  | "Is" -> CIs | "IsNot" -> CIsNot | "In" -> CIn | "NotIn" -> CNotIn | s -> failwith s

let atom = function A s -> s | _ -> failwith "atom expected"
let lst = function L l -> l | _ -> failwith "list expected"

let rec expr_of (x : sx) : expr =
  match x with
  | L (A tag :: r) -> begin
      match tag, r with
      | "Name", [A h] -> Name (unhx h)
      | "Const", [c] -> Const (const_of c)
      | "Raw", [c] -> Raw (const_of c)
      | "Attr", [v; A h] -> Attr (expr_of v, unhx h)
      | "Call", [f; args; kwn; kwv] ->
          Call (expr_of f, List.map expr_of (lst args),
                List.map (fun k -> match k with A "-" -> None | A h -> Some (unhx h) | _ -> failwith "kw") (lst kwn),
                List.map expr_of (lst kwv))
      | "Lambda", [ps; b] -> Lambda (List.map (fun p -> unhx (atom p)) (lst ps), expr_of b)
      | "UnaryOp", [A o; e] -> UnaryOp (uop_of o, expr_of e)
      | "BinOp", [A o; l; r] -> BinOp (bop_of o, expr_of l, expr_of r)
      | "BoolOp", [A o; es] -> BoolOp (boolop_of o, List.map expr_of (lst es))
      | "Compare", [l; ops; rs] ->
          Compare (expr_of l, List.map (fun o -> cmpop_of (atom o)) (lst ops), List.map expr_of (lst rs))
      | "IfExp", [c; t; f] -> IfExp (expr_of c, expr_of t, expr_of f)
      | "Tuple", [es] -> Tuple (List.map expr_of (lst es))
      | "List", [es] -> List (List.map expr_of (lst es))
      | "Dict", [ks; vs] -> Dict (List.map expr_of (lst ks), List.map expr_of (lst vs))
      | "Subscript", [v; s] -> Subscript (expr_of v, expr_of s)
      | "ListComp", [e; gs] -> ListComp (expr_of e, List.map expr_of (lst gs))
      | "GenExp", [e; gs] -> GenExp (expr_of e, List.map expr_of (lst gs))
      | "CompFor", [t; i; ifs; A a] -> CompFor (expr_of t, expr_of i, List.map expr_of (lst ifs), a = "1")
      | "Other", [A c; ats; cs] -> Other (unhx c, List.map const_of (lst ats), List.map expr_of (lst cs))
      | _ -> failwith ("expr tag " ^ tag)
    end
  | _ -> failwith "expr"

let str_const = function
  | CNone -> "N"
  | CEllipsis -> "E"
  | CBool b -> if b then "(B 1)" else "(B 0)"
  | CInt z -> "(I " ^ z_to_string z ^ ")"
  | CStr s -> "(S " ^ hx s ^ ")"
  | CBytes s -> "(Y " ^ hx s ^ ")"
  | CFloat s -> "(F " ^ hx s ^ ")"
  | CComplex s -> "(X " ^ hx s ^ ")"
  | CObj (k, i) -> "(O " ^ hx k ^ " " ^ hx i ^ ")"

let str_uop = function UNot -> "UNot" | USub -> "USub" | UAdd -> "UAdd" | UInvert -> "UInvert"
let str_bop = function
  | BAdd -> "Add" | BSub -> "Sub" | BMult -> "Mult" | BDiv -> "Div" | BFloorDiv -> "FloorDiv" | BMod -> "Mod"
  | BPow -> "Pow" | BLShift -> "LShift" | BRShift -> "RShift" | BBitOr -> "BitOr" | BBitXor -> "BitXor"
  | BBitAnd -> "BitAnd" | BMatMult -> "MatMult"
let str_boolop = function And -> "And" | Or -> "Or"
let str_cmpop = function
  | CEq -> "Eq" | CNotEq -> "NotEq" | CLt -> "Lt" | CLtE -> "LtE" | CGt -> "Gt" | CGtE -> "GtE"
  | CIs -> "Is" | CIsNot -> "IsNot" | CIn -> "In" | CNotIn -> "NotIn"

let rec str_expr (e : expr) : string =
  let l es = "(" ^ String.concat " " (List.map str_expr es) ^ ")" in
  match e with
  | Name s -> "(Name " ^ hx s ^ ")"
  | Const c -> "(Const " ^ str_const c ^ ")"
  | Raw c -> "(Raw " ^ str_const c ^ ")"
  | Attr (v, a) -> "(Attr " ^ str_expr v ^ " " ^ hx a ^ ")"
  | Call (f, args, kwn, kwv) ->
      "(Call " ^ str_expr f ^ " " ^ l args ^ " ("
      ^ String.concat " " (List.map (function None -> "-" | Some k -> hx k) kwn) ^ ") " ^ l kwv ^ ")"
  | Lambda (ps, b) -> "(Lambda (" ^ String.concat " " (List.map hx ps) ^ ") " ^ str_expr b ^ ")"
  | UnaryOp (o, x) -> "(UnaryOp " ^ str_uop o ^ " " ^ str_expr x ^ ")"
  | BinOp (o, a, b) -> "(BinOp " ^ str_bop o ^ " " ^ str_expr a ^ " " ^ str_expr b ^ ")"
  | BoolOp (o, es) -> "(BoolOp " ^ str_boolop o ^ " " ^ l es ^ ")"
  | Compare (a, ops, rs) ->
      "(Compare " ^ str_expr a ^ " (" ^ String.concat " " (List.map str_cmpop ops) ^ ") " ^ l rs ^ ")"
  | IfExp (c, t, f) -> "(IfExp " ^ str_expr c ^ " " ^ str_expr t ^ " " ^ str_expr f ^ ")"
  | Tuple es -> "(Tuple " ^ l es ^ ")"
  | List es -> "(List " ^ l es ^ ")"
  | Dict (ks, vs) -> "(Dict " ^ l ks ^ " " ^ l vs ^ ")"
  | Subscript (v, s) -> "(Subscript " ^ str_expr v ^ " " ^ str_expr s ^ ")"
  | ListComp (x, gs) -> "(ListComp " ^ str_expr x ^ " " ^ l gs ^ ")"
  | GenExp (x, gs) -> "(GenExp " ^ str_expr x ^ " " ^ l gs ^ ")"
  | CompFor (t, i, ifs, a) ->
      "(CompFor " ^ str_expr t ^ " " ^ str_expr i ^ " " ^ l ifs ^ " " ^ (if a then "1" else "0") ^ ")"
  | Other (c, ats, cs) ->
      "(Other " ^ hx c ^ " (" ^ String.concat " " (List.map str_const ats) ^ ") " ^ l cs ^ ")"

let rec nat_of_int (i : int) : nat = if i <= 0 then O else S (nat_of_int (i - 1))
let rec int_of_nat (n : nat) : int = match n with O -> 0 | S m -> 1 + int_of_nat m

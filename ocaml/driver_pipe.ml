(* Driver of the composed pipeline model (C01): one tab-separated request per line on stdin, one answer line per
   request on stdout.  The codecs of snapshots (as in driver_capture.ml) and of class tables (as in
   driver_types.ml) are repeated here; sx.ml is shared. *)
open Model
open Sx

let opt f = function A "-" -> None | x -> Some (f x)
let hstr = function A h -> unhx h | _ -> failwith "hstr"

(* ---------------------------------------------------------------- snapshots *)
let attr_of = function
  | L [c; A h; L [A "V"; r]] -> ((const_of c, unhx h), AVal (const_of r))
  | L [c; A h; L [A "E"; A "-"]] -> ((const_of c, unhx h), AEnum None)
  | L [c; A h; L [A "E"; L ns]] -> ((const_of c, unhx h), AEnum (Some (List.map (fun x -> unhx (atom x)) ns)))
  | L [c; A h; A "C"] -> ((const_of c, unhx h), ACrash)
  | _ -> failwith "attr"

let rec capval_of = function
  | L [A "V"; c] -> CVal (const_of c)
  | L [A "F"; A "-"] -> CFun None
  | L [A "F"; e] -> CFun (Some (expr_of e))
  | L [A "H"; ce; e] -> helper_capval (cenv_of ce) (expr_of e)
  | _ -> failwith "capval"

and var_of = function
  | L [A h; v] -> (unhx h, capval_of v)
  | _ -> failwith "var"

and cenv_of = function
  | L [L nl; L gl; L at] ->
      { ce_nonlocals = List.map var_of nl; ce_globals = List.map var_of gl; ce_attrs = List.map attr_of at }
  | _ -> failwith "cenv"

(* ---------------------------------------------------------------- class tables *)
let rec ty_of (x : sx) : ty =
  match x with
  | A "Any" -> TAny | A "Int" -> TInt | A "Float" -> TFloat | A "Bool" -> TBool | A "Str" -> TStr
  | A "None" -> TNone | A "Bytes" -> TBytes | A "Complex" -> TComplex | A "Ellipsis" -> TEllipsis
  | A "Callable" -> TCallable
  | L [A "Opaque"; A h] -> TOpaque (unhx h)
  | L [A "Var"; A h] -> TVar (unhx h)
  | L [A "Cls"; A h; L args] -> TCls (unhx h, List.map ty_of args)
  | L [A "Iter"; a] -> TIter (ty_of a)
  | L [A "Record"; L ns; L ts] -> TRecord (List.map hstr ns, List.map ty_of ts)
  | _ -> failwith "ty"

let param_of = function
  | L [A h; d] -> { p_name = unhx h; p_default = opt const_of d }
  | _ -> failwith "param"

let op_of = function
  | A "Select" -> OpSelect | A "SelectMany" -> OpSelectMany | A "Where" -> OpWhere | A "First" -> OpFirst
  | A "Stub" -> OpStub | _ -> failwith "op"

let method_of = function
  | L [A "M"; A n; L ps; ret; cb; op] ->
      { m_name = unhx n; m_params = List.map param_of ps; m_ret = opt ty_of ret; m_cb = opt hstr cb; m_op = op_of op }
  | _ -> failwith "method"

let cls_of = function
  | L [A "C"; A n; L ps; base; parent; L ms; L props; cb; fields; A coll] ->
      { c_name = unhx n; c_params = List.map hstr ps; c_base = opt ty_of base; c_parent = opt hstr parent;
        c_methods = List.map method_of ms;
        c_props = List.map (function L [A h; c] -> (unhx h, opt hstr c) | _ -> failwith "prop") props;
        c_cb = opt hstr cb;
        c_fields = opt (function L [L ns; L ts] -> (List.map hstr ns, List.map ty_of ts) | _ -> failwith "fields") fields;
        c_collection = (coll = "1") }
  | _ -> failwith "cls"

let func_of = function
  | L [A "F"; A n; L ps; ret; proc] ->
      { f_name = unhx n; f_params = List.map param_of ps; f_ret = opt ty_of ret; f_proc = opt hstr proc }
  | _ -> failwith "func"

let rw_of = function
  | A "Id" -> RwId
  | L [A "Rename"; A h] -> RwRename (unhx h)
  | L [A "Wrap"; A h] -> RwWrap (unhx h)
  | _ -> failwith "rw"

let cb_of = function
  | L [A h; md; rw; t] -> (unhx h, { cb_md = opt expr_of md; cb_rw = rw_of rw; cb_ty = ty_of t })
  | _ -> failwith "cb"

let world_of = function
  | L [A "W"; L cs; L fs; L cbs] ->
      { w_ct = List.map cls_of cs; w_ft = List.map func_of fs; w_cb = List.map cb_of cbs }
  | _ -> failwith "world"

let last_world : (string * world) option ref = ref None
let get_world (s : string) : world =
  match !last_world with
  | Some (k, w) when k = s -> w
  | _ -> let w = world_of (parse s) in last_world := Some (s, w); w

(* ---------------------------------------------------------------- chains and terminals *)
let acq_of = function
  | A "AsIs" -> AcqAsIs
  | L [A "Callable"; ce] -> AcqCallable (cenv_of ce)
  | _ -> failwith "acquire"

let stage_of = function
  | L [op; acq; lam] -> { st_op = op_of op; st_acq = acq_of acq; st_src = expr_of lam }
  | _ -> failwith "stage"

let tval_of = function
  | L [A "S"; A h] -> TVStr (unhx h)
  | L (A "L" :: hs) -> TVStrs (List.map hstr hs)
  | _ -> failwith "tval"

let term_of = function
  | A "-" -> None
  | L (A m :: args) ->
      Some { t_method = unhx m;
             t_args = List.map (function L [A n; v] -> (unhx n, tval_of v) | _ -> failwith "targ") args }
  | _ -> failwith "terminal"

let str_failure = function Refused -> "REFUSED" | Crashed -> "CRASHED"

let handle (cmd : string) (args : string list) : string =
  match cmd, args with
  | "query", [w; item; ch; term] ->
      (match query (get_world w) (ty_of (parse item)) (List.map stage_of (lst (parse ch))) (term_of (parse term)) with
       | POk q -> "OK " ^ str_expr q
       | PFail (f, k, c) -> str_failure f ^ " " ^ string_of_int (int_of_nat k) ^ " " ^ c)
  | "backend", [fuel; e] ->
      let q = expr_of (parse e) in
      let e1 = ext q in
      let e2 = agg e1 in
      let e3 = match e2 with Some a -> simplify_query (nat_of_int (int_of_string fuel)) a | None -> None in
      let so = function Some x -> str_expr x | None -> "-" in
      "OK\t" ^ str_expr e1 ^ "\t" ^ so e2 ^ "\t" ^ so e3
  | "size", [e] -> string_of_int (int_of_nat (size (expr_of (parse e))))
  | "echo", [e] -> "OK " ^ str_expr (expr_of (parse e))
  | _ -> "BADCMD " ^ cmd

let () =
  try
    while true do
      let line = input_line stdin in
      let answer =
        match String.split_on_char '\t' line with
        | [] -> "BADCMD"
        | cmd :: args -> (try handle cmd args with
                          | Failure m -> "FAIL " ^ m
                          | Invalid_argument m -> "FAIL invalid " ^ m
                          | Stack_overflow -> "FAIL stack_overflow"
                          | Not_found -> "FAIL not_found")
      in
      print_string answer; print_char '\n'
    done
  with End_of_file -> ()

(* Driver of the C13 models (as_ast / literal_eval / check_ast / terminals): one tab-separated
   request per line on stdin, one answer line per request on stdout.

   Codec of Python values (harness/props/literal_common.py: val_sx), own to this driver:
     pv ::= (PS <hx>) | (PY <hx>) | (PI dec) | (PB 0|1) | PN | (PF <tok:hx>)
          | (PL pv ...) | (PT pv ...) | (PD (pv pv) ...) *)
open Model
open Sx

let rec pv_of (x : sx) : pyval =
  match x with
  | A "PN" -> PNone
  | L [A "PS"; A h] -> PStr (unhx h)
  | L [A "PY"; A h] -> PBytes (unhx h)
  | L [A "PI"; A d] -> PInt (z_of_dec d)
  | L [A "PB"; A b] -> PBool (b = "1")
  | L [A "PF"; A h] -> PFloat (unhx h)
  | L (A "PL" :: vs) -> PList (List.map pv_of vs)
  | L (A "PT" :: vs) -> PTuple (List.map pv_of vs)
  | L (A "PD" :: kvs) -> PDict (List.map (function L [k; v] -> (pv_of k, pv_of v) | _ -> failwith "pd") kvs)
  | _ -> failwith "pyval"

let rec str_pv (v : pyval) : string =
  match v with
  | PNone -> "PN"
  | PStr s -> "(PS " ^ hx s ^ ")"
  | PBytes s -> "(PY " ^ hx s ^ ")"
  | PInt z -> "(PI " ^ z_to_string z ^ ")"
  | PBool b -> if b then "(PB 1)" else "(PB 0)"
  | PFloat t -> "(PF " ^ hx t ^ ")"
  | PList l -> "(PL" ^ String.concat "" (List.map (fun x -> " " ^ str_pv x) l) ^ ")"
  | PTuple l -> "(PT" ^ String.concat "" (List.map (fun x -> " " ^ str_pv x) l) ^ ")"
  | PDict l -> "(PD" ^ String.concat "" (List.map (fun (k, x) -> " (" ^ str_pv k ^ " " ^ str_pv x ^ ")") l) ^ ")"

let opt_expr = function Some e -> "OK " ^ str_expr e | None -> "NONE"
let opt_pv = function Some v -> "OK " ^ str_pv v | None -> "NONE"

let env_of (x : sx) : (string * pyval) list =
  List.map (function L [A k; v] -> (unhx k, pv_of v) | _ -> failwith "env") (lst x)

let handle (cmd : string) (args : string list) : string =
  match cmd, args with
  | "repr", [v] -> hx (py_repr (pv_of (parse v)))
  | "as_ast", [v] -> opt_expr (as_ast (pv_of (parse v)))
  | "as_ast_unfixed", [v] -> opt_expr (as_ast_unfixed (pv_of (parse v)))
  | "parse", [h] -> opt_expr (parse_literal (unhx h))
  | "leval", [e] -> opt_pv (literal_eval (expr_of (parse e)))
  | "lit_expr", [v] -> "OK " ^ str_expr (lit_expr (pv_of (parse v)))
  | "finite", [v] -> if finite (pv_of (parse v)) then "1" else "0"
  | "embeddable", [v] -> if embeddable (pv_of (parse v)) then "1" else "0"
  | "check", [e] -> if check_ast (expr_of (parse e)) then "OK" else "ValueError"
  | "terminal", [m; q; env] -> opt_expr (as_terminal (unhx m) (expr_of (parse q)) (env_of (parse env)))
  | "metadata", [q; v] -> opt_expr (metadata_call (expr_of (parse q)) (pv_of (parse v)))
  | "as_literal", [c] -> "OK " ^ str_expr (as_literal (const_of (parse c)))
  | "wire", [] ->
      String.concat ";" (List.map (fun ((m, n), ls) -> m ^ ":" ^ n ^ ":" ^ String.concat "," ls) wire_format)
  | "size", [e] -> string_of_int (int_of_nat (size (expr_of (parse e))))
  | "echo", [e] -> "OK " ^ str_expr (expr_of (parse e))
  | _ -> "BADCMD " ^ cmd

let () =
  try
    while true do
      let line = input_line stdin in
      let answer =
        match String.split_on_char '\t' line with
        | [] -> "BADCMD"
        | cmd :: args -> (try handle cmd args with
                          | Failure m -> "FAIL " ^ m
                          | Stack_overflow -> "FAIL stack_overflow"
                          | Not_found -> "FAIL not_found")
      in
      print_string answer; print_char '\n'
    done
  with End_of_file -> ()

(* Driver for the type-follower models (C07-C10): one tab-separated request per line on stdin, one
   answer line per request on stdout.  Codecs for types, class tables and events live here (sx.ml is shared). *)
open Model
open Sx

let opt f = function A "-" -> None | x -> Some (f x)
let hstr = function A h -> unhx h | _ -> failwith "hstr"

let rec ty_of (x : sx) : ty =
  match x with
  | A "Any" -> TAny | A "Int" -> TInt | A "Float" -> TFloat | A "Bool" -> TBool | A "Str" -> TStr
  | A "None" -> TNone | A "Bytes" -> TBytes | A "Complex" -> TComplex | A "Ellipsis" -> TEllipsis
  | A "Callable" -> TCallable
  | L [A "Opaque"; A h] -> TOpaque (unhx h)
  | L [A "Var"; A h] -> TVar (unhx h)
  | L [A "Cls"; A h; L args] -> TCls (unhx h, List.map ty_of args)
  | L [A "Iter"; a] -> TIter (ty_of a)
  | L [A "Record"; L ns; L ts] -> TRecord (List.map hstr ns, List.map ty_of ts)
  | _ -> failwith "ty"

let rec str_ty (t : ty) : string =
  match t with
  | TAny -> "Any" | TInt -> "Int" | TFloat -> "Float" | TBool -> "Bool" | TStr -> "Str" | TNone -> "None"
  | TBytes -> "Bytes" | TComplex -> "Complex" | TEllipsis -> "Ellipsis" | TCallable -> "Callable"
  | TOpaque k -> "(Opaque " ^ hx k ^ ")"
  | TVar s -> "(Var " ^ hx s ^ ")"
  | TCls (c, args) -> "(Cls " ^ hx c ^ " (" ^ String.concat " " (List.map str_ty args) ^ "))"
  | TIter a -> "(Iter " ^ str_ty a ^ ")"
  | TRecord (ns, ts) ->
      "(Record (" ^ String.concat " " (List.map hx ns) ^ ") (" ^ String.concat " " (List.map str_ty ts) ^ "))"

let param_of = function
  | L [A h; d] -> { p_name = unhx h; p_default = opt const_of d }
  | _ -> failwith "param"

let op_of = function
  | A "Select" -> OpSelect | A "SelectMany" -> OpSelectMany | A "Where" -> OpWhere | A "First" -> OpFirst
  | A "Stub" -> OpStub | _ -> failwith "op"

let method_of = function
  | L [A "M"; A n; L ps; ret; cb; op] ->
      { m_name = unhx n; m_params = List.map param_of ps; m_ret = opt ty_of ret; m_cb = opt hstr cb; m_op = op_of op }
  | _ -> failwith "method"

let cls_of = function
  | L [A "C"; A n; L ps; base; parent; L ms; L props; cb; fields; A coll] ->
      { c_name = unhx n; c_params = List.map hstr ps; c_base = opt ty_of base; c_parent = opt hstr parent;
        c_methods = List.map method_of ms;
        c_props = List.map (function L [A h; c] -> (unhx h, opt hstr c) | _ -> failwith "prop") props;
        c_cb = opt hstr cb;
        c_fields = opt (function L [L ns; L ts] -> (List.map hstr ns, List.map ty_of ts) | _ -> failwith "fields") fields;
        c_collection = (coll = "1") }
  | _ -> failwith "cls"

let func_of = function
  | L [A "F"; A n; L ps; ret; proc] ->
      { f_name = unhx n; f_params = List.map param_of ps; f_ret = opt ty_of ret; f_proc = opt hstr proc }
  | _ -> failwith "func"

let rw_of = function
  | A "Id" -> RwId
  | L [A "Rename"; A h] -> RwRename (unhx h)
  | L [A "Wrap"; A h] -> RwWrap (unhx h)
  | _ -> failwith "rw"

let cb_of = function
  | L [A h; md; rw; t] -> (unhx h, { cb_md = opt expr_of md; cb_rw = rw_of rw; cb_ty = ty_of t })
  | _ -> failwith "cb"

let world_of = function
  | L [A "W"; L cs; L fs; L cbs] ->
      let fs' = List.map func_of fs in
      { w_ct = List.map cls_of cs; w_ft = fs'; w_cb = List.map cb_of cbs }
  | _ -> failwith "world"

let tenv_of = function
  | L l -> List.map (function L [A h; t] -> (unhx h, ty_of t) | _ -> failwith "tenv") l
  | _ -> failwith "tenv"

let str_refusal = function
  | RMissingArg p -> "MissingArg:" ^ hx p
  | RNotCallable -> "NotCallable" | RWhereNotBool -> "WhereNotBool" | RIfExp -> "IfExp" | RBadConst -> "BadConst"
  | RTupleIndex -> "TupleIndex" | RTupleRange -> "TupleRange" | RDictKey -> "DictKey" | RRecordKey -> "RecordKey"
  | RNotLiteral -> "NotLiteral" | RNotParameterized -> "NotParameterized"

let str_crash = function
  | CkNotLambda -> "NotLambda" | CkAssert -> "Assert" | CkStub -> "Stub" | CkAttr -> "Attr" | CkKey -> "Key"

let str_event = function
  | EvCall (cb, site) -> "(Call " ^ hx cb ^ " " ^ str_expr site ^ ")"
  | EvParam (cb, site, ps) -> "(Param " ^ hx cb ^ " " ^ str_expr site ^ " " ^ str_expr ps ^ ")"
  | EvMeta md -> "(Meta " ^ str_expr md ^ ")"

let str_res = function
  | Ok ((e, t), evs) -> "OK " ^ str_expr e ^ " " ^ str_ty t ^ " (" ^ String.concat " " (List.map str_event evs) ^ ")"
  | Refuse r -> "REFUSE " ^ str_refusal r
  | Crash k -> "CRASH " ^ str_crash k

let kws_of (kwn : sx) (kwv : sx) : (string option * expr) list =
  List.map2 (fun k v -> ((match k with A "-" -> None | A h -> Some (unhx h) | _ -> failwith "kw"), expr_of v))
    (lst kwn) (lst kwv)

let str_kwn kwn = "(" ^ String.concat " " (List.map (function None -> "-" | Some k -> hx k) kwn) ^ ")"
let str_exprs es = "(" ^ String.concat " " (List.map str_expr es) ^ ")"

(* the world is the same for long runs of requests: cache the last parsed one *)
let last_world : (string * world) option ref = ref None
let get_world (s : string) : world =
  match !last_world with
  | Some (k, w) when k = s -> w
  | _ -> let w = world_of (parse s) in last_world := Some (s, w); w

let handle (cmd : string) (args : string list) : string =
  match cmd, args with
  | "op", [w; op; g; item; lam] ->
      str_res (stream_op (get_world w) (op_of (parse op)) (tenv_of (parse g)) (ty_of (parse item)) (expr_of (parse lam)))
  | "follow", [w; g; e] ->
      str_res (follow (get_world w) (tenv_of (parse g)) (expr_of (parse e)))
  | "fill", [ps; a; kwn; kwv] ->
      (match fill (fun c -> Const c) (List.map param_of (lst (parse ps))) (List.map expr_of (lst (parse a)))
               (kws_of (parse kwn) (parse kwv)) with
       | Inl (a2, k2) -> "OK " ^ str_exprs a2 ^ " " ^ str_kwn (List.map fst k2) ^ " " ^ str_exprs (List.map snd k2)
       | Inr p -> "MISSING " ^ hx p)
  | "isiter", [w; t] -> if is_iterable (get_world w).w_ct (ty_of (parse t)) then "1" else "0"
  | "unwrap", [w; t] -> str_ty (unwrap_iterable (get_world w).w_ct (ty_of (parse t)))
  | "inherit", [w; t] -> str_ty (get_inherited (get_world w).w_ct (ty_of (parse t)))
  | "resolve", [w; t; ctx; at] ->
      (match resolve_type_vars (get_world w).w_ct (ty_of (parse t)) (ty_of (parse ctx)) (unhx at) with
       | Some r -> str_ty r | None -> "-")
  | "method", [w; t; n] ->
      (match get_method_and_class (get_world w).w_ct (ty_of (parse t)) (unhx n) with
       | Some (c, MMethod m) -> "M " ^ hx c ^ " " ^ hx m.m_name
       | Some (c, MProp _) -> "P " ^ hx c
       | None -> "-")
  | "ftdefault", [] ->
      String.concat " " (List.map (fun f -> hx f.f_name ^ ":" ^ String.concat "," (List.map (fun p -> hx p.p_name) f.f_params)
                                            ^ ":" ^ (match f.f_ret with Some t -> str_ty t | None -> "-")) ft_default)
  | "echo", [e] -> "OK " ^ str_expr (expr_of (parse e))
  | _ -> "BADCMD " ^ cmd

let () =
  try
    while true do
      let line = input_line stdin in
      let answer =
        match String.split_on_char '\t' line with
        | [] -> "BADCMD"
        | cmd :: args -> (try handle cmd args with
                          | Failure m -> "FAIL " ^ m
                          | Invalid_argument m -> "FAIL invalid " ^ m
                          | Stack_overflow -> "FAIL stack_overflow"
                          | Not_found -> "FAIL not_found")
      in
      print_string answer; print_char '\n'
    done
  with End_of_file -> ()

(* C17 driver: runs the extracted model of change_extension_functions_to_calls on the cases the
   harness sends, one tab-separated request per line on stdin, one answer line per request. *)
open Model
open Sx

let names_of (s : string) : string list =
  match parse s with L l -> List.map (fun a -> unhx (atom a)) l | _ -> failwith "names"

let handle (cmd : string) (args : string list) : string =
  match cmd, args with
  | "ext", [e] -> "OK " ^ str_expr (ext (expr_of (parse e)))
  | "ext_with", [ns; e] -> "OK " ^ str_expr (ext_with (names_of ns) (expr_of (parse e)))
  | "kwfree", [e] -> if ops_kw_free ext_default_ops (expr_of (parse e)) then "1" else "0"
  | "ops", [] -> "(" ^ String.concat " " (List.map hx ext_default_ops) ^ ")"
  | "size", [e] -> string_of_int (int_of_nat (size (expr_of (parse e))))
  | "echo", [e] -> "OK " ^ str_expr (expr_of (parse e))
  | _ -> "BADCMD " ^ cmd

let () =
  try
    while true do
      let line = input_line stdin in
      let answer =
        match String.split_on_char '\t' line with
        | [] -> "BADCMD"
        | cmd :: args -> (try handle cmd args with
                          | Failure m -> "FAIL " ^ m
                          | Stack_overflow -> "FAIL stack_overflow"
                          | Not_found -> "FAIL not_found")
      in
      print_string answer; print_char '\n'
    done
  with End_of_file -> ()

(* C15 driver: runs the extracted models of extract_metadata / remove_empty_metadata / literal_eval
   on the cases the harness sends, one tab-separated request per line, one answer line per request. *)
open Model
open Sx

(* literal values, same constant syntax as expressions *)
let rec str_lit (v : lit) : string =
  let l vs = "(" ^ String.concat " " (List.map str_lit vs) ^ ")" in
  match v with
  | LConst c -> "(C " ^ str_const c ^ ")"
  | LTuple vs -> "(T " ^ l vs ^ ")"
  | LList vs -> "(L " ^ l vs ^ ")"
  | LDict (ks, vs) -> "(D " ^ l ks ^ " " ^ l vs ^ ")"

let handle (cmd : string) (args : string list) : string =
  match cmd, args with
  | "extract", [e] ->
      (match extract (expr_of (parse e)) with
       | Some (e', mds) -> "OK " ^ str_expr e' ^ " (" ^ String.concat " " (List.map str_lit mds) ^ ")"
       | None -> "NONE")
  | "remove", [e] ->
      (match remove_empty (expr_of (parse e)) with Some e' -> "OK " ^ str_expr e' | None -> "NONE")
  | "liteval", [e] ->
      (match literal_eval (expr_of (parse e)) with Some v -> "OK " ^ str_lit v | None -> "NONE")
  | "size", [e] -> string_of_int (int_of_nat (size (expr_of (parse e))))
  | "echo", [e] -> "OK " ^ str_expr (expr_of (parse e))
  | _ -> "BADCMD " ^ cmd

let () =
  try
    while true do
      let line = input_line stdin in
      let answer =
        match String.split_on_char '\t' line with
        | [] -> "BADCMD"
        | cmd :: args -> (try handle cmd args with
                          | Failure m -> "FAIL " ^ m
                          | Stack_overflow -> "FAIL stack_overflow"
                          | Not_found -> "FAIL not_found")
      in
      print_string answer; print_char '\n'
    done
  with End_of_file -> ()

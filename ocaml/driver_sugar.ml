(* C06 driver: runs the extracted models of syntatic_sugar.py on the cases the harness sends,
   one tab-separated request per line on stdin, one answer line per request on stdout. *)
open Model
open Sx

let str_okey = function None -> "**" | Some k -> k

let str_reason = function
  | TargetNotName -> "TargetNotName"
  | AsyncComp -> "AsyncComp"
  | TooManyArgs -> "TooManyArgs"
  | DupArg k -> "DupArg:" ^ str_okey k
  | UnknownArg k -> "UnknownArg:" ^ str_okey k

let str_sres = function
  | Ok e -> "OK " ^ str_expr e
  | Err (ValueErr r) -> "EXC ValueError " ^ str_reason r
  | Err Crash -> "EXC Crash GenNotComprehension"

let str_bres = function
  | BOk assoc -> "OK " ^ str_expr (dict_of_assoc assoc)
  | BErr r -> "EXC ValueError " ^ str_reason r

let rec zip a b = match a, b with x :: xs, y :: ys -> (x, y) :: zip xs ys | _ -> []

(* a binding problem is sent as the call node itself: Call (Const <class>) args kws *)
let with_call (f : string list -> expr list -> (string option * expr) list -> bres) (e : expr) : string =
  match e with
  | Call (Const c, args, kwn, kwv) ->
      (match class_fields c with
       | Some fields -> str_bres (f fields args (zip kwn kwv))
       | None -> "NOTCLASS")
  | _ -> "NOTCALL"

let b2s b = if b then "1" else "0"

let handle (cmd : string) (args : string list) : string =
  match cmd, args with
  | "sugar", [e] -> str_sres (sugar (expr_of (parse e)))
  | "sugar_pinned", [e] -> str_sres (sugar_pinned (expr_of (parse e)))
  | "convert", [e] -> with_call convert (expr_of (parse e))
  | "convert_pinned", [e] -> with_call convert_pinned (expr_of (parse e))
  | "bind_spec", [e] -> with_call bind_spec (expr_of (parse e))
  | "preds", [e] ->
      let x = expr_of (parse e) in
      "OK " ^ b2s (single_for x) ^ b2s (no_comp x) ^ b2s (gens_ok x) ^ b2s (has_bad_comp x)
  | "size", [e] -> string_of_int (int_of_nat (size (expr_of (parse e))))
  | "echo", [e] -> "OK " ^ str_expr (expr_of (parse e))
  | _ -> "BADCMD " ^ cmd

let () =
  try
    while true do
      let line = input_line stdin in
      let answer =
        match String.split_on_char '\t' line with
        | [] -> "BADCMD"
        | cmd :: args -> (try handle cmd args with
                          | Failure m -> "FAIL " ^ m
                          | Stack_overflow -> "FAIL stack_overflow"
                          | Not_found -> "FAIL not_found")
      in
      print_string answer; print_char '\n'
    done
  with End_of_file -> ()

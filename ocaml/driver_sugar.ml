(* C06 driver: runs the extracted models of syntatic_sugar.py on the cases the harness sends,
   one tab-separated request per line on stdin, one answer line per request on stdout. *)
open Model
open Sx

let str_okey = function None -> "**" | Some k -> k

let str_reason = function
  | TargetNotName -> "TargetNotName"
  | AsyncComp -> "AsyncComp"
  | TooManyArgs -> "TooManyArgs"
  | DupArg k -> "DupArg:" ^ str_okey k
  | UnknownArg k -> "UnknownArg:" ^ str_okey k
  | DynamicArg -> "DynamicArg"

let str_sres = function
  | Ok e -> "OK " ^ str_expr e
  | Err (ValueErr r) -> "EXC ValueError " ^ str_reason r
  | Err Crash -> "EXC Crash GenNotComprehension"

let str_bres = function
  | BOk assoc -> "OK " ^ str_expr (dict_of_assoc assoc)
  | BErr r -> "EXC ValueError " ^ str_reason r

let rec zip a b = match a, b with x :: xs, y :: ys -> (x, y) :: zip xs ys | _ -> []

(* a binding problem is sent as the call node itself: Call (Const <class>) args kws *)
let with_call (f : string list -> expr list -> (string option * expr) list -> bres) (e : expr) : string =
  match e with
  | Call (Const c, args, kwn, kwv) ->
      (match class_fields c with
       | Some fields -> str_bres (f fields args (zip kwn kwv))
       | None -> "NOTCLASS")
  | _ -> "NOTCALL"


(* ---------- values and environments, for the cross-check of Base/Eval.v against CPython ---------- *)

let rec value_of (x : sx) : value =
  match x with
  | A "N" -> VNone
  | L [A "I"; A d] -> VInt (z_of_dec d)
  | L [A "B"; A b] -> VBool (b = "1")
  | L [A "S"; A h] -> VStr (unhx h)
  | L (A "L" :: vs) -> VList (List.map value_of vs)
  | L (A "T" :: vs) -> VTuple (List.map value_of vs)
  | _ -> failwith "value"

let rec str_value (v : value) : string =
  match v with
  | VNone -> "N"
  | VInt z -> "(I " ^ z_to_string z ^ ")"
  | VBool b -> if b then "(B 1)" else "(B 0)"
  | VStr s -> "(S " ^ hx s ^ ")"
  | VList l -> "(L" ^ String.concat "" (List.map (fun v -> " " ^ str_value v) l) ^ ")"
  | VTuple l -> "(T" ^ String.concat "" (List.map (fun v -> " " ^ str_value v) l) ^ ")"
  | VDict (ks, vs) -> "(D (" ^ String.concat " " (List.map str_value ks) ^ ") (" ^ String.concat " " (List.map str_value vs) ^ "))"
  | VObj _ -> "(O)"

let env_of (x : sx) : env =
  List.map (function L [A h; v] -> (unhx h, value_of v) | _ -> failwith "env") (lst x)

(* the three Python builtins the evaluable grammar uses besides len: a backend for [eval] *)
let py_backend : backend =
  { attr_sem = (fun _ _ -> None);
    meth_sem = (fun _ _ _ _ -> None);
    fun_sem = (fun name args kws ->
      match name, args, kws with
      | "sum", [VList l], [] ->
          List.fold_left (fun acc v -> match acc, as_int v with
                                       | Some (VInt a), Some b -> Some (VInt (Z.add a b))
                                       | _, _ -> None) (Some (VInt Z0)) l
      | "any", [VList l], [] -> Some (VBool (List.exists truthy l))
      | "abs", [VInt z], [] -> Some (VInt (Z.max z (Z.opp z)))
      | _ -> None) }

let ops_sw = ["Select"; "Where"]
let str_ovalue = function Some v -> "OK " ^ str_value v | None -> "NONE"

let b2s b = if b then "1" else "0"

let handle (cmd : string) (args : string list) : string =
  match cmd, args with
  | "sugar", [e] -> str_sres (sugar (expr_of (parse e)))
  | "sugar_pinned", [e] -> str_sres (sugar_pinned (expr_of (parse e)))
  | "convert", [e] -> with_call convert (expr_of (parse e))
  | "convert_pinned", [e] -> with_call convert_pinned (expr_of (parse e))
  | "bind_spec", [e] -> with_call bind_spec (expr_of (parse e))
  | "preds", [e] ->
      let x = expr_of (parse e) in
      "OK " ^ b2s (single_for x) ^ b2s (no_comp x) ^ b2s (gens_ok x) ^ b2s (has_bad_comp x)
  | "eval", [e; env] -> str_ovalue (eval py_backend ops_sw (env_of (parse env)) (expr_of (parse e)))
  | "evallow", [e; env] ->
      (match sugar (expr_of (parse e)) with
       | Ok e' -> str_ovalue (eval py_backend ops_sw (env_of (parse env)) e')
       | Err _ -> "NOTLOWERED")
  | "size", [e] -> string_of_int (int_of_nat (size (expr_of (parse e))))
  | "echo", [e] -> "OK " ^ str_expr (expr_of (parse e))
  | _ -> "BADCMD " ^ cmd

let () =
  try
    while true do
      let line = input_line stdin in
      let answer =
        match String.split_on_char '\t' line with
        | [] -> "BADCMD"
        | cmd :: args -> (try handle cmd args with
                          | Failure m -> "FAIL " ^ m
                          | Stack_overflow -> "FAIL stack_overflow"
                          | Not_found -> "FAIL not_found")
      in
      print_string answer; print_char '\n'
    done
  with End_of_file -> ()

(* Runs the extracted simplifier model on the cases the harness sends, one tab-separated
   request per line on stdin, one answer line per request on stdout. *)
open Model
open Sx

let handle (cmd : string) (args : string list) : string =
  match cmd, args with
  | "simp", [fuel; c; e] ->
      (match simplify (nat_of_int (int_of_string fuel)) (nat_of_int (int_of_string c)) (expr_of (parse e)) with
       | Ok (e', c') -> "OK " ^ string_of_int (int_of_nat c') ^ " " ^ str_expr e'
       | IndexErr -> "INDEXERR"
       | Crash k -> "CRASH " ^ k
       | OutOfFuel -> "OUTOFFUEL")
  | "size", [e] -> string_of_int (int_of_nat (size (expr_of (parse e))))
  | "echo", [e] -> "OK " ^ str_expr (expr_of (parse e))
  | _ -> "BADCMD " ^ cmd

let () =
  try
    while true do
      let line = input_line stdin in
      let answer =
        match String.split_on_char '\t' line with
        | [] -> "BADCMD"
        | cmd :: args -> (try handle cmd args with
                          | Failure m -> "FAIL " ^ m
                          | Stack_overflow -> "FAIL stack_overflow"
                          | Not_found -> "FAIL not_found")
      in
      print_string answer; print_char '\n'
    done
  with End_of_file -> ()

(* Driver of the capture model (C04, C05): one tab-separated request per line on stdin. *)
open Model
open Sx

let attr_of = function
  | L [c; A h; L [A "V"; r]] -> ((const_of c, unhx h), AVal (const_of r))
  | L [c; A h; L [A "E"; A "-"]] -> ((const_of c, unhx h), AEnum None)
  | L [c; A h; L [A "E"; L ns]] -> ((const_of c, unhx h), AEnum (Some (List.map (fun x -> unhx (atom x)) ns)))
  | L [c; A h; A "C"] -> ((const_of c, unhx h), ACrash)
  | _ -> failwith "attr"

(* (H <cenv> <lambda>) = a helper whose source was parsed: FC5 rewrites it with its own snapshot (one
   [helper_capval] step of the model per helper; the nesting of the S-expression is the nesting of helpers) *)
let rec capval_of = function
  | L [A "V"; c] -> CVal (const_of c)
  | L [A "F"; A "-"] -> CFun None
  | L [A "F"; e] -> CFun (Some (expr_of e))
  | L [A "H"; ce; e] -> helper_capval (cenv_of ce) (expr_of e)
  | _ -> failwith "capval"

and var_of = function
  | L [A h; v] -> (unhx h, capval_of v)
  | _ -> failwith "var"

and cenv_of = function
  | L [L nl; L gl; L at] ->
      { ce_nonlocals = List.map var_of nl; ce_globals = List.map var_of gl; ce_attrs = List.map attr_of at }
  | _ -> failwith "cenv"

let str_err = function EValueError -> "ValueError" | ECrash -> "Crash"
let sres_expr = function Ok e -> "OK " ^ str_expr e | Err e -> "ERR " ^ str_err e
let sres_unit = function Ok _ -> "OK" | Err e -> "ERR " ^ str_err e

let handle (cmd : string) (args : string list) : string =
  match cmd, args with
  | "parse", [ce; e] -> sres_expr (parse_callable (cenv_of (parse ce)) (expr_of (parse e)))
  | "pipeline", [ce; e] -> sres_expr (capture_pipeline (cenv_of (parse ce)) (expr_of (parse e)))
  | "rewrite", [ce; e] -> sres_expr (rewrite_captured (cenv_of (parse ce)) (expr_of (parse e)))
  | "resolve", [e] -> sres_expr (resolve_called (expr_of (parse e)))
  | "check", [e] -> sres_unit (check_ast (expr_of (parse e)))
  | "size", [e] -> string_of_int (int_of_nat (size (expr_of (parse e))))
  | "echo", [e] -> "OK " ^ str_expr (expr_of (parse e))
  | _ -> "BADCMD " ^ cmd

let () =
  try
    while true do
      let line = input_line stdin in
      let answer =
        match String.split_on_char '\t' line with
        | [] -> "BADCMD"
        | cmd :: args -> (try handle cmd args with
                          | Failure m -> "FAIL " ^ m
                          | Stack_overflow -> "FAIL stack_overflow"
                          | Not_found -> "FAIL not_found")
      in
      print_string answer; print_char '\n'
    done
  with End_of_file -> ()

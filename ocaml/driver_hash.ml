(* Driver of the C20 models (ast.dump / calc_ast_hash): runs the extracted functions on the cases
   the harness sends, one tab-separated request per line on stdin, one answer line per request.

   Codec of raw generic trees (harness/props/hash_common.py: to_rsx), own to this driver:
     rval ::= (N <cls:hx> (<slot> ...) (<attr> ...)) | (L rval ...) | atom
     slot ::= (<name:hx> <d:0|1> rval) | (<name:hx> <d:0|1> -)          - = getattr raises AttributeError
     attr ::= (<name:hx> <token:hx>)
     atom ::= (I dec) | (B 0|1) | (S cp ...) | (Y byte ...) | N | E | (F <tok:hx>) | (X <tok:hx>)
   [printable] for code points >= 128 is sent with each request as the list of the NON-printable
   code points that occur in the case (decided by CPython's str.isprintable); md5 is OCaml's Digest. *)
open Model
open Sx

let rec pos_of_int (i : int) : positive =
  if i <= 1 then XH else if i land 1 = 1 then XI (pos_of_int (i lsr 1)) else XO (pos_of_int (i lsr 1))
let n_of_int (i : int) : n = if i <= 0 then N0 else Npos (pos_of_int i)
let rec int_of_pos = function XH -> 1 | XO p -> 2 * int_of_pos p | XI p -> 2 * int_of_pos p + 1
let int_of_n = function N0 -> 0 | Npos p -> int_of_pos p

let atom_of = function
  | A "N" -> ANone
  | A "E" -> AEllipsis
  | L [A "B"; A b] -> ABool (b = "1")
  | L [A "I"; A d] -> AInt (z_of_dec d)
  | L (A "S" :: cs) -> AStr (List.map (fun c -> n_of_int (int_of_string (atom c))) cs)
  | L (A "Y" :: cs) -> ABytes (List.map (fun c -> n_of_int (int_of_string (atom c))) cs)
  | L [A "F"; A h] -> AFloat (unhx h)
  | L [A "X"; A h] -> AComplex (unhx h)
  | _ -> failwith "atom"

let rec rval_of (x : sx) : rval =
  match x with
  | L [A "N"; A c; L slots; L attrs] ->
      RNode (unhx c,
             List.map (function
                 | L [A k; A d; A "-"] -> ((unhx k, d = "1"), None)
                 | L [A k; A d; v] -> ((unhx k, d = "1"), Some (rval_of v))
                 | _ -> failwith "slot") slots,
             List.map (function L [A k; A t] -> (unhx k, unhx t) | _ -> failwith "attr") attrs)
  | L (A "L" :: vs) -> RList (List.map rval_of vs)
  | a -> RAtom (atom_of a)

let printable_of (s : string) : n -> bool =
  if s = "-" then (fun _ -> true)
  else
    let l = List.map int_of_string (String.split_on_char ',' s) in
    (fun c -> not (List.mem (int_of_n c) l))

let show (t : text) : string = String.concat " " (List.map (fun c -> string_of_int (int_of_n c)) t)

let bytes_of (t : text) : string =
  let b = Buffer.create 64 in List.iter (fun c -> Buffer.add_char b (Char.chr (int_of_n c))) t; Buffer.contents b
let text_of (s : string) : text = List.init (String.length s) (fun i -> n_of_int (Char.code s.[i]))
let md5 (t : text) : text = text_of (Digest.to_hex (Digest.string (bytes_of t)))

let handle (cmd : string) (args : string list) : string =
  match cmd, args with
  | "dump", [np; e] -> show (dump_raw (printable_of np) (rval_of (parse e)))
  | "gdump", [np; e] -> show (dump (printable_of np) (erase (rval_of (parse e))))
  | "hash", [np; e] ->
      (match hash (printable_of np) md5 (rval_of (parse e)) with
       | Some h -> "OK " ^ bytes_of h
       | None -> "NONE")
  | "wf", [e] -> if wf (erase (rval_of (parse e))) then "1" else "0"
  | "gsize", [e] -> string_of_int (int_of_nat (gsize (erase (rval_of (parse e)))))
  | "size", [e] -> string_of_int (int_of_nat (size (expr_of (parse e))))
  | _ -> "BADCMD " ^ cmd

let () =
  try
    while true do
      let line = input_line stdin in
      let answer =
        match String.split_on_char '\t' line with
        | [] -> "BADCMD"
        | cmd :: args -> (try handle cmd args with
                          | Failure m -> "FAIL " ^ m
                          | Stack_overflow -> "FAIL stack_overflow"
                          | Not_found -> "FAIL not_found")
      in
      print_string answer; print_char '\n'
    done
  with End_of_file -> ()

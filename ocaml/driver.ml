(* Runs extracted model functions on the cases the harness sends, one tab-separated
   request per line on stdin, one answer line per request on stdout. *)
open Model
open Sx

let opt_expr = function Some e -> "OK " ^ str_expr e | None -> "NONE"

let handle (cmd : string) (args : string list) : string =
  match cmd, args with
  | "agg", [e] -> opt_expr (agg (expr_of (parse e)))
  | "size", [e] -> string_of_int (int_of_nat (size (expr_of (parse e))))
  | "echo", [e] -> "OK " ^ str_expr (expr_of (parse e))
  | _ -> "BADCMD " ^ cmd

let () =
  try
    while true do
      let line = input_line stdin in
      let answer =
        match String.split_on_char '\t' line with
        | [] -> "BADCMD"
        | cmd :: args -> (try handle cmd args with
                          | Failure m -> "FAIL " ^ m
                          | Stack_overflow -> "FAIL stack_overflow"
                          | Not_found -> "FAIL not_found")
      in
      print_string answer; print_char '\n'
    done
  with End_of_file -> ()

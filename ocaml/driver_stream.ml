(* Driver of the stream/heap model (C11, C12, C16): runs an operation history through the extracted
   [Model.step] and prints what the harness compares with the implementation.
   Request:  hist <TAB> (<op> ...) <TAB> (<key-hex> ...)
   Answer :  one S-expression, see [run_hist]. *)
open Model
open Sx

let n2i = int_of_nat
let i2n = nat_of_int

(* ---------------------------------------------------------------- codec of generic trees *)
let atom_of = function
  | L [A "s"; A h] -> AStr (unhx h)
  | L [A "r"; A h] -> ARaw (unhx h)
  | _ -> failwith "atom"

let str_atom = function AStr s -> "(s " ^ hx s ^ ")" | ARaw s -> "(r " ^ hx s ^ ")"

let kind_of = function "1" -> KOne | "L" -> KList | s -> failwith ("kind " ^ s)
let str_kind = function KOne -> "1" | KList -> "L"

(* itree:  (s hex) | (r hex) | (ref k) | (n cls (fname kind kid ...) ...) *)
let rec itree_of (x : sx) : itree =
  match x with
  | L [A "s"; _] | L [A "r"; _] -> Leaf (atom_of x)
  | L [A "ref"; A k] -> G (IRef (i2n (int_of_string k)), "", [])
  | L (A "n" :: A cls :: fs) ->
      G (INew [], cls, List.map (function
          | L (A f :: A k :: kids) -> ((f, kind_of k), List.map itree_of kids)
          | _ -> failwith "field") fs)
  | _ -> failwith "itree"

let rec str_tree : 'a. 'a gtree -> string = fun t ->
  match t with
  | Leaf a -> str_atom a
  | G (_, cls, fs) ->
      "(n " ^ cls ^ String.concat "" (List.map (fun ((f, k), kids) ->
          " (" ^ f ^ " " ^ str_kind k ^ String.concat "" (List.map (fun kid -> " " ^ str_tree kid) kids) ^ ")") fs) ^ ")"

let str_exid = function EDs d -> "(d " ^ string_of_int (n2i d) ^ ")" | EOv k -> "(o " ^ string_of_int (n2i k) ^ ")"

let str_aval = function
  | AExec e -> "(exec " ^ str_exid e ^ ")"
  | AEds d -> "(eds " ^ string_of_int (n2i d) ^ ")"
  | AQmd d -> "(qmd" ^ String.concat "" (List.map (fun (k, v) -> " (" ^ hx k ^ " " ^ str_atom v ^ ")") d) ^ ")"

let str_attrs (a : attrs) = "(" ^ String.concat " " (List.map (fun (k, v) -> "(" ^ k ^ " " ^ str_aval v ^ ")") a) ^ ")"

let str_err = function
  | EAttribute -> "AttributeError" | EIndex -> "IndexError" | EType -> "TypeError" | EValue -> "ValueError"
  | ENoRoot -> "NoRoot" | EManyRoots -> "ManyRoots" | EBadStream -> "BadStream" | EBadRef -> "BadRef"
  | EBadTree -> "BadTree" | EBadCall -> "BadCall" | EDangling -> "Dangling"

let opt_hex = function A "-" -> None | A h -> Some (unhx h) | _ -> failwith "opt"
let str_opt_hex = function None -> "-" | Some s -> hx s

let result_of_sx = function
  | L [A "R"; A h] -> RRet (unhx h)
  | L [A "X"; A h] -> RRaise (unhx h)
  | _ -> failwith "result"
let str_result = function RRet v -> "(R " ^ hx v ^ ")" | RRaise c -> "(X " ^ hx c ^ ")"

let int_of = function A s -> int_of_string s | _ -> failwith "int"

let op_of (x : sx) : op =
  match x with
  | L [A "ds"; A ty] -> NewDataset (unhx ty)
  | L [A "new"; t; A ty] -> NewStream (itree_of t, unhx ty)
  | L [A "der"; s; A k; lam; L cbs; A rty] ->
      let k = (match k with "Select" -> DSelect | "SelectMany" -> DSelectMany | "Where" -> DWhere | _ -> failwith "dkind") in
      Derive (i2n (int_of s), k, itree_of lam, List.map itree_of cbs, unhx rty)
  | L [A "md"; s; lit] -> MetaData (i2n (int_of s), itree_of lit)
  | L [A "qmd"; s; L kvs] ->
      QMetaData (i2n (int_of s), List.map (function L [A k; v] -> (unhx k, atom_of v) | _ -> failwith "kv") kvs)
  | L [A "term"; s; A m; L lits] ->
      Terminal (i2n (int_of s), m, List.map (function L [A p; t] -> (p, itree_of t) | _ -> failwith "lit") lits)
  | L [A "vs"; s; ov; title] ->
      ValueStart (i2n (int_of s), (match ov with A "-" -> None | A k -> Some (i2n (int_of_string k)) | _ -> failwith "ov"), opt_hex title)
  | L [A "vf"; c; r] -> ValueFinish (i2n (int_of c), result_of_sx r)
  | _ -> failwith "op"

(* ---------------------------------------------------------------- addressed dump of the objects a step created *)
let rec gdump (h : heap) (oldlen : int) (v : hv) : string =
  match v with
  | HL a -> str_atom a
  | HA a ->
      let ai = n2i a in
      if ai < oldlen then "(@ " ^ string_of_int ai ^ ")"
      else match hget h a with
        | None -> "(dangling " ^ string_of_int ai ^ ")"
        | Some nd ->
            "(N " ^ string_of_int ai ^ " " ^ nd.ncls ^ " " ^ str_attrs nd.nattrs
            ^ String.concat "" (List.map (fun ((f, k), kids) ->
                " (" ^ f ^ " " ^ str_kind k ^ String.concat "" (List.map (fun kid -> " " ^ gdump h oldlen kid) kids) ^ ")")
                nd.nfields) ^ ")"

let str_otree = function None -> "none" | Some t -> str_tree t
let md5 s = Digest.to_hex (Digest.string s)

let nth_opt l i = try Some (List.nth l i) with _ -> None

let run_hist (ops : op list) (keys : string list) : string =
  let st = ref init in
  let b = Buffer.create 4096 in
  Buffer.add_string b "((steps";
  List.iter (fun o ->
      let oldlen = List.length (!st).heap_ in
      let (st', out) = step !st o in
      st := st';
      (match out with
       | OStream sid ->
           let s = List.nth st'.streams (n2i sid) in
           let t = (match obs st' sid with Some (t, _) -> t | None -> None) in
           Buffer.add_string b (" (S " ^ string_of_int (n2i sid) ^ " " ^ hx s.ity ^ " " ^ str_otree t ^ " "
                                ^ gdump st'.heap_ oldlen (HA s.root) ^ ")")
       | OCall c ->
           let ((e, t), title) = List.nth st'.log (List.length st'.log - 1) in
           Buffer.add_string b (" (C " ^ string_of_int (n2i c) ^ " " ^ str_exid e ^ " " ^ str_otree t ^ " " ^ str_opt_hex title ^ ")")
       | ODone (c, r) -> Buffer.add_string b (" (D " ^ string_of_int (n2i c) ^ " " ^ str_result r ^ ")")
       | OErr e -> Buffer.add_string b (" (E " ^ str_err e ^ ")")))
    ops;
  Buffer.add_string b ")";
  let st = !st in
  let ns = List.length st.streams in
  (* final observation of every stream: digest of the dump, item type, lookups, dataset *)
  Buffer.add_string b " (final";
  for i = 0 to ns - 1 do
    let sid = i2n i in
    let (t, ty) = (match obs st sid with Some x -> x | None -> (None, "?")) in
    Buffer.add_string b (" (" ^ string_of_int i ^ " " ^ md5 (str_otree t) ^ " " ^ hx ty ^ " (");
    List.iter (fun k ->
        Buffer.add_string b (match lookup st sid k with None -> " -" | Some a -> " " ^ str_atom a)) keys;
    Buffer.add_string b ") ";
    Buffer.add_string b (match stream_dataset st sid with Ok d -> "(ok " ^ string_of_int (n2i d) ^ ")" | Err e -> "(err " ^ str_err e ^ ")");
    Buffer.add_string b ")"
  done;
  Buffer.add_string b ") (calls";
  List.iter (fun r -> Buffer.add_string b (match r with None -> " -" | Some r -> " " ^ str_result r)) st.calls;
  Buffer.add_string b ") (nlog ";
  Buffer.add_string b (string_of_int (List.length st.log));
  Buffer.add_string b "))";
  Buffer.contents b

(* the same history through the pure specification side: qmd_spec for every stream and key, and the dumps of the
   history with QMetaData erased *)
let run_spec (ops : op list) (keys : string list) : string =
  let st = run ops in
  let ste = run (erase_qmd ops) in
  let ns = List.length st.streams in
  let b = Buffer.create 1024 in
  Buffer.add_string b "(";
  for i = 0 to ns - 1 do
    let sid = i2n i in
    let d x = (match obs x sid with Some (t, ty) -> md5 (str_otree t) ^ " " ^ hx ty | None -> "none -") in
    Buffer.add_string b (" (" ^ string_of_int i ^ " " ^ d st ^ " " ^ d ste ^ " (");
    List.iter (fun k -> Buffer.add_string b (match qmd_spec ops sid k with None -> " -" | Some a -> " " ^ str_atom a)) keys;
    Buffer.add_string b "))"
  done;
  Buffer.add_string b " (elog";
  List.iter (fun ((e, t), title) -> Buffer.add_string b (" (" ^ str_exid e ^ " " ^ md5 (str_otree t) ^ " " ^ str_opt_hex title ^ ")")) ste.log;
  Buffer.add_string b ") (log";
  List.iter (fun ((e, t), title) -> Buffer.add_string b (" (" ^ str_exid e ^ " " ^ md5 (str_otree t) ^ " " ^ str_opt_hex title ^ ")")) st.log;
  Buffer.add_string b "))";
  Buffer.contents b

(* tree-level functions on a plain tree: remove_empty, find_EventDataset, count *)
let tree_fun (t : itree) : string =
  let t0 = erase t in
  let c = (match clean t0 with Ok t' -> "(ok " ^ str_tree t' ^ ")" | Err e -> "(err " ^ str_err e ^ ")") in
  let f = (match find_root t0 with Ok t' -> "(ok " ^ str_tree t' ^ ")" | Err e -> "(err " ^ str_err e ^ ")") in
  "(" ^ c ^ " " ^ f ^ " " ^ string_of_int (n2i (count_roots t0)) ^ ")"

let handle (cmd : string) (args : string list) : string =
  match cmd, args with
  | "hist", [ops; keys] ->
      run_hist (List.map op_of (lst (parse ops))) (List.map (fun k -> unhx (atom k)) (lst (parse keys)))
  | "spec", [ops; keys] ->
      run_spec (List.map op_of (lst (parse ops))) (List.map (fun k -> unhx (atom k)) (lst (parse keys)))
  | "tree", [t] -> tree_fun (itree_of (parse t))
  | _ -> "BADCMD " ^ cmd

let () =
  try
    while true do
      let line = input_line stdin in
      let answer =
        match String.split_on_char '\t' line with
        | [] -> "BADCMD"
        | cmd :: args -> (try handle cmd args with
                          | Failure m -> "FAIL " ^ m
                          | Stack_overflow -> "FAIL stack_overflow"
                          | Not_found -> "FAIL not_found")
      in
      print_string answer; print_char '\n'
    done
  with End_of_file -> ()

(* Driver of the C03 model (Model/LambdaFinder.v, Model/LambdaFinderSpec.v): one tab-separated
   request per line on stdin, one answer line per request on stdout.

   Token codec (harness/props/finder_common.py), own to this driver:
     streams ::= stream ('|' stream)*           stream ::= tok (';' tok)*   (may be empty)
     tok     ::= <abs row:dec> ',' <kind> ',' <text:hex>
     kind    ::= n NAME | o OP | l NEWLINE | j NL | c COMMENT | e tokenizer exception | x other
   CPython's untokenize+ast.parse of an extent ([P]) is sent as a table
     ptable  ::= entry (';' entry)*             entry ::= <stream>.<start>.<stop>.<res>
     res     ::= A[<hex>(,<hex>)*] | N | X<hex>
   and looked up by the extent's token list (so [P] is a function of the tokens, as in the model). *)
open Model
open Sx

let hexs (h : string) : string =
  let n = String.length h / 2 in
  String.init n (fun i -> Char.chr (hexval h.[2*i] * 16 + hexval h.[2*i+1]))
let to_hex (s : string) : string =
  let b = Buffer.create (2 * String.length s) in
  String.iter (fun c -> Buffer.add_string b (Printf.sprintf "%02x" (Char.code c))) s;
  Buffer.contents b

let kind_of = function
  | "n" -> KName | "o" -> KOp | "l" -> KNewline | "j" -> KNl | "c" -> KComment | "e" -> KErr
  | "x" -> KOther | k -> failwith ("kind " ^ k)

let tok_of (s : string) : tok =
  match String.split_on_char ',' s with
  | [r; k; h] -> { trow = nat_of_int (int_of_string r); tkind = kind_of k; ttext = hexs h }
  | _ -> failwith ("tok " ^ s)

let split_ne c s = if s = "" then [] else String.split_on_char c s
let stream_of (s : string) : tok list = List.map tok_of (split_ne ';' s)
let streams_of (s : string) : tok list list =
  if s = "" then [] else List.map stream_of (String.split_on_char '|' s)

let strs_of (s : string) : string list = List.map hexs (split_ne ',' s)
let opt_of (s : string) : string option = if s = "-" then None else Some (hexs s)
let bool_of (s : string) : bool = (s = "1")

let res_of (s : string) : parse_res =
  if s = "N" then PNoLambda
  else if s.[0] = 'A' then PArgs (strs_of (String.sub s 1 (String.length s - 1)))
  else if s.[0] = 'X' then PExc (hexs (String.sub s 1 (String.length s - 1)))
  else failwith ("res " ^ s)

let ptable_of (streams : tok list list) (s : string) : parse_fn =
  let entries =
    List.map (fun e ->
        match String.split_on_char '.' e with
        | [si; a; b; r] ->
            let toks = List.nth streams (int_of_string si) in
            (extent toks (nat_of_int (int_of_string a)) (nat_of_int (int_of_string b)), res_of r)
        | _ -> failwith ("entry " ^ e)) (split_ne ';' s) in
  List.iter (fun (k, r) ->
      List.iter (fun (k', r') -> if k = k' && r <> r' then failwith "parse table is not a function of the tokens")
        entries) entries;
  (fun ext -> try List.assoc ext entries with Not_found -> PExc "MissingParse")

let dsrc_of (s : string) : def_src =
  if s = "" || s = "-" then DSBody []
  else if s.[0] = 'X' then DSExc (hexs (String.sub s 1 (String.length s - 1)))
  else DSBody (List.init (String.length s) (fun i ->
      match s.[i] with 'd' -> SDoc | 'r' -> SReturn | _ -> SOther))

let err_name = function
  | ENoSource -> "NoSource" | ENoLambda -> "NoLambda" | ENoArgs -> "NoArgs" | EMultiple -> "Multiple"
  | EDefLines -> "DefLines" | EDefNoReturn -> "DefNoReturn"

let show_outcome = function
  | Found (s, k) -> Printf.sprintf "Found %d %d" (int_of_nat s) (int_of_nat k)
  | FoundDef -> "FoundDef"
  | Err e -> "Err " ^ err_name e
  | Crash c -> "Crash " ^ c
  | NeedStream s -> Printf.sprintf "NeedStream %d" (int_of_nat s)

let b2s b = if b then "1" else "0"
let keywords kwfix is_lam = if kwfix then (if is_lam then ["lambda"] else ["def"]) else ["def"; "lambda"]

(* cut a stream into call segments at the candidates the scan recorded (start.stop pairs):
   glue = tokens after the previous stop up to the NAME find_identifier returns with the lambda (the last
   NAME before it that is not the keyword of a `name=` argument), gap = between that NAME and the lambda,
   body = between the lambda and its stop token *)
let rec take n l = if n <= 0 then [] else match l with [] -> [] | x :: r -> x :: take (n - 1) r
let rec drop n l = if n <= 0 then l else match l with [] -> [] | _ :: r -> drop (n - 1) r
let slice l a b = take (b - a) (drop a l)
let decompose (toks : tok list) (cands : (int * int) list) : segment list * tok list =
  let arr = Array.of_list toks in
  let n = Array.length arr in
  let rec go prev = function
    | [] -> ([], slice toks prev n)
    | (a, b) :: rest ->
        let ni = ref (-1) and pi = ref (-1) and was_name = ref false in
        for i = prev to a - 1 do
          if arr.(i).tkind = KName then (pi := !ni; ni := i; was_name := true)
          else begin
            if !was_name && arr.(i).tkind = KOp && arr.(i).ttext = "=" then ni := !pi;
            was_name := false
          end
        done;
        if !ni < 0 || b >= n || a >= n then failwith "nodecomp";
        let g = { g_glue = slice toks prev !ni; g_name = arr.(!ni).ttext; g_row = arr.(!ni).trow;
                  g_gap = slice toks (!ni + 1) a; g_lrow = arr.(a).trow; g_body = slice toks (a + 1) b;
                  g_stop = arr.(b) } in
        let (gs, tail) = go (b + 1) rest in
        (g :: gs, tail) in
  go 0 cands

let handle (cmd : string) (args : string list) : string =
  match cmd, args with
  | "find", [rowfix; kwfix; streams; l; is_lam; dsrc; caller; fargs; ptab] ->
      let ss = streams_of streams in
      (* eqfix (the repair of d451731) is always in force on this path *)
      show_outcome (find_gen (bool_of rowfix) (bool_of kwfix) true (ptable_of ss ptab) ss
                      (nat_of_int (int_of_string l)) (bool_of is_lam) (dsrc_of dsrc) (opt_of caller)
                      (strs_of fargs))
  | "cands", [kwfix; is_lam; streams] ->
      (* every extent the scan hands to CPython's parser, in order, under a parser that never raises
         (so a superset of the extents the real run parses); the stream is identified by physical
         identity of the start token, the end by the specification function ext_stop - an entry
         whose end differs from the model's own is simply not found by [find] (Crash MissingParse) *)
      let ss = streams_of streams in
      let seen = ref [] in
      let p (ext : tok list) : parse_res =
        (match ext with
         | t0 :: _ ->
             List.iteri (fun si toks ->
                 List.iteri (fun i t -> if t == t0 then
                                seen := (si, i, int_of_nat (ext_stop toks (nat_of_int i))) :: !seen) toks) ss
         | [] -> ());
        PArgs [] in
      let (s, r) = backup p (keywords (bool_of kwfix) (bool_of is_lam)) true ss O in
      let tag = match r with
        | None -> "need" | Some (ScDone _) -> "done" | Some ScDef -> "def" | Some ScNone -> "none"
        | Some (ScCrash _) -> "crash" | Some (ScNoName _) -> "noname" in
      Printf.sprintf "%s %d %s" tag (int_of_nat s)
        (String.concat ";" (List.rev_map (fun (si, a, b) -> Printf.sprintf "%d.%d.%d" si a b) !seen))
  | "stop", [stream; k] ->
      string_of_int (int_of_nat (ext_stop (stream_of stream) (nat_of_int (int_of_string k))))
  | "hyps", [stream; k0; l; caller; fargs; ptab] ->
      let toks = stream_of stream in
      let p = ptable_of [toks] ptab in
      let k0 = nat_of_int (int_of_string k0) in
      b2s (rows_okb toks)
      ^ b2s (lambda_atb p toks k0 (nat_of_int (int_of_string l)) (hexs caller) (strs_of fargs))
      ^ b2s (not_nestedb toks k0)
  | "layout", [streams; si; cands; k0; l; caller; fargs; ptab] ->
      (* does finder_supported_layouts_partial / finder_recognised_layouts apply to this case, cut at the
         given extents?  answer: four bits (stream = layout_toks of the decomposition; earlier streams
         back up; supported_layoutb; recognisedb) and the index the theorems predict *)
      let ss = streams_of streams in
      let si = int_of_string si and k0 = int_of_string k0 in
      let toks = List.nth ss si in
      let p = ptable_of ss ptab in
      let cl = List.map (fun e -> match String.split_on_char '.' e with
          | [a; b] -> (int_of_string a, int_of_string b) | _ -> failwith "cand") (split_ne ';' cands) in
      (try
         let (gs, tail) = decompose toks cl in
         let rec split3 gs cl = match gs, cl with
           | g :: gr, (a, _) :: cr ->
               if a = k0 then ([], g, gr)
               else let (g1, g0, g2) = split3 gr cr in (g :: g1, g0, g2)
           | _ -> failwith "nodecomp" in
         let (gs1, g0, gs2) = split3 gs cl in
         let back = List.for_all (fun ts -> match scan_stream p ["lambda"] true ts with ScNoName _ -> true | _ -> false)
             (take si ss) in
         let pred = int_of_nat (seg_start g0 (nat_of_int (List.length (List.concat_map seg_toks gs1)))) in
         Printf.sprintf "%s%s%s%s %d" (b2s (layout_toks gs tail = toks)) (b2s back)
           (b2s (supported_layoutb p (nat_of_int (int_of_string l)) (hexs caller) (strs_of fargs) gs1 g0 gs2 tail))
           (b2s (recognisedb p (nat_of_int (int_of_string l)) (hexs caller) (strs_of fargs) gs1 g0 gs2 tail))
           pred
       with Failure "nodecomp" -> "---- -1")
  | "deflayout", [stream; dsrc] -> b2s (def_layoutb (stream_of stream) (dsrc_of dsrc))
  | _ -> "BADCMD " ^ cmd

let () =
  try
    while true do
      let line = input_line stdin in
      let answer =
        match String.split_on_char '\t' line with
        | [] -> "BADCMD"
        | cmd :: args -> (try handle cmd args with
                          | Failure m -> "FAIL " ^ m
                          | Stack_overflow -> "FAIL stack_overflow"
                          | Invalid_argument m -> "FAIL invalid " ^ m
                          | Not_found -> "FAIL not_found")
      in
      print_string answer; print_char '\n'
    done
  with End_of_file -> ()

"""Generated table plug-in for the type follower (C07-C10): coq/FA/Gen/TablesTypes.v.

Read from the *source text* of func_adl/type_based_replacement.py (never imported):
  * fill_skipped_params / fill_increments  - the parameter filter and the `i_arg += 1` of the signature walk in
    `_fill_in_default_arguments`
  * ft_default                             - the functions `_load_default_global_functions` registers
  * unary_uses_lookup, param_call_guard    - small shape facts the model's F11/F21 branches rest on
and, from the running CPython (not from the repository), `python_keywords` = keyword.kwlist.
"""
import ast
import keyword

import bridge
import sync_tables
from sync_tables import Unrecognised

OUT = "TablesTypes.v"

PRIM = {"float": "TFloat", "int": "TInt", "bool": "TBool", "str": "TStr"}


def _fill_facts(mod):
    fn = sync_tables._find(mod, ast.FunctionDef, "_fill_in_default_arguments")
    loops = [n for n in ast.walk(fn) if isinstance(n, ast.For) and ast.unparse(n.iter) == "sig.parameters.values()"]
    if len(loops) != 1:
        raise Unrecognised("_fill_in_default_arguments: expected one loop over sig.parameters.values()")
    loop = loops[0]
    if len(loop.body) != 1 or not isinstance(loop.body[0], ast.If) or loop.body[0].orelse:
        raise Unrecognised("_fill_in_default_arguments: loop body is not a single `if`")
    test = loop.body[0].test
    u = ast.unparse(test)
    if isinstance(test, ast.Compare) and len(test.ops) == 1 and ast.unparse(test.left) == "param.name":
        c = test.comparators[0]
        if isinstance(test.ops[0], ast.NotEq) and isinstance(c, ast.Constant) and isinstance(c.value, str):
            skipped = [c.value]
        elif isinstance(test.ops[0], ast.NotIn) and isinstance(c, (ast.Tuple, ast.List)) and \
                all(isinstance(x, ast.Constant) and isinstance(x.value, str) for x in c.elts):
            skipped = [x.value for x in c.elts]
        else:
            raise Unrecognised("parameter filter: " + u)
    else:
        raise Unrecognised("parameter filter: " + u)
    inner = loop.body[0].body
    # shape: `if len(arg_array) <= i_arg: ...` optionally followed by `i_arg += 1`
    if not inner or not isinstance(inner[0], ast.If) or ast.unparse(inner[0].test) != "len(arg_array) <= i_arg":
        raise Unrecognised("_fill_in_default_arguments: missing `if len(arg_array) <= i_arg`")
    rest = inner[1:]
    if not rest:
        incr = False
    elif len(rest) == 1 and ast.unparse(rest[0]) == "i_arg += 1":
        incr = True
    else:
        raise Unrecognised("_fill_in_default_arguments: unexpected statements after the fill: " + ast.unparse(rest[0]))
    return skipped, incr


def _default_functions(mod):
    fn = sync_tables._find(mod, ast.FunctionDef, "_load_default_global_functions")
    defs = {}
    regs = []
    for st in fn.body:
        if isinstance(st, ast.Expr) and isinstance(st.value, ast.Constant):
            continue
        if isinstance(st, ast.FunctionDef):
            a = st.args
            if a.vararg or a.kwarg or a.kwonlyargs or a.posonlyargs:
                raise Unrecognised("default function with special parameters: " + st.name)
            if len(a.defaults) != 0:
                raise Unrecognised("default function with defaults: " + st.name)
            if st.returns is None:
                ret = "None"
            elif isinstance(st.returns, ast.Name) and st.returns.id in PRIM:
                ret = "(Some %s)" % PRIM[st.returns.id]
            else:
                raise Unrecognised("return annotation of " + st.name)
            defs[st.name] = ([x.arg for x in a.args], ret)
        elif isinstance(st, ast.Assign) and len(st.targets) == 1 and isinstance(st.targets[0], ast.Subscript) \
                and ast.unparse(st.targets[0].value) == "_global_functions" \
                and isinstance(st.targets[0].slice, ast.Constant) \
                and isinstance(st.value, ast.Call) and ast.unparse(st.value.func) == "_FuncAdlFunction" \
                and len(st.value.args) == 3 and isinstance(st.value.args[1], ast.Name) \
                and isinstance(st.value.args[2], ast.Constant) and st.value.args[2].value is None:
            regs.append((st.targets[0].slice.value, st.value.args[1].id))
        else:
            raise Unrecognised("_load_default_global_functions: " + ast.unparse(st)[:80])
    out = []
    for name, impl in regs:
        if impl not in defs:
            raise Unrecognised("registered function without definition: " + impl)
        ps, ret = defs[impl]
        plist = "; ".join("{| p_name := %s; p_default := None |}" % bridge.coq_str(p) for p in ps)
        out.append("{| f_name := %s; f_params := [%s]; f_ret := %s; f_proc := None |}" % (bridge.coq_str(name), plist, ret))
    return out


def _shape_facts(mod):
    rb = sync_tables._find(mod, ast.FunctionDef, "remap_by_types")
    un = sync_tables._find(rb, ast.FunctionDef, "visit_UnaryOp")
    txt = ast.unparse(un)
    if "self._found_types[node.operand]" in txt:
        unary_lookup = False
    elif "self.lookup_type(node.operand)" in txt or "self.lookup_type(t_node.operand)" in txt:
        unary_lookup = True
    else:
        raise Unrecognised("visit_UnaryOp: operand type lookup not recognised")
    vc = sync_tables._find(rb, ast.FunctionDef, "visit_Call")
    guard = None
    for n in ast.walk(vc):
        if isinstance(n, ast.If) and "process_parameterized_method_call" in ast.unparse(n.body) \
                and "found_type" in ast.unparse(n.test):
            guard = ast.unparse(n.test)
    if guard in ("found_type != Any", "found_type is not Any"):
        pg = True
    elif guard == "found_type is not None":
        pg = False
    else:
        raise Unrecognised("visit_Call: guard of the parameterized-call branch: %r" % guard)
    return unary_lookup, pg


def generate(repo):
    mod = sync_tables._src("func_adl/type_based_replacement.py")
    skipped, incr = _fill_facts(mod)
    funcs = _default_functions(mod)
    unary_lookup, pg = _shape_facts(mod)
    b = lambda x: "true" if x else "false"  # noqa
    return "\n".join([
        "(* GENERATED by harness/sync_tables.py (+ harness/tables/types_tbl.py) from /repo's current source text. Do not edit. *)",
        "From FA.Base Require Import PyAst.",
        "From FA.Model Require Import TypeDefs.",
        "",
        "(* func_adl/type_based_replacement.py: _fill_in_default_arguments *)",
        "Definition fill_skipped_params : list string := %s." % sync_tables._coq_strs(skipped),
        "Definition fill_increments : bool := %s." % b(incr),
        "",
        "(* _load_default_global_functions *)",
        "Definition ft_default : functab :=",
        "  [" + ";\n   ".join(funcs) + "].",
        "",
        "(* visit_UnaryOp reads the operand type through lookup_type; visit_Call enters the parameterized-call",
        "   branch only for a receiver whose type is known *)",
        "Definition unary_uses_lookup : bool := %s." % b(unary_lookup),
        "Definition param_call_guarded : bool := %s." % b(pg),
        "",
        "(* CPython %s: keyword.kwlist (not read from the repository) *)" % ".".join(map(str, __import__("sys").version_info[:2])),
        "Definition python_keywords : list string := %s." % sync_tables._coq_strs(list(keyword.kwlist)),
        "",
    ])

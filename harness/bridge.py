"""Bridge between Python ``ast`` trees and the Coq/OCaml ``expr`` type (coq/FA/Base/PyAst.v).

* ``to_sx(node)``   Python ast  -> S-expression text read by ocaml/driver.ml
* ``from_sx(text)`` S-expression -> Python ast (for oracles that evaluate model output)
* ``to_coq(node)``  Python ast  -> Gallina term text (generated tables, cases.v)

The encoding is total on Python ``ast`` nodes: every node class the Coq type does not
name becomes ``Other "<Class>;<layout>" atoms children`` in ``ast.iter_fields`` order
(``ctx`` fields are dropped everywhere: no modelled pass reads or distinguishes them).
A raw Python value sitting where a node is required becomes ``Raw``.
"""
from __future__ import annotations

import ast
import dataclasses
import types
from typing import Any, List

UOPS = {ast.Not: "UNot", ast.USub: "USub", ast.UAdd: "UAdd", ast.Invert: "UInvert"}
BOPS = {
    ast.Add: "Add", ast.Sub: "Sub", ast.Mult: "Mult", ast.Div: "Div", ast.FloorDiv: "FloorDiv",
    ast.Mod: "Mod", ast.Pow: "Pow", ast.LShift: "LShift", ast.RShift: "RShift",
    ast.BitOr: "BitOr", ast.BitXor: "BitXor", ast.BitAnd: "BitAnd", ast.MatMult: "MatMult",
}
BOOLOPS = {ast.And: "And", ast.Or: "Or"}
CMPOPS = {
    ast.Eq: "Eq", ast.NotEq: "NotEq", ast.Lt: "Lt", ast.LtE: "LtE", ast.Gt: "Gt", ast.GtE: "GtE",
    ast.Is: "Is", ast.IsNot: "IsNot", ast.In: "In", ast.NotIn: "NotIn",
}
R_UOPS = {v: k for k, v in UOPS.items()}
R_BOPS = {v: k for k, v in BOPS.items()}
R_BOOLOPS = {v: k for k, v in BOOLOPS.items()}
R_CMPOPS = {v: k for k, v in CMPOPS.items()}


def hx(s: str) -> str:
    return "s" + s.encode("utf-8", "surrogatepass").hex()


def unhx(t: str) -> str:
    assert t[0] == "s", t
    return bytes.fromhex(t[1:]).decode("utf-8", "surrogatepass")


# ---------------------------------------------------------------- opaque objects

class ObjRegistry:
    """Stable labels for Python objects captured by value (classes, modules, ...)."""

    def __init__(self):
        self.by_id = {}
        self.objs = {}

    def label(self, o: Any):
        k = id(o)
        if k not in self.by_id:
            name = getattr(o, "__qualname__", None) or getattr(o, "__name__", None) or type(o).__name__
            lab = f"{name}#{len(self.by_id)}"
            self.by_id[k] = lab
            self.objs[lab] = o
        return self.by_id[k]


REG = ObjRegistry()


def obj_kind(o: Any) -> str:
    if isinstance(o, type) and dataclasses.is_dataclass(o):
        import inspect

        names = [p.name for p in inspect.signature(o).parameters.values()]
        return "dataclass:" + ",".join(names)
    if hasattr(o, "_fields") and isinstance(o, type):
        return "namedtuple:" + ",".join(o._fields)
    if isinstance(o, type):
        return "type"
    if isinstance(o, types.ModuleType):
        return "module"
    return "other:" + type(o).__name__


def const_sx(v: Any) -> str:
    if v is None:
        return "N"
    if v is Ellipsis:
        return "E"
    # exact types only: an instance of a subclass (IntEnum member, str subclass, numpy scalar) is an opaque object
    if type(v) is bool:
        return "(B %d)" % (1 if v else 0)
    if type(v) is int:
        return "(I %d)" % v
    if type(v) is str:
        return "(S %s)" % hx(v)
    if type(v) is bytes:
        return "(Y s%s)" % v.hex()
    if type(v) is float:
        return "(F %s)" % hx(repr(v))
    if type(v) is complex:
        return "(X %s)" % hx(repr(v))
    return "(O %s %s)" % (hx(obj_kind(v)), hx(REG.label(v)))


def _plain_lambda(node: ast.Lambda) -> bool:
    a = node.args
    return (
        isinstance(a, ast.arguments)
        and not a.posonlyargs and not a.kwonlyargs and not a.kw_defaults and not a.defaults
        and a.vararg is None and a.kwarg is None
        and all(isinstance(x, ast.arg) and x.annotation is None and isinstance(x.arg, str) for x in a.args)
    )


def _lst(xs) -> str:
    return "(" + " ".join(to_sx(x) for x in xs) + ")"


def to_sx(n: Any) -> str:
    if not isinstance(n, ast.AST):
        return "(Raw %s)" % const_sx(n)
    t = type(n)
    if t is ast.Name:
        return "(Name %s)" % hx(n.id)
    if t is ast.Constant:
        return "(Const %s)" % const_sx(n.value)
    if t is ast.Attribute:
        return "(Attr %s %s)" % (to_sx(n.value), hx(n.attr))
    if t is ast.Call:
        kws = getattr(n, "keywords", [])
        kwn = "(" + " ".join("-" if k.arg is None else hx(k.arg) for k in kws) + ")"
        return "(Call %s %s %s %s)" % (to_sx(n.func), _lst(n.args), kwn, _lst([k.value for k in kws]))
    if t is ast.Lambda and _plain_lambda(n):
        return "(Lambda (%s) %s)" % (" ".join(hx(a.arg) for a in n.args.args), to_sx(n.body))
    if t is ast.UnaryOp:
        return "(UnaryOp %s %s)" % (UOPS[type(n.op)], to_sx(n.operand))
    if t is ast.BinOp:
        return "(BinOp %s %s %s)" % (BOPS[type(n.op)], to_sx(n.left), to_sx(n.right))
    if t is ast.BoolOp:
        return "(BoolOp %s %s)" % (BOOLOPS[type(n.op)], _lst(n.values))
    if t is ast.Compare:
        return "(Compare %s (%s) %s)" % (
            to_sx(n.left), " ".join(CMPOPS[type(o)] for o in n.ops), _lst(n.comparators))
    if t is ast.IfExp:
        return "(IfExp %s %s %s)" % (to_sx(n.test), to_sx(n.body), to_sx(n.orelse))
    if t is ast.Tuple:
        return "(Tuple %s)" % _lst(n.elts)
    if t is ast.List:
        return "(List %s)" % _lst(n.elts)
    if t is ast.Dict and all(k is not None for k in n.keys):
        return "(Dict %s %s)" % (_lst(n.keys), _lst(n.values))
    if t is ast.Subscript:
        return "(Subscript %s %s)" % (to_sx(n.value), to_sx(n.slice))
    if t is ast.ListComp:
        return "(ListComp %s %s)" % (to_sx(n.elt), _lst(n.generators))
    if t is ast.GeneratorExp:
        return "(GenExp %s %s)" % (to_sx(n.elt), _lst(n.generators))
    if t is ast.comprehension:
        return "(CompFor %s %s %s %d)" % (to_sx(n.target), to_sx(n.iter), _lst(n.ifs), 1 if n.is_async else 0)
    return _other_sx(n)


def _other_sx(n: ast.AST) -> str:
    layout: List[str] = []
    atoms: List[str] = []
    kids: List[str] = []
    for f in n._fields:
        if f == "ctx":
            continue
        if not hasattr(n, f):
            layout.append(f + "=_")
            continue
        v = getattr(n, f)
        if isinstance(v, ast.AST):
            layout.append(f + "=n")
            kids.append(to_sx(v))
        elif isinstance(v, list):
            marks = []
            for x in v:
                if isinstance(x, ast.AST):
                    marks.append("n")
                    kids.append(to_sx(x))
                else:
                    marks.append("a")
                    atoms.append(const_sx(x))
            layout.append(f + "=[" + "".join(marks) + "]")
        elif v is None:
            layout.append(f + "=0")
        else:
            layout.append(f + "=a")
            atoms.append(const_sx(v))
    cls = type(n).__name__ + ";" + ";".join(layout)
    return "(Other %s (%s) (%s))" % (hx(cls), " ".join(atoms), " ".join(kids))


# ---------------------------------------------------------------- S-expression reader

def _tokens(s: str):
    i, n = 0, len(s)
    while i < n:
        c = s[i]
        if c in "()":
            yield c
            i += 1
        elif c.isspace():
            i += 1
        else:
            j = i
            while j < n and not s[j].isspace() and s[j] not in "()":
                j += 1
            yield s[i:j]
            i = j


def parse_sx(s: str):
    stack = [[]]
    for t in _tokens(s):
        if t == "(":
            stack.append([])
        elif t == ")":
            x = stack.pop()
            stack[-1].append(x)
        else:
            stack[-1].append(t)
    assert len(stack) == 1 and len(stack[0]) == 1, s[:200]
    return stack[0][0]


def _const_py(x):
    if x == "N":
        return None
    if x == "E":
        return Ellipsis
    tag = x[0]
    if tag == "B":
        return x[1] == "1"
    if tag == "I":
        return int(x[1])
    if tag == "S":
        return unhx(x[1])
    if tag == "Y":
        return bytes.fromhex(x[1][1:])
    if tag == "F":
        return float(unhx(x[1]))
    if tag == "X":
        return complex(unhx(x[1]))
    if tag == "O":
        return REG.objs.get(unhx(x[2]), OpaqueObj(unhx(x[1]), unhx(x[2])))
    raise ValueError(x)


@dataclasses.dataclass(frozen=True)
class OpaqueObj:
    kind: str
    label: str


def _py(x) -> Any:
    tag = x[0]
    L = ast.Load()
    if tag == "Name":
        return ast.Name(id=unhx(x[1]), ctx=L)
    if tag == "Const":
        return ast.Constant(value=_const_py(x[1]))
    if tag == "Attr":
        return ast.Attribute(value=_py(x[1]), attr=unhx(x[2]), ctx=L)
    if tag == "Call":
        kws = [ast.keyword(arg=None if k == "-" else unhx(k), value=_py(v)) for k, v in zip(x[3], x[4])]
        return ast.Call(func=_py(x[1]), args=[_py(a) for a in x[2]], keywords=kws)
    if tag == "Lambda":
        args = ast.arguments(posonlyargs=[], args=[ast.arg(arg=unhx(p)) for p in x[1]],
                             kwonlyargs=[], kw_defaults=[], defaults=[])
        return ast.Lambda(args=args, body=_py(x[2]))
    if tag == "UnaryOp":
        return ast.UnaryOp(op=R_UOPS[x[1]](), operand=_py(x[2]))
    if tag == "BinOp":
        return ast.BinOp(op=R_BOPS[x[1]](), left=_py(x[2]), right=_py(x[3]))
    if tag == "BoolOp":
        return ast.BoolOp(op=R_BOOLOPS[x[1]](), values=[_py(a) for a in x[2]])
    if tag == "Compare":
        return ast.Compare(left=_py(x[1]), ops=[R_CMPOPS[o]() for o in x[2]], comparators=[_py(a) for a in x[3]])
    if tag == "IfExp":
        return ast.IfExp(test=_py(x[1]), body=_py(x[2]), orelse=_py(x[3]))
    if tag == "Tuple":
        return ast.Tuple(elts=[_py(a) for a in x[1]], ctx=L)
    if tag == "List":
        return ast.List(elts=[_py(a) for a in x[1]], ctx=L)
    if tag == "Dict":
        return ast.Dict(keys=[_py(a) for a in x[1]], values=[_py(a) for a in x[2]])
    if tag == "Subscript":
        return ast.Subscript(value=_py(x[1]), slice=_py(x[2]), ctx=L)
    if tag == "ListComp":
        return ast.ListComp(elt=_py(x[1]), generators=[_py(a) for a in x[2]])
    if tag == "GenExp":
        return ast.GeneratorExp(elt=_py(x[1]), generators=[_py(a) for a in x[2]])
    if tag == "CompFor":
        return ast.comprehension(target=_py(x[1]), iter=_py(x[2]), ifs=[_py(a) for a in x[3]], is_async=int(x[4]))
    if tag == "Raw":
        return _const_py(x[1])
    if tag == "Other":
        return _other_py(unhx(x[1]), [_const_py(a) for a in x[2]], [_py(a) for a in x[3]])
    raise ValueError(tag)


def _other_py(cls: str, atoms, kids):
    parts = cls.split(";")
    klass = getattr(ast, parts[0])
    kw = {}
    atoms = list(atoms)
    kids = list(kids)
    for p in parts[1:]:
        if not p:
            continue
        f, lay = p.split("=", 1)
        if lay == "_":
            continue
        if lay == "n":
            kw[f] = kids.pop(0)
        elif lay == "0":
            kw[f] = None
        elif lay == "a":
            kw[f] = atoms.pop(0)
        else:
            vals = []
            for m in lay[1:-1]:
                vals.append(kids.pop(0) if m == "n" else atoms.pop(0))
            kw[f] = vals
    node = klass(**kw)
    if "ctx" in klass._fields:
        node.ctx = ast.Load()
    return node


def from_sx(s: str) -> Any:
    return _py(parse_sx(s))


# ---------------------------------------------------------------- Gallina term printer

def coq_str(s: str) -> str:
    b = s.encode("utf-8")
    if all(32 <= c < 127 and c != 34 for c in b):
        return '"' + s + '"'
    # general case: build from ascii codes
    out = "EmptyString"
    for c in reversed(b):
        out = "(String (Ascii.ascii_of_nat %d) %s)" % (c, out)
    return out


def const_coq(v: Any) -> str:
    if v is None:
        return "CNone"
    if v is Ellipsis:
        return "CEllipsis"
    if isinstance(v, bool):
        return "(CBool %s)" % ("true" if v else "false")
    if isinstance(v, int):
        return "(CInt (%d)%%Z)" % v
    if isinstance(v, str):
        return "(CStr %s)" % coq_str(v)
    if isinstance(v, bytes):
        return "(CBytes %s)" % coq_str(v.decode("latin-1"))
    if isinstance(v, float):
        return "(CFloat %s)" % coq_str(repr(v))
    if isinstance(v, complex):
        return "(CComplex %s)" % coq_str(repr(v))
    return "(CObj %s %s)" % (coq_str(obj_kind(v)), coq_str(REG.label(v)))


def _clist(xs) -> str:
    return "[" + "; ".join(xs) + "]"


def sx_to_coq(x) -> str:
    """Gallina term for a parsed S-expression (so that both printers share one reader)."""
    tag = x[0]
    if tag == "Name":
        return "(Name %s)" % coq_str(unhx(x[1]))
    if tag == "Const":
        return "(Const %s)" % const_coq(_const_py(x[1]))
    if tag == "Raw":
        return "(Raw %s)" % const_coq(_const_py(x[1]))
    if tag == "Attr":
        return "(Attr %s %s)" % (sx_to_coq(x[1]), coq_str(unhx(x[2])))
    if tag == "Call":
        kwn = _clist(["None" if k == "-" else "Some %s" % coq_str(unhx(k)) for k in x[3]])
        return "(Call %s %s %s %s)" % (sx_to_coq(x[1]), _clist(map(sx_to_coq, x[2])), kwn, _clist(map(sx_to_coq, x[4])))
    if tag == "Lambda":
        return "(Lambda %s %s)" % (_clist([coq_str(unhx(p)) for p in x[1]]), sx_to_coq(x[2]))
    if tag == "UnaryOp":
        return "(UnaryOp %s %s)" % (x[1], sx_to_coq(x[2]))
    if tag == "BinOp":
        return "(BinOp B%s %s %s)" % (x[1], sx_to_coq(x[2]), sx_to_coq(x[3]))
    if tag == "BoolOp":
        return "(BoolOp %s %s)" % (x[1], _clist(map(sx_to_coq, x[2])))
    if tag == "Compare":
        return "(Compare %s %s %s)" % (sx_to_coq(x[1]), _clist(["C" + o for o in x[2]]), _clist(map(sx_to_coq, x[3])))
    if tag == "IfExp":
        return "(IfExp %s %s %s)" % tuple(sx_to_coq(a) for a in x[1:4])
    if tag in ("Tuple", "List"):
        return "(%s %s)" % (tag, _clist(map(sx_to_coq, x[1])))
    if tag == "Dict":
        return "(Dict %s %s)" % (_clist(map(sx_to_coq, x[1])), _clist(map(sx_to_coq, x[2])))
    if tag == "Subscript":
        return "(Subscript %s %s)" % (sx_to_coq(x[1]), sx_to_coq(x[2]))
    if tag in ("ListComp", "GenExp"):
        return "(%s %s %s)" % (tag, sx_to_coq(x[1]), _clist(map(sx_to_coq, x[2])))
    if tag == "CompFor":
        return "(CompFor %s %s %s %s)" % (sx_to_coq(x[1]), sx_to_coq(x[2]), _clist(map(sx_to_coq, x[3])),
                                          "true" if x[4] == "1" else "false")
    if tag == "Other":
        return "(Other %s %s %s)" % (coq_str(unhx(x[1])), _clist([const_coq(_const_py(a)) for a in x[2]]),
                                     _clist(map(sx_to_coq, x[3])))
    raise ValueError(tag)


def to_coq(n: Any) -> str:
    return sx_to_coq(parse_sx(to_sx(n)))


def dump(n: Any) -> str:
    """Readable rendering for evidence samples / replays."""
    if isinstance(n, ast.AST):
        try:
            return ast.unparse(n)
        except Exception:
            return ast.dump(n)
    return repr(n)

#!/usr/bin/env python3
"""Fail-closed translator: re-extracts the *data* parts of /repo's source text into
coq/FA/Gen/Tables.v on every run.  Parses source files with ``ast`` (never imports them).

Any source shape it does not recognise raises ``Unrecognised`` -> the caller reports the
proof obligation "Tables" as broken (fail closed).
"""
from __future__ import annotations

import ast
import os
import sys
from typing import List

sys.path.insert(0, os.path.dirname(__file__))
import bridge  # noqa: E402

REPO = os.environ.get("FUNC_ADL_REPO", "/repo")
OUT = os.path.join(os.path.dirname(__file__), "..", "coq", "FA", "Gen", "Tables.v")


class Unrecognised(Exception):
    pass


def _src(rel: str) -> ast.Module:
    with open(os.path.join(REPO, rel)) as f:
        return ast.parse(f.read())


def _find(mod: ast.AST, kind, name: str):
    for n in ast.walk(mod):
        if isinstance(n, kind) and getattr(n, "name", None) == name:
            return n
    raise Unrecognised(f"no {kind.__name__} {name}")


def _coq_strs(xs: List[str]) -> str:
    return "[" + "; ".join(bridge.coq_str(x) for x in xs) + "]"


# ------------------------------------------------------------------ aggregate_shortcuts.py

def _agg_cond_atoms(test: ast.expr):
    """Decompose a condition into (names, need_name_type, need_args1, need_nokw).
    Recognised atoms:  type(node.func) is ast.Name | node.func.id == "X" (or-ed)
                       | len(node.args) == 1 | len(node.keywords) == 0, joined by `and`."""
    names: List[str] = []
    flags = {"isname": False, "args1": False, "nokw": False}

    def atom(t: ast.expr):
        u = ast.unparse(t)
        if u == "type(node.func) is ast.Name" or u == "isinstance(node.func, ast.Name)":
            flags["isname"] = True
        elif u == "len(node.args) == 1":
            flags["args1"] = True
        elif u in ("len(node.keywords) == 0", "not node.keywords"):
            flags["nokw"] = True
        elif isinstance(t, ast.BoolOp) and isinstance(t.op, ast.Or):
            for v in t.values:
                name_eq(v)
        elif isinstance(t, ast.Compare):
            name_eq(t)
        else:
            raise Unrecognised("aggregate condition atom: " + u)

    def name_eq(t: ast.expr):
        if (
            isinstance(t, ast.Compare) and len(t.ops) == 1 and isinstance(t.ops[0], ast.Eq)
            and ast.unparse(t.left) == "node.func.id"
            and isinstance(t.comparators[0], ast.Constant) and isinstance(t.comparators[0].value, str)
        ):
            names.append(t.comparators[0].value)
        else:
            raise Unrecognised("aggregate name test: " + ast.unparse(t))

    if isinstance(test, ast.BoolOp) and isinstance(test.op, ast.And):
        for v in test.values:
            atom(v)
    else:
        atom(test)
    return names, flags


def table_aggregate() -> str:
    mod = _src("func_adl/ast/aggregate_shortcuts.py")
    gen = _find(mod, ast.FunctionDef, "_generate_count_call")
    # default lambda string
    if [a.arg for a in gen.args.args] != ["seq", "lambda_string"] or len(gen.args.defaults) != 1:
        raise Unrecognised("_generate_count_call signature")
    default_lambda = gen.args.defaults[0]
    if not (isinstance(default_lambda, ast.Constant) and isinstance(default_lambda.value, str)):
        raise Unrecognised("_generate_count_call default")
    body = [s for s in gen.body if not (isinstance(s, ast.Expr) and isinstance(s.value, ast.Constant))]
    want = [
        "agg_lambda = cast(ast.Expr, ast.parse(lambda_string).body[0]).value",
        None,
        "return function_call('Aggregate', [seq, cast(ast.expr, agg_start), cast(ast.expr, agg_lambda)])",
    ]
    if len(body) != 3 or ast.unparse(body[0]) != want[0] or ast.unparse(body[2]) != want[2]:
        raise Unrecognised("_generate_count_call body")
    st = body[1]
    if not (isinstance(st, ast.Assign) and ast.unparse(st.targets[0]) == "agg_start"
            and isinstance(st.value, ast.Call) and ast.unparse(st.value.func) == "ast.Constant"
            and isinstance(st.value.args[0], ast.Constant)):
        raise Unrecognised("agg_start")
    seed = st.value.args[0].value

    cls = _find(mod, ast.ClassDef, "aggregate_node_transformer")
    methods = [s for s in cls.body if isinstance(s, ast.FunctionDef)]
    if [m.name for m in methods] != ["visit_Call"]:
        raise Unrecognised("aggregate_node_transformer methods: %s" % [m.name for m in methods])
    vc = methods[0]
    stmts = [s for s in vc.body if not (isinstance(s, ast.Expr) and isinstance(s.value, ast.Constant))]
    if len(stmts) != 2 or not isinstance(stmts[0], ast.If) or ast.unparse(stmts[1]) != "return self.generic_visit(node)":
        raise Unrecognised("visit_Call shape")
    outer = stmts[0]
    if outer.orelse:
        raise Unrecognised("outer else")
    _, oflags = _agg_cond_atoms(outer.test)
    if _:
        raise Unrecognised("outer names")
    if not oflags["isname"]:
        raise Unrecognised("outer test must check node.func is a Name")
    rules = []
    inner = outer.body
    if len(inner) != 1 or not isinstance(inner[0], ast.If):
        raise Unrecognised("inner chain")
    cur = inner[0]
    while True:
        names, fl = _agg_cond_atoms(cur.test)
        if not names or fl["isname"]:
            raise Unrecognised("rule condition")
        if len(cur.body) != 1 or not isinstance(cur.body[0], ast.Return):
            raise Unrecognised("rule body")
        call = cur.body[0].value
        if not (isinstance(call, ast.Call) and ast.unparse(call.func) == "_generate_count_call"
                and len(call.args) in (1, 2) and ast.unparse(call.args[0]) == "self.visit(node.args[0])"
                and not call.keywords):
            raise Unrecognised("rule call: " + ast.unparse(call))
        lam_s = call.args[1] if len(call.args) == 2 else default_lambda
        if not (isinstance(lam_s, ast.Constant) and isinstance(lam_s.value, str)):
            raise Unrecognised("rule lambda")
        lam = ast.parse(lam_s.value).body[0].value
        rules.append((names, oflags["args1"] or fl["args1"], oflags["nokw"] or fl["nokw"], lam))
        if not cur.orelse:
            break
        if len(cur.orelse) != 1 or not isinstance(cur.orelse[0], ast.If):
            raise Unrecognised("else branch")
        cur = cur.orelse[0]
    out = ["(* func_adl/ast/aggregate_shortcuts.py *)",
           "Definition agg_seed : const := %s." % bridge.const_coq(seed),
           "Definition agg_rules : list (list string * bool * bool * expr) :=",
           "  ["]
    rows = []
    for names, a1, nk, lam in rules:
        rows.append("    (%s, %s, %s, %s)" % (_coq_strs(names), str(a1).lower(), str(nk).lower(), bridge.to_coq(lam)))
    out.append(";\n".join(rows))
    out.append("  ].")
    return "\n".join(out)


# ------------------------------------------------------------------ func_adl_ast_utils.py

def table_ext() -> str:
    mod = _src("func_adl/ast/func_adl_ast_utils.py")
    val = None
    for s in mod.body:
        if isinstance(s, ast.Assign) and ast.unparse(s.targets[0]) == "default_list_of_functions":
            val = s.value
    if not isinstance(val, ast.List) or not all(isinstance(e, ast.Constant) and isinstance(e.value, str) for e in val.elts):
        raise Unrecognised("default_list_of_functions")
    fn = _find(mod, ast.FunctionDef, "change_extension_functions_to_calls")
    if ast.unparse(fn.args.defaults[0]) != "default_list_of_functions":
        raise Unrecognised("change_extension_functions_to_calls default argument")
    return ("(* func_adl/ast/func_adl_ast_utils.py *)\n"
            "Definition ext_default_ops : list string :=\n  %s." % _coq_strs([e.value for e in val.elts]))


# ------------------------------------------------------------------ function_simplifier.py dispatch surface

def table_simplifier() -> str:
    mod = _src("func_adl/ast/function_simplifier.py")
    cls = _find(mod, ast.ClassDef, "simplify_chained_calls")
    if [ast.unparse(b) for b in cls.bases] != ["FuncADLNodeTransformer"]:
        raise Unrecognised("simplify_chained_calls bases")
    meths = [s.name for s in cls.body if isinstance(s, ast.FunctionDef)]
    calls = sorted(m[5:] for m in meths if m.startswith("call_"))
    # visit_<NodeClass> handlers that ast.NodeVisitor.visit dispatches to (real node classes only)
    visits = sorted(m[6:] for m in meths if m.startswith("visit_") and hasattr(ast, m[6:]))
    util = _src("func_adl/ast/func_adl_ast_utils.py")
    base = _find(util, ast.ClassDef, "FuncADLNodeTransformer")
    bmeths = [s.name for s in base.body if isinstance(s, ast.FunctionDef)]
    return ("(* func_adl/ast/function_simplifier.py: the dynamic-dispatch surface *)\n"
            "Definition simp_call_handlers : list string := %s.\n"
            "Definition simp_visit_handlers : list string := %s.\n"
            "Definition base_transformer_methods : list string := %s."
            % (_coq_strs(calls), _coq_strs(visits), _coq_strs(sorted(bmeths))))


# ------------------------------------------------------------------ util_ast.py / object_stream.py

_TYPE_KIND = {"str": "KStr", "int": "KInt", "float": "KFloat", "bool": "KBool", "complex": "KComplex",
              "bytes": "KBytes", "ModuleType": "KModule"}


def table_util_ast() -> str:
    mod = _src("func_adl/util_ast.py")
    val = None
    for s in mod.body:
        if isinstance(s, ast.Assign) and ast.unparse(s.targets[0]) == "g_legal_capture_types":
            val = s.value
    if not isinstance(val, ast.Tuple):
        raise Unrecognised("g_legal_capture_types")
    kinds = []
    for e in val.elts:
        u = ast.unparse(e)
        if u not in _TYPE_KIND:
            raise Unrecognised("legal capture type " + u)
        kinds.append(_TYPE_KIND[u])
    return ("(* func_adl/util_ast.py *)\n"
            "Definition legal_const_kinds : list ckind := [%s]." % "; ".join(kinds))


def table_object_stream() -> str:
    mod = _src("func_adl/object_stream.py")
    cls = _find(mod, ast.ClassDef, "ObjectStream")
    terms = []
    ops = []
    for m in cls.body:
        if not isinstance(m, ast.FunctionDef):
            continue
        for n in ast.walk(m):
            if isinstance(n, ast.Call) and ast.unparse(n.func) == "function_call" and isinstance(n.args[0], ast.Constant):
                node_name = n.args[0].value
                lst = n.args[1]
                if not isinstance(lst, ast.List):
                    raise Unrecognised("function_call args in " + m.name)
                args = [ast.unparse(e) for e in lst.elts]
                if m.name.startswith("As"):
                    if args[0] != "self._q_ast":
                        raise Unrecognised("terminal source in " + m.name)
                    lits = []
                    for a in lst.elts[1:]:
                        if not (isinstance(a, ast.Call) and ast.unparse(a.func) == "as_ast" and len(a.args) == 1
                                and isinstance(a.args[0], ast.Name)):
                            raise Unrecognised("terminal literal in " + m.name)
                        lits.append(a.args[0].id)
                    terms.append((m.name, node_name, lits))
                else:
                    ops.append((m.name, node_name, args))
    ex = None
    for s in mod.body:
        if isinstance(s, ast.Assign) and ast.unparse(s.targets[0]) == "executor_attr_name":
            ex = s.value.value
    if not isinstance(ex, str):
        raise Unrecognised("executor_attr_name")
    rows = ";\n".join("    (%s, %s, %s)" % (bridge.coq_str(a), bridge.coq_str(b), _coq_strs(c)) for a, b, c in terms)
    orow = ";\n".join("    (%s, %s, %s)" % (bridge.coq_str(a), bridge.coq_str(b), _coq_strs(c)) for a, b, c in ops)
    return ("(* func_adl/object_stream.py *)\n"
            "Definition executor_attr_name : string := %s.\n"
            "Definition terminals : list (string * string * list string) :=\n  [\n%s\n  ].\n"
            "Definition operator_nodes : list (string * string * list string) :=\n  [\n%s\n  ]."
            % (bridge.coq_str(ex), rows, orow))


TABLES = [table_aggregate, table_ext]   # the other tables are written to their own files by harness/tables/*.py


def generate() -> str:
    parts = ["(* GENERATED by harness/sync_tables.py from /repo's current source text. Do not edit. *)",
             "From FA.Base Require Import PyAst.", ""]
    for t in TABLES:
        parts.append(t())
        parts.append("")
    return "\n".join(parts)


def _write(out: str, text: str) -> bool:
    out = os.path.abspath(out)
    old = open(out).read() if os.path.exists(out) else None
    if old != text:
        os.makedirs(os.path.dirname(out), exist_ok=True)
        with open(out, "w") as f:
            f.write(text)
        return True
    return False


def main() -> int:
    """Tables.v from the functions above, plus one generated file per plug-in module
    harness/tables/<name>.py, which must define OUT (file name under coq/FA/Gen/) and
    generate(repo_root) -> Coq text (raising sync_tables.Unrecognised to fail closed)."""
    import importlib

    rc = 0
    try:
        print("TABLES-CHANGED" if _write(OUT, generate()) else "TABLES-UNCHANGED")
    except Unrecognised as e:
        print("TABLES-UNRECOGNISED: %s" % e)
        rc = 3
    tdir = os.path.join(os.path.dirname(os.path.abspath(__file__)), "tables")
    sys.modules.setdefault("sync_tables", sys.modules[__name__])
    sys.path.insert(0, tdir)
    for fn in sorted(os.listdir(tdir)) if os.path.isdir(tdir) else []:
        if not fn.endswith(".py") or fn.startswith("_"):
            continue
        try:
            mod = importlib.import_module(fn[:-3])
            text = mod.generate(REPO)
            ch = _write(os.path.join(os.path.dirname(OUT), mod.OUT), text)
            print("%s-%s" % (mod.OUT, "CHANGED" if ch else "UNCHANGED"))
        except Unrecognised as e:
            print("TABLES-UNRECOGNISED: %s: %s" % (fn, e))
            rc = 3
        except Exception as e:  # fail closed on anything else as well
            print("TABLES-UNRECOGNISED: %s: %s: %s" % (fn, type(e).__name__, e))
            rc = 3
    return rc


if __name__ == "__main__":
    sys.exit(main())

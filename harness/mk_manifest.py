#!/usr/bin/env python3
"""Regenerates /verif/MANIFEST.json from the table below (run by hand after a claim changes)."""
import json
import os

ROOT = os.path.abspath(os.path.join(os.path.dirname(__file__), ".."))
TECH = "machine-checked proof in Coq 8.16.1 + generated tables + model/code correspondence (extracted OCaml vs implementation) + executable oracle for replays"
BASE_NOTE = ("Trusted: Coq kernel (coqc; coqchk in the thorough tier where stated), no axioms unless listed (Print Assumptions parsed on every run), "
             "harness/sync_tables.py + harness/tables/*.py (tables read from source text), extraction ExtrOcamlBasic+ExtrOcamlNativeString, "
             "ocaml/sx.ml + per-property driver, harness/bridge.py encoding, generators and oracles of the property's harness module. DESIGN.md section 6.")

CLAIMS = {}


def claim(pid, design, text, note="", engine="coq-models"):
    CLAIMS[pid] = dict(design=design, text=text, note=note, engine=engine)


claim("C02", "DESIGN.md section 4 C02 + section 11",
      "proof (partial): Coq theorems, for all lambda bodies, all backends and all datasets, that every rewrite rule the simplifier applies preserves "
      "the query's value whenever the original evaluates (7 fusion rules with Python's short-circuit `and`, identity-Select/True-Where elision, "
      "tuple/list projection, First push-through in the sound direction), under exactly the freshness side conditions the algorithm establishes; "
      "plus weakening/shadowing/exchange of environments (eval_agree). NOT proved: the composition of the rules by the fuel-indexed traversal with its "
      "substitution stack (simp_preserves) - that part rests on the exact model/code correspondence (modulo names of lambda parameters) and on the "
      "CPython oracle over three binder-naming schemes and 6 datasets.",
      "Reference semantics Base/Eval.v is first-order and eager; the oracle uses lazy LINQ sequences. Termination not proved (explicit fuel).")
claim("C14", "DESIGN.md section 4 C14 + section 11",
      "proof (partial): Coq lemmas for every fuel/stack/counter that a constant in-range projection of a visited tuple/list/dict literal is replaced by "
      "the selected component and that a pending definition reaches every use of its name; package-freedom decided on model outputs (Examples). "
      "NOT proved: the chain-level theorem packaging_eliminated; it is checked by the node-kind oracle on generated disciplined chains "
      "(function and method form through change_extension_functions_to_calls, 3 naming schemes) and by the model/code correspondence.",
      "Stated over simp(ext(q)) as backends run it.")
claim("C18", "DESIGN.md section 4 C18 + section 11",
      "proof (partial): Coq theorems that the dedicated index error arises exactly for a constant index outside a tuple/list literal, that non-constant, "
      "wrong-type, negative-in-range and absent-key selectors leave a proper node around the visited sub-terms (the model has no branch that builds a raw slot), "
      "and that the dispatch surface read from the source is the one the model assumes. NOT proved: whole-algorithm crash-freedom (simp_no_crash) and "
      "termination; both are exercised by the correspondence (Crash/OutOfFuel vs exception/RecursionError) and the unparse+compile oracle.",
      "Termination is outside what is proved (the simplifier re-visits its own output).")
claim("C19", "DESIGN.md section 4 C19",
      "proof: Coq theorems (agg_exact, agg_total, agg_complete, agg_sem, max/min_with_zero) about the executable model of aggregate_node_transformer whose "
      "rule table is regenerated from the source on every run; exact differential correspondence on enumerated and random trees; structural and semantic oracles.")
claim("C20", "DESIGN.md section 4 C20 + section 11",
      "proof: ast.dump (CPython 3.12 defaults) transcribed over raw node trees and proved injective at character level on well-formed trees (dump_injective); "
      "hash equality <=> structural equality, the 'only if' direction relative to md5 injectivity on the two dumps; independence from non-field attributes at every depth "
      "and single-edit sensitivity proved; float/complex are opaque repr tokens; Unicode printability universally quantified. Model dump compared with ast.dump character "
      "for character, model hash with calc_ast_hash.",
      "md5 collision-freedom is assumed, not proved; ints below CPython's 4300-digit str limit; calc_ast_hash raises ValueError for dumps with code points above 255 "
      "(modelled as None, judged outside the property).")

claim("C13", "DESIGN.md section 4 C13 + section 11",
      "proof: as_ast = ast.parse(repr(v)) modelled at character level (CPython repr, lexer and recursive-descent parser of the literal grammar); proved that every "
      "str/bytes/int/bool/None/finite-float/list/tuple/dict nest within CPython's limits (4300 digits, 200 brackets) is embedded as exactly its literal, that literal_eval "
      "maps it back type-exactly, that every str becomes one identical string constant (never parsed as code), and that nothing is altered beyond those limits (refusal); "
      "check_ast passes exactly on transportable constants over all node classes, and the As*/MetaData entry points put each argument in its wire position, both over generated tables. "
      "Partial: float tokens are opaque; repr of non-printable non-ASCII code points is not modelled (the composite as_ast is compared on such strings).",
      "CPython's float shortest-repr round trip is trusted; ast.literal_eval is the oracle; None is deliberately not transportable inside lambdas (check_ast refusal).")
claim("C04", "DESIGN.md section 4 C04/C05 + section 11",
      "proof (partial): Coq theorems over the executable model of _rewrite_captured_vars/check_ast: scope (capture_respects_scope: snapshot values of names on the ignore stack - own "
      "parameters, nested lambdas, comprehension targets - never affect the result, for all trees), gate (check_ast accepts exactly the legal constant kinds of the generated table, "
      "otherwise ValueError, never a malformed tree), and capture_freezes_partial (refinement direction, first-order fragment, literal snapshots: the recorded lambda needs nothing from later "
      "environments). Exact differential correspondence on generated Python programs (closures, globals, class constants, module attributes, enums, every shadowing pattern), with a value oracle "
      "against the real callable after every captured name has been rebound or deleted.",
      "What inspect.getclosurevars / getattr report and source recovery are inputs of the model (validated by correspondence only). Non-positional parameter kinds are oracle-only.")

ALL = ["C%02d" % i for i in range(1, 21)]
PENDING = "not yet claimed: model, correspondence and proofs for this property are still being integrated (DESIGN.md section 10 staging)"


def main():
    engines = [{"name": "coq-models", "path": "coq/FA", "serves_properties": sorted(CLAIMS),
                "kind_free_text": "Coq 8.16.1 models, proofs, generated tables; per-property extraction to OCaml for the correspondence runs"}]
    checks = []
    for pid in sorted(CLAIMS):
        c = CLAIMS[pid]
        checks.append({
            "property_id": pid,
            "quick_cmd": "./check %s quick" % pid,
            "thorough_cmd": "./check %s thorough" % pid,
            "evidence_file": "evidence/%s.json" % pid,
            "replay_cmd_template": "./check replay {path}",
            "engine": c["engine"],
            "level_claimed": {"category": "proof", "design_ref": c["design"], "text": c["text"]},
            "level_note": (c["note"] + " " if c["note"] else "") + BASE_NOTE,
            "technique": TECH,
        })
    man = {
        "version": 1,
        "setup_cmd": "./setup.sh",
        "hooks": {
            "guard": "FUNC_ADL_VERIF",
            "enable": "no source hooks are needed: every observation point is public API, a module global or the harness's own EventDataset subclass",
            "baseline_off_cmd": "cd /repo && /venv/bin/python -m pytest -ra -q -p no:cacheprovider --timeout=900 --continue-on-collection-errors",
            "source_commits": [],
            "add_only": True,
        },
        "engines": engines,
        "checks": checks,
        "not_applicable": [{"property_id": p, "reason": PENDING} for p in ALL if p not in CLAIMS],
        "notes": "Genuine defects found and repaired are listed in KNOWN_FINDINGS.txt (fixed: lines) and DESIGN.md section 5.",
    }
    with open(os.path.join(ROOT, "MANIFEST.json"), "w") as f:
        json.dump(man, f, indent=1)
    print("MANIFEST.json: %d checks, %d not claimed" % (len(checks), len(man["not_applicable"])))


if __name__ == "__main__":
    main()

#!/usr/bin/env python3
"""Regenerates /verif/MANIFEST.json from the table below (run by hand after a claim changes)."""
import json
import os

ROOT = os.path.abspath(os.path.join(os.path.dirname(__file__), ".."))
TECH = "machine-checked proof in Coq 8.16.1 + generated tables + model/code correspondence (extracted OCaml vs implementation) + executable oracle for replays"
BASE_NOTE = ("Trusted: Coq kernel (coqc; coqchk in the thorough tier where stated), no axioms unless listed (Print Assumptions parsed on every run), "
             "harness/sync_tables.py + harness/tables/*.py (tables read from source text), extraction ExtrOcamlBasic+ExtrOcamlNativeString, "
             "ocaml/sx.ml + per-property driver, harness/bridge.py encoding, generators and oracles of the property's harness module. DESIGN.md section 6.")

CLAIMS = {}


def claim(pid, design, text, note="", engine="coq-models"):
    CLAIMS[pid] = dict(design=design, text=text, note=note, engine=engine)


claim("C01", "DESIGN.md section 4 C01 + section 11.8",
      "proof (partial by composition): Coq theorems about the composed model Model/Pipeline.v (acquire -> sugar -> type following -> Op(parent "
      "wrapped in MetaData per callback event, lambda) -> terminal -> value()'s cleaning -> backend passes) against an independently written "
      "`direct` list semantics. Proved outright for every backend and dataset: value()'s cleaning and ext+agg preserve meaning; chains of any "
      "length and operator order of string/ast lambdas in C10's grammar incl. comprehension sugar mean what `direct` computes "
      "(operator_chain_means_direct), also for callables with literal captures in C04's first-order fragment "
      "(captured_literals_chain_means_direct), through terminals and value(). Relative to named hypotheses about component models "
      "(capture_sound, follow_sound for typed datasets and general callables; simp_ok for the simplifier, which C02's "
      "simplifier_preserves_query_results provides for queries not mentioning First): query_means_chain, passes_preserve_meaning, "
      "fluent_query_end_to_end. Data-class sugar, helper inlining and default filling are covered by the hypothesis-relative theorem plus the "
      "exact correspondence and the executing oracle: generated Python programs (1-6 stages, branching, three ways of supplying lambdas, "
      "captures, helpers, typed class models with callbacks, all terminals) run on a recording dataset and directly on in-memory sequences; "
      "the recorded AST is evaluated by CPython as recorded and after each of the 13 compositions of the three passes on 6 datasets.",
      "No axioms. Conventions md_identity/terminals_ok; a dict literal is a record; LINQ operators lazy, direct execution list semantics; the "
      "closure snapshot and class table are read from live objects; 'source text = callable' is C03/C04's tie.")
claim("C02", "DESIGN.md section 4 C02 + section 11",
      "proof: Coq theorem simplifier_preserves_query_results (Proofs/SimplifySound.v: simp_sound by strong induction on the fuel, over the whole "
      "traversal with its substitution stack, fresh-name counter, alpha-renaming, beta-reduction with Python argument binding, the seven fusion "
      "rules with their re-visits, literal/dictionary projection): for every fuel, counter, backend and admissible query, if the simplifier model "
      "returns a query then on every dataset whatever the original evaluates to the result evaluates to (lambdas refine pointwise), and the "
      "result is again admissible; resimplified_sessions_preserve_query_results (Proofs/SimplifySession.v): a backend session that simplifies, puts "
      "further operators on the result and simplifies again any number of times, each run from the counter the previous one left behind, ends with a "
      "refinement of the chain written in one piece (counter_set_back_between_runs_refuted: a witness that setting the counter back breaks it; the "
      "check runs such histories on the code, model started from the same counter); plus the rule-level theorems, alpha-renaming and environment lemmas. Partial in one respect, stated in the "
      "theorem: queries mentioning First are outside it (the First push-through is not a refinement for the eager list semantics; rule theorems "
      "state what holds) - those rest on the exact model/code correspondence (modulo names of lambda parameters) and the CPython oracle with lazy "
      "sequences over three binder-naming schemes and 6 datasets.",
      "Reference semantics Base/Eval.v is first-order and eager; hypotheses backend_ok/bok (fresh names and bound names are not backend function "
      "names; dictionaries are records) are part of the statement. Termination not proved (explicit fuel; OutOfFuel excluded by the statement; C18's fuel_is_only_a_budget: the result does not depend on the fuel).")
claim("C14", "DESIGN.md section 4 C14 + section 11",
      "proof: Coq theorem packaging_eliminated (Proofs/SimplifyShape.v: shape_sound by strong induction on the fuel over the whole traversal, "
      "on top of C02's invariants): the discipline of the property is typability has_shape in a shape system (atoms, tuples/lists, dictionaries "
      "with constant str/int keys, sequences of packages; constant projections select component shapes; Select/Where/SelectMany bind their "
      "parameter to the source's element shape; called lambdas bind argument shapes) and every typable query simplifies to the canonical form of "
      "its shape - no Tuple/List/Dict node at all for an atom result, exactly the result package over package-free components otherwise - for "
      "every chain length, operator order, nesting of packaging, projection path and binder names; plus the one-step projection lemmas. "
      "Outside the theorem and stated in it: queries mentioning First (covered by the node-kind oracle and the exact model/code correspondence "
      "on generated disciplined chains incl. First-wrapped packages, function and method form through change_extension_functions_to_calls, "
      "3 naming schemes; one open known finding there), operator lambdas with other than one parameter, boolean dictionary keys, starred nodes (not typable: a literal with a starred element is deliberately not projected, F37).",
      "Stated over the simplifier model; the oracle checks simp(ext(q)) as backends run it.")
claim("C18", "DESIGN.md section 4 C18 + section 11",
      "proof: Coq theorem simp_no_crash (Proofs/SimplifyTotal.v) - for every fuel, well-formed stack, counter and well-formed query the simplifier model never returns Crash, and an Ok result is again well-formed (no raw slot, operators applied to a source and a lambda, dictionary literals pair keys with values) - plus: the dedicated index error arises exactly for a constant index outside a tuple/list literal; non-constant, wrong-type, negative-in-range and absent-key selectors leave a proper node around the visited sub-terms; a called lambda with a starred argument is left as a call (F29) and a literal with a starred element is not projected (F37, starred_literal_left_intact); fuel_is_only_a_budget / more_fuel_same_outcome (Proofs/SimplifyFuel.v): any outcome other than OutOfFuel is the same for every larger fuel. Partial in one respect: termination (existence of a sufficient fuel) is not proved; it is exercised by the correspondence (OutOfFuel vs RecursionError is counted) and the unparse+compile oracle on C02's grammar plus odd selectors, shared selectors and starred arguments.",
      'wfq mirrors harness/props/c18.py:wellformed. Termination is outside what is proved (the simplifier re-visits its own output).')
claim("C19", "DESIGN.md section 4 C19",
      "proof: Coq theorems (agg_exact, agg_total, agg_complete, agg_sem, max/min_with_zero) about the executable model of aggregate_node_transformer whose "
      "rule table is regenerated from the source on every run; exact differential correspondence on enumerated and random trees; structural and semantic oracles.")
claim("C20", "DESIGN.md section 4 C20 + section 11",
      "proof: ast.dump (CPython 3.12 defaults) transcribed over raw node trees and proved injective at character level on well-formed trees (dump_injective); "
      "hash equality <=> structural equality, the 'only if' direction relative to md5 injectivity on the two dumps; independence from non-field attributes at every depth "
      "and single-edit sensitivity proved; the bytes hashed are the UTF-8 encoding of the dump, proved injective (utf8_injective), and the hash is defined exactly when the dump has no lone surrogate (hash_defined_iff; F47 - it used to raise on every character above U+00FF); float/complex are opaque repr tokens; Unicode printability universally quantified. Model dump compared with ast.dump character "
      "for character, model hash with calc_ast_hash.",
      "md5 collision-freedom is assumed, not proved; ints below CPython's 4300-digit str limit; calc_ast_hash raises ValueError for dumps with code points above 255 "
      "(modelled as None, judged outside the property).")

claim("C13", "DESIGN.md section 4 C13 + section 11",
      "proof: as_ast = ast.parse(repr(v)) modelled at character level (CPython repr, lexer and recursive-descent parser of the literal grammar); proved that every "
      "str/bytes/int/bool/None/finite-float/list/tuple/dict nest within CPython's limits (4300 digits, 200 brackets) is embedded as exactly its literal, that literal_eval "
      "maps it back type-exactly, that every str becomes one identical string constant (never parsed as code), and that nothing is altered beyond those limits (refusal); "
      "check_ast passes exactly on transportable constants over all node classes, and the As*/MetaData entry points put each argument in its wire position, both over generated tables. "
      "Partial: float tokens are opaque; repr of non-printable non-ASCII code points is not modelled (the composite as_ast is compared on such strings).",
      "CPython's float shortest-repr round trip is trusted; ast.literal_eval is the oracle; None is deliberately not transportable inside lambdas (check_ast refusal: the code's table of wire types, which the model reads); the gate is type-exact since F38 (instances of subclasses of the legal scalar types are refused).")
claim("C04", "DESIGN.md section 4 C04/C05 + section 11",
      'proof (partial): Coq theorems over the executable model of _rewrite_captured_vars/check_ast: capture_freezes_partial as an equation for every expression and every snapshot whose occurring names are bound to int/bool/str/None literals (the recorded lambda needs nothing from any later environment), capture_then_resolve_partial, capture_respects_scope / capture_stack_is_erasure / capture_params_never_replaced / capture_bound_name_kept (all trees), capture_gate / capture_gate_pipeline (check_ast accepts exactly the legal constant kinds of the generated table). Partial: names holding classes, modules, enums (attribute folding) and helpers have no counterpart in the reference semantics; they are covered by exact differential correspondence on generated Python programs (closures, globals at any nesting depth, class constants, module attributes, enums, every shadowing pattern, the same callable passed again after rebinding) with a value oracle against the real callable after every captured name has been rebound or deleted.',
      'What inspect.getclosurevars / getattr report and source recovery are inputs of the model (validated by correspondence only).')

claim("C03", "DESIGN.md section 4 C03 + section 11",
      'proof (partial) over a token-level model of the source-recovery selection (_parse_source_for_lambda with fixes F15/F15b/F28): safety for all token streams and all extent parsers (finder_never_picks_neighbour: whatever is returned is the passed lambda), lambda/def separation, ambiguity => raise, totality of the selection logic, liveness and exact outcome for the recognised layout families (finder_layout_outcome, finder_recognised_layouts, nested_brackets_balanced; every generated documented layout is decided to lie in them per case), the def branch (def_exact, def_supported, def_found_only_own_return), keyword-passed lambdas (keyword_lambda_filed_under_method, keyword_lambda_recovered); four pinned pre-fix behaviours refuted inside Coq. Partial: the CPython tokenizer, untokenize/ast.parse of an extent, inspect.findsource/getsource and co_firstlineno are inputs tied by differential comparison on generated source files only; liveness is not proved outside the layout families.',
      "CPython 3.12.1 tokenize/inspect/ast are trusted inputs; a marker-constant oracle identifies the implementation's pick and compares it with the callable that was passed, by behaviour.")
claim("C07", "DESIGN.md section 4 C07-C10 + section 11",
      "proof: calls_normalised / stream_calls_normalised (Proofs/TypeFollowNormalised.v) - over the whole follower model, for every class table with distinct parameter names: the emitted tree is related to the input by the separately written relation `norm` (every call that resolves to a method of a candidate class or to a registered function is in complete_call form = Signature.bind + apply_defaults, at any lambda depth; own operators keep exactly their lambda); fill_is_bind (the default-filling model equals an independent bind specification for every signature and call shape incl. refusal of a missing required parameter), fill_keeps_positionals, own_operators_untouched. One sub-claim (the emitted call stays inside the emitted tree) is C09's rewrite_is_emitted. Exact correspondence of the follower model on generated class models and the inspect.Signature.bind oracle at lambda depths 0-3, incl. operator lambdas passed by keyword.",
      'typing/inspect.signature/get_type_hints/MRO are represented by a class table read back from the live generated classes; the parameter filter and the index increment are read from source into a generated table.')
claim("C08", "DESIGN.md section 4 C07-C10 + section 11",
      "proof: follow_types_agree (Proofs/TypeFollowTyping.v) - whenever the declarative mutual typing relation wt/wts (names, constants, comparisons, promotion, conditionals, subscripts, dictionary/dataclass fields, registered functions, methods with return annotations resolved through the base chain, collection methods, Select/SelectMany/Where with lambdas) gives an expression a type, the follower model returns exactly that type; wt_deterministic; stream_types_agree; stream_item_types, where_refuses_non_bool, binop_promotion. Relative to the util-types model: base-chain substitution and method lookup inside wt are the model's own functions, tied to typing/inspect by exact correspondence on random generic class models (inheritance, type variables at depth 0-3, Iterable subclasses, collection classes) with independently computed expected types.",
      'typing/inspect are represented by the class table read from live classes.')
claim("C09", "DESIGN.md section 4 C07-C10 + section 11",
      'proof: callbacks_exact (the event list of the follower equals an independently written traversal callback_sites: children left to right, class callback then method callback per resolved site, at any nesting depth), metadata_upstream (the MetaData chain around the source, in firing order), rewrite_is_emitted (the call the last callback returned is in the emitted tree), class_before_method, no_callback_no_event, no_spurious_events_untyped, nested_events_surface, param_by_value. Exact correspondence of invocation log, MetaData chain and emitted call sites for callback placements at lambda depths 0-2 incl. inherited methods under decorated subclasses and keyword lambdas.',
      'Callbacks are modelled by their observable effect (event, optional metadata, one of the rewrites incl. a new call node).')
claim("C10", "DESIGN.md section 4 C07-C10 + section 11",
      "proof: untyped_passthrough / untyped_stream_ops / where_bool_shapes for every class table and callback table over the model of the follower: on an untyped stream every expression of the "
      "stated grammar is emitted structurally unchanged with no events, or refused with a designed ValueError located in the expression; never a crash; Where keeps comparison/boolean bodies. "
      "The grammar excludes calls of subscripted attributes of typed/literal receivers (residual finding, proved to crash outside the grammar) and builtin-class methods on constants. Immediately called lambdas are in the grammar (their body is followed with the parameters bound to the argument types; proved by induction on expression size over pairs of environments); inside such a body a lambda parameter is not taken for an untyped receiver of `v.a[s](...)`.",
      "literal_eval, isidentifier and keyword are hand-modelled (ASCII); ft_default and the table flags are regenerated from source. Residual known finding listed in KNOWN_FINDINGS.txt.")
claim("C15", "DESIGN.md section 4 C15 + section 11",
      "proof: exactness on trees - extract_exact / extract_only_unwraps / extract_all_found (the list is the pre-order list of the wrappers' dictionaries: an outer wrapper precedes those inside "
      "its source) / extract_outer_first / extract_defined_iff; remove_exact / remove_idem / remove_none_iff; extract_no_md under 'MetaData is only used as a callee' with a counter-example otherwise. "
      "The clause 'leaves the AST it was given unmodified' is established here by observation of the implementation (dump plus per-node identity snapshot incl. extra attributes); its heap-level theorem "
      "is remove_preserves_input in C11's package.",
      "literal_eval modelled on Constant/Tuple/List/Dict/unary +- with key de-duplication; sets, complex arithmetic, float keys and raw strings are excluded from the correspondence and counted.")
claim("C17", "DESIGN.md section 4 C17 + section 11",
      "proof: ext_exact / ext_complete / ext_idem / ext_fixpoints for the generated operator list and for any function_names list; ext_sem for every backend and environment under ops_kw_free "
      "(method-form operator calls carry no keywords; since F39 the keywords of a rewritten call are kept and rewritten too - ext_exact states it, the structural oracle requires it - but the reference semantics hands method-form and function-form keyword calls to different backend hooks); a regraft oracle checks that the result depends on the tree only; first-order reference semantics.",
      "Operator list regenerated from source and cross-checked against the imported module; pyref_lite is used only to find failing inputs.")

claim("C05", "DESIGN.md section 4 C04/C05 + section 11",
      "proof (partial): inline_sem_partial - for every expression, backend and environment, under first_order only (no parameter of a called lambda is itself called: the declared limit of the reference semantics), resolve_called preserves the value; no hygiene hypothesis (the proof uses the implementation's own bail-out test and the coincidence lemma); inline_sem_stack (the invariant), inline_leaves_by_name (a helper that cannot be inlined stays a call with the same arguments), starred arguments and default values of staying lambdas (F30-F32) structurally. Higher-order helpers are covered by exact correspondence on generated Python programs and the value oracle against the real callable.",
      "As C04; each helper's Lambda and its own closure snapshot are built by the generator from the helper's own text.")
claim("C06", "DESIGN.md section 4 C06 + section 11",
      "proof: Coq theorems over the executable model of resolve_syntatic_sugar (with fix F17): sugar_sem (every backend, environment and nesting: single-for comprehensions lower to Where/Select chains "
      "that mean what Python computes, against Base/Eval.v, itself compared with CPython on each run), sugar_complete (no comprehension node left at any depth), dataclass_binds (= an independent "
      "specification of Python's positional-then-keyword binding: same bindings or both refuse), starred_constructor_argument_refused (F58: a starred positional argument is refused, "
      "never bound to one field), sugar_refuses (tuple targets / async => ValueError), sugar_total (never an internal error on "
      "well-formed generators); the pinned binding is refuted inside Coq. Multi-for comprehensions and error messages are compared, not claimed; constructor parameters assumed positional-or-keyword.",
      "Hypothesis of sugar_sem: the operator list contains Select and Where. Generator expressions are forced eagerly. CPython 3.12.1's PEP 709 inlining corner cases are excluded from the semantic comparison and counted.")

claim("C11", "DESIGN.md section 4 C11/C12/C16 + section 11",
      "proof: streams_immutable / streams_immutable_full - every observation (dump, item type, and all non-field node attributes) of every live stream is invariant under every later operation, "
      "for all finite histories of NewDataset/Derive/MetaData/QMetaData/Terminal/ValueStart/ValueFinish over a heap of AST node objects (frame invariant: a step only allocates; remove_empty_h and "
      "copy.copy never write an existing address - remove_preserves_input); model tied to the code by per-step comparison of every live stream on exhaustive short and random long histories. "
      "For lambdas handed over as ast objects: Model/CopyTree.v models util_ast._copy_of_tree on node identities (keep-test attributes read from the source) - lambda_copy_isolates_the_callers_tree "
      "(no object of the caller's tree other than another stream's nodes is reachable from the copy the in-place passes work on), lambda_copy_objects_are_new_or_another_streams, "
      "lambda_copy_is_the_same_query, lambda_copy_creates_each_object_once (the objects the copy creates are exactly the counter range, once each, in preorder: the copy shares no node with itself), lambda_copy_keeps_every_other_streams_node (attached(copy) = attached(original), object for object), the pre-F57 keep-test refuted; tied by random attributed trees whose result identities are evaluated inside Coq, and by the regraft oracle on the code.",
      "Lambda processing (parse, sugar, type following) after that copy is an input of the stream model; copy.copy is modelled as a shallow copy including __dict__; asyncio/make_sync are not modelled.")
claim("C12", "DESIGN.md section 4 C11/C12/C16 + section 11",
      "proof: no_exec_while_building; value_routes_once (exactly one log entry: the override if given, else the executor found along args[0]; AST = remove_empty of the stream's own dump; the title); "
      "value_returns_own / finish_only_own / result_has_finish for every interleaving of Finish events (value_async split at its single await); root_recoverable for every stream built by stream operations; "
      "bad_roots_rejected for all trees. Partial by nature: atomicity between awaits is assumed, the event loop and make_sync's thread hand-off cannot be exhibited by a Gallina model, executors are scripted.",
      "literal_eval modelled on constants, tuples, lists, dicts and signed numbers.")
claim("C16", "DESIGN.md section 4 C11/C12/C16 + section 11",
      "proof: qmd_last_writer - lookup_query_metadata (walk modelled faithfully) equals a dictionary replay along the stream's own derivation path, for all histories without hand-embedded stream ASTs; "
      "qmd_invisible - dumps, item types, outcomes and the whole executor log equal those of the QMetaData-erased history, for all histories; lookups_immutable.",
      "Metadata values compared by structural equality; a lambda embedding another stream's AST object also exposes that stream's metadata (Example; model and code agree; such a join has two roots and is rejected).")

ALL = ["C%02d" % i for i in range(1, 21)]
PENDING = "not yet claimed: model, correspondence and proofs for this property are still being integrated (DESIGN.md section 10 staging)"


def main():
    engines = [{"name": "coq-models", "path": "coq/FA", "serves_properties": sorted(CLAIMS),
                "kind_free_text": "Coq 8.16.1 models, proofs, generated tables; per-property extraction to OCaml for the correspondence runs"}]
    checks = []
    for pid in sorted(CLAIMS):
        c = CLAIMS[pid]
        checks.append({
            "property_id": pid,
            "quick_cmd": "./check %s quick" % pid,
            "thorough_cmd": "./check %s thorough" % pid,
            "evidence_file": "evidence/%s.json" % pid,
            "replay_cmd_template": "./check replay {path}",
            "engine": c["engine"],
            "level_claimed": {"category": "proof", "design_ref": c["design"], "text": c["text"]},
            "level_note": (c["note"] + " " if c["note"] else "") + BASE_NOTE,
            "technique": TECH,
        })
    man = {
        "version": 1,
        "setup_cmd": "./setup.sh",
        "hooks": {
            "guard": "FUNC_ADL_VERIF",
            "enable": "no source hooks are needed: every observation point is public API, a module global or the harness's own EventDataset subclass",
            "baseline_off_cmd": "cd /repo && /venv/bin/python -m pytest -ra -q -p no:cacheprovider --timeout=900 --continue-on-collection-errors",
            "source_commits": [],
            "add_only": True,
        },
        "engines": engines,
        "checks": checks,
        "not_applicable": [{"property_id": p, "reason": PENDING} for p in ALL if p not in CLAIMS],
        "notes": "Genuine defects found and repaired are listed in KNOWN_FINDINGS.txt (fixed: lines) and DESIGN.md section 5.",
    }
    with open(os.path.join(ROOT, "MANIFEST.json"), "w") as f:
        json.dump(man, f, indent=1)
    print("MANIFEST.json: %d checks, %d not claimed" % (len(checks), len(man["not_applicable"])))


if __name__ == "__main__":
    main()

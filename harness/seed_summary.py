#!/usr/bin/env python3
"""Fills `what_it_changes`, `needs_to_manifest` and `history` of every seeded/<id>/meta.json from the tables below (what each
independently written change does, what it needs in order to show, and - for the changes the quick check did not report at
first - what was strengthened) and regenerates seeded/SUMMARY.md."""
import glob
import json
import os

ROOT = os.path.abspath(os.path.join(os.path.dirname(__file__), ".."))

NOTES = {
    "C01_m1": ("parse_as_ast caches the recovered lambda AST per code object and hands out a shallow copy; captured names are frozen into the cached tree",
               "the same lambda code object turned into a query a second time with a different captured value below the body's top node"),
    "C01_m2": ("select_method_call_on_first drops keyword arguments when lifting First(seq).m(args, k=v)",
               "a method call directly on a First() result with a keyword argument that has a default, reaching the simplifier untyped"),
    "C02_m1": ("make_args_unique pops its rename stack with del stack[-len(mapping):], wiping it for a zero-parameter lambda",
               "a zero-argument called lambda inside a lambda that gets renamed, with the outer parameter used after it"),
    "C02_m2": ("_bind_lambda_call returns list(given.values()) instead of parameter order",
               "a called lambda with >= 2 keyword arguments written out of declaration order"),
    "C03_m1": ("find_identifier is given the bare string 'lambda': membership becomes a substring test",
               ">= 2 library calls on one logical line with a NAME token that is a substring of 'lambda' (a, b, d, l, m, ...) between them"),
    "C03_m2": ("the argument-name filter only runs when there are several candidates",
               "the callable passed is not written directly as the operator's argument and exactly one other lambda of that operator is on the line"),
    "C04_m1": ("_ignore_stack replaced by a set; leaving an inner scope unbinds a name the outer scope still binds",
               "outer parameter and inner lambda/comprehension share a name, a global/closure of that name exists, outer parameter used after the inner lambda"),
    "C04_m2": ("lru_cache on global_getclosurevars: the snapshot is taken the first time a function object is seen",
               "the same function object passed twice with a captured variable rebound in between"),
    "C05_m1": ("_inner_binders ignores lambdas passed as arguments to a fully inlinable inner helper",
               "helper handing a lambda that uses its parameter to a further helper, call-site argument named like that lambda's binder, depth >= 2"),
    "C05_m2": ("argument map pushed before the capture check and not popped on refusal",
               "a refused helper call followed later, in the same enclosing lambda, by a name spelled like the refused helper's parameter"),
    "C06_m1": ("identity-Select elision guarded by a substring test on the loop variable name",
               ">= 1 if clause and a bare-name element that is not the loop variable but whose spelling is contained in it (e/ev, j/jet)"),
    "C06_m2": ("constructor parameters taken from dataclasses.fields instead of inspect.signature",
               "a dataclass whose __init__ order differs from declaration order: kw_only field before a positional one, inherited kw-only, InitVar"),
    "C07_m1": ("remap_from_lambda merges {var: type, **known_types}: outer types win",
               "an inner lambda re-using an outer parameter name, both classes having a method of that name with different signatures"),
    "C07_m2": ("_find_keyword drops every keyword written before the matched one",
               ">= 2 parameters passed by keyword out of declaration order"),
    "C08_m1": ("remap_from_lambda: var_types.update(known_types) inverts precedence",
               "a nested lambda re-using the argument name of an enclosing lambda"),
    "C08_m2": ("_resolve_type substitutes twice for type arguments that still mention a type variable",
               "a type variable at nesting depth >= 2 inside a generic annotation or base-class argument"),
    "C09_m1": ("remap_from_lambda precedence inverted (as C08_m1): inner callbacks never fire",
               "inner lambda of a typed collection operator re-using an enclosing argument name"),
    "C09_m2": ("class callback looked up on the class defining the method, not the class it is called on",
               "a decorated subclass inheriting the called method from an undecorated base"),
    "C10_m1": ("_ignore_stack flattened to a set (as C04_m1), callable path only",
               "callable with a nested lambda re-using the outer parameter name, a same-named module global, outer parameter used afterwards"),
    "C10_m2": ("tuple-literal bounds check abs(index) > len: index == len raises IndexError",
               "a constant index exactly equal to the length of a tuple literal"),
    "C11_m1": ("remove_empty_metadata's cleaner copies the node after re-creating its lists: lists land on the caller's node",
               "an empty MetaData({}) below the top node and a value() call on a stream above it"),
    "C11_m2": ("QMetaData copies the top node only when it already carries _q_metadata",
               "QMetaData on a stream whose top node has no query metadata yet, observed from the parent or a sibling"),
    "C12_m1": ("_get_executor memoises the resolved executor (including an override) on the stream",
               "value(executor=X) followed by value() on the same stream or one derived from it"),
    "C12_m2": ("the cleaner returns args[0] of an empty wrapper without visiting beneath it",
               ">= 2 empty MetaData wrappers in one chain"),
    "C13_m1": ("parse_as_ast source cache with shallow copy (as C01_m1)",
               "same lambda code object used twice with different captured values below the body's top node"),
    "C13_m2": ("as_ast quotes strings with json.dumps: astral code points become surrogate pairs",
               "a character above U+FFFF in a string passed to as_ast directly (tree/file names)"),
    "C14_m1": ("call_SelectMany returns early when its source is syntactically a Where",
               "a SelectMany stage directly after a Where that follows a packaging stage, as the last stage of the chain"),
    "C14_m2": ("visit_Subscript: the dict branch became an elif of the int/bool tuple branch",
               "an intermediate dictionary with integer keys read back by constant subscript"),
    "C15_m1": ("the cleaner copies only args/keywords lists of Call nodes",
               "an empty wrapper inside a list field of a non-Call node (tuple element, dict value, operand)"),
    "C15_m2": ("extract_metadata de-duplicates equal dictionaries",
               ">= 2 wrappers with equal dictionaries in one query"),
    "C16_m1": ("lookup_query_metadata stops only on truthy values",
               "a key re-set later on the path to a falsy value (0, '', False, []) after an earlier truthy one, with an operator in between"),
    "C16_m2": ("QMetaData sets _q_metadata on the shared node when the node has none yet (as C11_m2)",
               "branching from a stream whose top node has no metadata; QMetaData first on one branch"),
    "C17_m1": ("keyword values are not visited by the rewritten visit_Call",
               "a method-form operator call inside a keyword-argument value of a non-operator call"),
    "C17_m2": ("operator names matched case-insensitively (casefold)",
               "a non-operator method whose name equals an operator name up to case (.count(), .first())"),
    "C18_m1": ("literal index bounds check not -len < n < len: index -len raises the index error",
               "a tuple/list literal indexed by a negative constant exactly equal to -len"),
    "C18_m2": ("the fall-through Subscript is rebuilt with the unvisited slice",
               "an un-evaluable subscript whose whole slice is a name with a pending substitution"),
    "C19_m1": ("the Max branch does not recurse into its argument",
               "a shortcut call inside the argument of Max(...)"),
    "C19_m2": ("the keywords guard is dropped from the rule condition",
               "a shortcut name called with one positional argument plus keyword arguments"),
    "C20_m1": ("lru_cache on calc_ast_hash (keyed by node identity)",
               "hash a query, edit the same tree in place, hash it again"),
    "C04_m3": ("per-function source cache in parse_as_ast returns the stored tree on a miss; _rewrite_captured_vars edits it in place, so the cache holds the first call's constants",
               "the same function object handed to the same operator twice with the captured name rebound in between"),
    "C13_m3": ("as_literal normalises int/float subclasses with int(p)/float(p): bool is an int, True becomes 1",
               "a bool reaching as_literal: captured variable or declared default of a typed method / func_adl_callable"),
    "C05_m3": ("_inner_binders returns the body's (empty) binder set for a plainly called lambda instead of the union with its arguments' binders",
               "helper calling a second inlinable helper with a lambda inside the argument, call-site parameter named like that lambda's parameter"),
    "C14_m3": ("visit_Subscript tests the unvisited node.value for First() at the top instead of the visited value at the end",
               "an index that reaches First(Select(seq, j: package)) only through name substitution from an earlier stage"),
    "C06_m3": ("dataclass parameters from dataclasses.fields (declaration/MRO order) instead of inspect.signature",
               "a dataclass whose keyword-only field is declared before a positional one (kw_only base, plain subclass), called positionally"),
    "C15_m3": ("extract_metadata appends a dictionary only if not already in the list",
               ">= 2 MetaData wrappers with equal dictionaries"),
    "C07_m3": ("has_lambda_arg looks at the call as written (r_node.args) instead of the default-filled call",
               "a stream operator with a statically resolvable return annotation (Where) inside a lambda, its lambda passed by keyword"),
    "C16_m3": ("lookup_query_metadata: key-presence test became a truthiness test",
               "a falsy value (False, 0, '', []) set after or instead of a truthy one"),
    "C08_m3": ("remap_from_lambda merges {var: type, **known_types}: an enclosing parameter of the same name wins",
               "a nested lambda re-using the parameter name of an enclosing lambda"),
    "C17_m3": ("operator names compiled into a regex used with .match (prefix) instead of fullmatch",
               "a non-operator method whose name begins with an operator name (SumTrackPt, CountJets, FirstTrack)"),
    "C09_m3": ("remap_from_lambda merge order swapped (as C08_m3): inner parameter typed with the outer type",
               "nested lambda at depth >= 2 re-using an enclosing parameter name; callbacks of the inner class then never fire"),
    "C18_m3": ("negative literal index folded in place (s.operand.value = -value) on a node shared by every use of a lambda parameter",
               "a negative constant index reaching literals through a lambda parameter used more than once"),
    "C20_m3": ("calc_ast_hash memoises the md5 on the node as a non-field attribute; shallow copies keep it",
               "hash, then transform (remove_empty_metadata / in-place backend passes), then hash again"),
    "C01_m3": ("_resolve_called_lambdas.visit_ListComp pushes the hide-map before visiting the first iterable",
               "a captured helper with a comprehension whose loop variable re-uses the helper's parameter name"),
    "C02_m3": ("argument_stack.mentions returns after inspecting the deepest frame only",
               ">= 2 nested called lambdas, an outer argument mentioning a free name, an inner un-called lambda re-using that name as parameter"),
    "C11_m3": ("remove_empty_metadata's fast path for non-MetaData calls uses the in-place generic_visit of the base class",
               "an empty MetaData({}) below a non-MetaData operator call, then value() on that stream or a descendant"),
    "C03_m3": ("find_identifier is given the string 'lambda' (substring test) when looking for further lambdas on the line",
               "two query calls on one line with a receiver named by a substring of 'lambda' (d, m, a, la, ...) between the lambdas"),
    "C12_m3": ("value_async retries `exe(query)` without the title when the executor raises TypeError and no title was given",
               "an executor raising TypeError (or a subclass) of its own, value() called without a title"),
    "C10_m3": ("remap_from_lambda mutates known_types in place; the operators' mutable default argument accumulates name->type entries",
               "a typed query using a parameter name through an operator, then an untyped lambda using that name as a free name, same process"),
    "C19_m3": ("a shortcut name called in another arity or with a keyword is returned without visiting its arguments",
               "shortcut calls inside the arguments of a non-matching shortcut-named call: Max(Sum(a), Sum(b))"),
    "C01_m4": ("dataclass sugar takes parameter names from dataclasses.fields instead of inspect.signature",
               "a dataclass whose field list differs from its __init__ parameters (init=False field before another, InitVar, early kw_only) called positionally"),
    "C14_m4": ("visit_Attribute skips the dictionary-literal lookup when the attribute is also a method of dict (hasattr(dict, attr))",
               "a packaged field named values/items/keys/get/copy/... read back by attribute"),
    "C02_m4": ("an inline-called lambda that cannot be bound is returned unvisited (return call_node instead of generic_visit)",
               "an unbindable called lambda (default parameter, arity mismatch) inside a term where a substitution is in flight"),
    "C18_m4": ("the Dict branch of visit_Subscript accepts any constant selector; visit_Subscript_Dict asserts str/int",
               "a dictionary literal indexed by a constant that is neither int, bool nor str (None, float, bytes)"),
    "C03_m4": ("the same-line scan for further lambdas also stops at a `;` token",
               "two statements on one physical line separated by `;`, the target lambda in the second"),
    "C10_m4": ("tuple-literal index: the range comparison runs before the isinstance(int) test",
               "a tuple literal subscripted by a str/bytes/complex constant: TypeError instead of ValueError"),
    "C04_m4": ("global_getclosurevars adds only the globals named in the co_names of directly nested code objects",
               "a module global used only inside a lambda nested >= 2 levels below the passed lambda"),
    "C09_m4": ("process_method_callbacks is given the class that defines the method instead of the class it is called on",
               "a class-level callback on a subclass and a call of a method inherited from an undecorated base"),
    "C05_m4": ("a called lambda that is not inlined is returned unvisited (return node)",
               "an inlined helper that calls another helper through a default or keyword argument, parameter names differing from the query's"),
    "C16_m4": ("QMetaData stores a new value only if its str() differs from the visible one",
               "a key re-set to a different value with the same str(): 358031 -> '358031', 'True' -> True"),
    "C06_m4": ("convert_call_to_dict builds keys in declaration order and values in call order",
               ">= 2 keyword arguments written in another order than the fields"),
    "C19_m4": ("a shortcut name in another arity or with keywords is returned without visiting its children (as C19_m3)",
               "real shortcut calls inside Max(len(a), len(b)), Min(Sum(a), Sum(b), 0), ..."),
    "C07_m4": ("default literals are memoised with lru_cache: True and 1.0 (False/0.0, -0.0/0.0) collide",
               "a bool default and an equal-valued float default filled in within one process"),
    "C12_m4": ("_get_executor returns self.execute_result_async when the stream object has one: clones are shallow copies of the dataset",
               "value() directly on a stream derived from a dataset; observing which OBJECT ran the query"),
    "C08_m4": ("the return type is recorded before the callbacks run and the callback result replaces r_node",
               "a callback that returns a new call node, the call's result used as a sub-expression"),
    "C20_m4": ("the dump is NFKC-normalised before hashing",
               "two string constants that are NFKC-equivalent (pt² / pt2)"),
    "C11_m4": ("the cleaner's generic_visit writes the fresh list copies onto the original node; the clone keeps the shared lists",
               "an empty MetaData({}) upstream, a QMetaData copy sharing the list object, value() on either branch"),
    "C17_m4": ("a visit_Lambda that only visits the body",
               "a lambda whose parameter default contains a method-form operator call"),
    "C13_m4": ("check_ast runs on the user lambda before type following fills in declared defaults",
               "a typed method whose omitted parameter has a tuple/list/dict default"),
    "C15_m4": ("an empty wrapper returns generic_visit(node.args[0]): the source itself is not visited",
               "an empty wrapper directly over another empty wrapper"),
    "C01_m5": ("visit_Where_of_Where splits the first filter's BoolOp into terms without checking that it is an `and`",
               "a Where whose filter is a top-level `or`, immediately followed by another Where, on data where (a or b) and c differs from a and b and c"),
    "C19_m5": ("a shortcut name in another arity or with a keyword is returned unvisited (as C19_m3)", "real shortcuts inside Sum(a, len(b))"),
    "C02_m5": ("signed literal indices folded through a table that maps ~ to -1: ~n becomes -n", "a tuple/list display indexed by ~<int literal>"),
    "C16_m5": ("QMetaData returns early through clone_with_new_ast(base_ast) whose new_type now defaults to Any", "a typed dataset, a QMetaData that adds nothing new, a downstream lambda that needs type following"),
    "C03_m5": ("a single candidate under the caller's name is accepted without comparing parameter names", "the passed lambda filed under another name with exactly one neighbour under the method name"),
    "C15_m5": ("the cleaner copies only nodes that have list-valued fields", "an empty wrapper beneath a node without list fields (Lambda body, Attribute, keyword value, BinOp operand)"),
    "C04_m5": ("global_getclosurevars adds only globals named in directly nested code objects (as C04_m4)", "a module global used only >= 2 lambda levels down"),
    "C18_m5": ("any unary operator on an int literal index is folded to Constant(-n)", "a literal indexed by +n, ~n or `not n`"),
    "C05_m5": ("the arguments of a call deliberately left un-inlined are visited a second time", "a helper calling a second helper under a binder that the second helper also binds, call-site names re-ordered"),
    "C20_m5": ("NFKC normalisation of the dump (as C20_m4)", "string constants differing by a compatibility character"),
    "C06_m5": ("global_getclosurevars descends only into <lambda> code objects: names used only in a generator expression are not captured", "a module-global record class used only inside a generator expression"),
    "C11_m5": ("remove_empty_metadata returns its argument when there is no empty MetaData: the executor receives the live AST", "non-empty MetaData, an executor that calls extract_metadata (in place), then re-inspection of an ancestor or sibling"),
    "C07_m5": ("a ValueError from default filling on one candidate class moves on to the next candidate", "an Iterable subclass method also present on the collection class with a looser signature, required argument omitted"),
    "C14_m5": ("the fused SelectMany-of-SelectMany is returned without being re-visited", "a packaging Select inside the inner SelectMany taken apart by the outer one, as the last fused stage"),
    "C08_m5": ("dataclass field types from dataclasses.fields (raw strings) instead of get_type_hints", "a dataclass field annotated with a forward reference / from __future__ import annotations"),
    "C13_m5": ("as_literal normalises int subclasses: True becomes 1 (as C13_m3)", "a captured bool or bool default"),
    "C09_m5": ("a method whose return annotation is missing or Any produces no candidate: callbacks are skipped", "a callback-carrying method without return annotation"),
    "C17_m5": ("a visit_Attribute shortcut does not walk below two consecutive plain attribute accesses", "x.Op(..).a.b.Op2(..): operator calls beneath a double attribute"),
    "C10_m5": ("the parameterized-call branch tests `found_type is not None` instead of `!= Any`", "obj.attr[param](args) on an untyped receiver"),
    "C12_m5": ("TypeError retry without title (as C12_m3)", "an executor raising TypeError, no title"),
    "C01_m6": ("visit_ListComp/visit_GeneratorExp merged and aliased as visit_SetComp: a set comprehension is desugared like a list comprehension",
               "a lambda containing a set comprehension, data with repeated values"),
    "C13_m6": ("Where runs check_ast on the user lambda before type following (Select/SelectMany unchanged)",
               "a typed method with a tuple/list/dict default called at the top level of a Where filter"),
    "C02_m6": ("make_args_unique pops its rename stack with del stack[-len(mapping):] (as C02_m1)", "a zero-parameter called lambda before a use of the enclosing parameter"),
    "C12_m6": ("value_async wraps the executor call in try/except (AttributeError, IndexError) -> ValueError", "an executor that itself raises IndexError or AttributeError"),
    "C03_m6": ("rewrite_func_as_lambda drops every AnnAssign as a no-op statement", "a two-statement def whose first statement is an annotated assignment used by the return"),
    "C19_m6": ("flattened guard: `unary and name == 'len' or name == 'Count'`", "Count with another arity or with keywords"),
    "C04_m6": ("visit_ListComp visits every generator's iterable before pushing the targets", "a multi-for comprehension whose later iterable mentions an earlier loop variable that is also a global"),
    "C17_m6": ("positional arguments of a rewritten operator call are visited but the replaced nodes are dropped", "a method-form operator call directly as a positional argument of another one"),
    "C05_m6": ("_inner_binders sees only flat comprehension targets", "a helper comprehension with a nested tuple target, call-site argument named like an inner target"),
    "C15_m6": ("extract_metadata unwinds stacked wrappers in a loop reading the dictionary of the outermost one", ">= 2 directly stacked wrappers"),
    "C06_m6": ("arg_names = sig_arg_names[:len(arg_values)] computed once after merging keywords", "a call leaving a gap in signature order: Hit(1, z=3)"),
    "C14_m6": ("visit_Subscript: the dict branch became an elif of the int/bool branch (as C14_m2)", "integer-keyed dictionaries"),
    "C07_m6": ("has_lambda_arg from the call as written (as C07_m3)", "Where(filter=lambda ...) inside a lambda"),
    "C20_m6": ("the hash is taken of remove_empty_metadata(a)", "queries differing only by empty MetaData wrappers"),
    "C08_m6": ("get_inherited reads __orig_bases__ from the class's own __dict__", "two-level inheritance with a non-generic leaf class"),
    "C18_m6": ("the Dict branch accepts any constant selector (as C18_m4)", "a dictionary literal indexed by None/float/bytes"),
    "C09_m6": ("process_method_callbacks gets the defining class (as C09_m4)", "inherited method under a decorated subclass"),
    "C16_m6": ("remove_empty_metadata keeps an empty MetaData node that carries _q_metadata", "QMetaData directly on a stream whose top node is an empty MetaData({})"),
    "C10_m6": ("IfExp branch compatibility uses issubclass before the equality test", "a conditional with a lambda or abs/len as a branch (typing.Callable is not a class)"),
    "C11_m6": ("the cleaner skips its protective copy for nodes carrying _q_metadata", "empty MetaData below, QMetaData copy sharing the args list, value() on the copy's side"),
    "C20_m2": ("the dump is encoded with errors='replace': non-ASCII characters collapse to '?'",
               "two queries differing in one non-ASCII character at the same position"),
}

MISSED = "initially missed by the quick check; strengthened by "
REBASED = ("patch re-created by hand on /repo HEAD (the same change) after later fix commits touched the same lines")

# name -> one sentence on how the evaluation of this change went over time (only where there is something to say)
HISTORY = {
    "C13_m6": MISSED + "running the default/capture cases through Select, Where and SelectMany",
    "C01_m6": MISSED + "set and dict comprehensions in generated programs, datasets with repeated values",
    "C03_m6": MISSED + "def bodies with leading statements of every kind next to the true no-ops",
    "C04_m6": MISSED + "multi-for comprehensions whose later iterables mention earlier targets that collide with captured names",
    "C05_m6": MISSED + "helpers whose comprehensions have nested unpacking targets",
    "C08_m6": MISSED + "two-level inheritance with a non-generic leaf class in the class-model generators",
    "C18_m5": MISSED + "computed constant selectors (+n, ~n, not n, -(-n)) in C18's selector corpus",
    "C05_m5": MISSED + "call sites whose names are the helper's parameter names permuted or wrapped in expressions, with an inner call left un-inlined",
    "C06_m5": "the change is in the capture code: missed by C06 (which starts from ASTs) and at first by C01, caught by C04; C01's programs now use module globals only inside generator expressions",
    "C07_m5": MISSED + "user Iterable subclasses that re-declare collection-method names with required parameters",
    "C08_m5": MISSED + "dataclass fields annotated with forward references / string annotations",
    "C09_m5": MISSED + "callback-carrying methods without a return annotation or annotated Any",
    "C11_m5": "detected through the generated tables only (the restructured cleaner is not recognised: proof obligation TABLES-UNCHANGED); the executors of the stream harness now edit the tree they receive in place, as backends do",
    "C14_m4": MISSED + "dictionary keys named like methods of dict in the chain generator (and a record semantics for dictionary literals in the reference evaluator, which previously skipped attribute access on them)",
    "C17_m4": MISSED + "lambdas with parameter defaults that contain operator calls in the C17 generators",
    "C12_m4": MISSED + "recording which dataset OBJECT ran the query (a shallow copy of the dataset is not the dataset at the root)",
    "C08_m4": MISSED + "callbacks that return a new call node whose result is used as a sub-expression",
    "C01_m4": MISSED + "record classes whose field list differs from the constructor signature in the program generator",
    "C14_m3": MISSED + "packaging behind First(Select(seq, j: package)) in the chain generator, so that projections reach First() only through substitution (and the result-shape stripping looks through First(Select(..)))",
    "C02_m3": MISSED + "the hygiene family of C02: pending definitions at every stack depth that mention a free name which an inner un-called lambda binds",
    "C18_m3": MISSED + "the shared-selector family of C18: one selector reaching several literal projections through a lambda parameter, boundary indices of both signs",
    "C12_m3": MISSED + "executors that raise TypeError / a TypeError subclass / AttributeError / NotImplementedError in the scripted outcomes",
    "C01_m1": MISSED + "programs that execute one lambda several times with different captured values (loops, local helpers called twice)",
    "C07_m3": MISSED + "collection operators with their lambda passed by keyword inside lambdas in the type-follower generators",
    "C10_m3": MISSED + "multi-step histories in one process: typed queries over the whole name pool first, then untyped lambdas using those names freely",
    "C02_m1": MISSED + "adding zero-parameter called lambdas to the C02 generator",
    "C03_m1": MISSED + "generating several lambdas per line with short NAME tokens between them in the finder generator",
    "C04_m1": REBASED,
    "C04_m2": MISSED + "passing the same callable twice with the captured variable rebound in between",
    "C05_m1": MISSED + "extending the capture generator with nested helpers that hand lambdas on to further helpers",
    "C05_m2": MISSED + "extending the capture generator with a refused helper call followed by a name spelled like its parameter",
    "C06_m1": ("initially reported only as a broken correspondence (no failing input); strengthened by adding oracle inputs whose "
               "element names are contained in the loop variable name"),
    "C06_m2": MISSED + "adding dataclasses with kw_only and InitVar fields to the generator; " + REBASED,
    "C08_m2": MISSED + "generating type variables at nesting depth >= 2",
    "C09_m2": MISSED + "generating a decorated subclass that inherits the called method from an undecorated base",
    "C10_m1": (REBASED + "; the C10 check supplies lambdas as source strings and ast objects only and leaves the callable path to "
               "C04 (stated in its ASSUME), so this change is reported by the C04 quick check, not by C10's"),
    "C11_m2": (MISSED + "making the C11 oracle observe, on every live stream after every step, the _q_metadata carried by the "
               "nodes of the query AST and lookup_query_metadata of every key besides dump and item type, adding an independence "
               "oracle (a stream equals the one built from its own derivation path alone) and corpus histories with QMetaData on "
               "bare tops shared with children and siblings"),
    "C14_m2": MISSED + "adding integer dictionary keys to the chain generator",
    "C18_m1": MISSED + "adding the boundary indices -len, len-1 and len",
    "C20_m1": MISSED + "adding the in-place edit oracle (hash, edit the same tree, hash again)",
}


def main():
    rows = []
    for d in sorted(glob.glob(os.path.join(ROOT, "seeded", "*_m*"))):
        name = os.path.basename(d)
        mp = os.path.join(d, "meta.json")
        if not os.path.exists(mp):
            continue
        m = json.load(open(mp))
        what, needs = NOTES.get(name, ("", m.get("needs_to_manifest", "")))
        m["what_it_changes"] = what
        m["needs_to_manifest"] = needs
        if name in HISTORY:
            m["history"] = HISTORY[name]
        else:
            m.pop("history", None)
        with open(mp, "w") as f:
            json.dump(m, f, indent=1)
        for c in m.get("checks", []):
            how = "not detected"
            if c["exit"] == 1 and c["violation_lines"] > 0:
                how = "failing input (oracle)" if c["of_which_no_failing_input"] < c["violation_lines"] else "broken correspondence/obligation (no-failing-input-found)"
            rows.append((name, m["breaks_property"], c["property"], how, "yes" if m.get("confirmed_in_scratch_worktree") else "no", what, needs,
                         m.get("history", "")))
    with open(os.path.join(ROOT, "seeded", "SUMMARY.md"), "w") as f:
        f.write("# Seeded property-breaking changes (independent sub-agents) and what the quick checks report\n\n")
        f.write("Regenerated by harness/seed_summary.py from seeded/*/meta.json (written by harness/seed_eval.sh).\n\n")
        f.write("| change | breaks | check | result | confirmed | what it changes | needs, to manifest | history |\n|---|---|---|---|---|---|---|---|\n")
        for r in rows:
            f.write("| " + " | ".join(str(x).replace("|", "/") for x in r) + " |\n")
    det = sum(1 for r in rows if r[3] != "not detected")
    print("seeded: %d evaluations, %d detected" % (len(rows), det))


if __name__ == "__main__":
    main()

#!/bin/bash
# seed_eval.sh <PROP> <worktree> <patchfile> <demofile> <name> [extra props to check...]
# 1. confirms the seeded change in the scratch worktree: demo passes on the clean tree, the 412 tests pass and the demo
#    fails with the change;  2. stores it under /verif/seeded/<name>/;  3. applies it to /repo, runs the quick check of the
#    property (and of any extra properties), undoes it, and records what was detected in meta.json.
set -u
PROP=$1; WT=$2; PATCH=$3; DEMO=$4; NAME=$5; shift 5
EXTRA="$@"
OUT=/verif/seeded/$NAME
mkdir -p $OUT
cd $WT || exit 2
cp $PATCH /tmp/seed_patch.$$ ; cp $DEMO /tmp/seed_demo.$$.py
git checkout -q -- func_adl
PYTHONPATH=$WT /venv/bin/python /tmp/seed_demo.$$.py > /tmp/seed_clean.$$ 2>&1; CLEAN=$?
git apply /tmp/seed_patch.$$ || { echo "patch does not apply"; exit 2; }
TESTS=$(/venv/bin/python -m pytest -q -p no:cacheprovider 2>&1 | tail -1)
PYTHONPATH=$WT /venv/bin/python /tmp/seed_demo.$$.py > /tmp/seed_mut.$$ 2>&1; MUT=$?
git checkout -q -- func_adl
cp /tmp/seed_patch.$$ $OUT/patch.diff; cp /tmp/seed_demo.$$.py $OUT/demo.py
echo "confirm: demo clean exit=$CLEAN, mutated exit=$MUT, tests: $TESTS"
CONFIRMED=false
case "$TESTS" in *"412 passed"*) if [ $CLEAN -eq 0 ] && [ $MUT -ne 0 ]; then CONFIRMED=true; fi;; esac
# run the checks against /repo with the change applied
cd /verif
REPO=${SEED_REPO:-/repo}
git -C $REPO apply $OUT/patch.diff || { echo "patch does not apply to $REPO"; exit 2; }
rm -f $OUT/check_*.txt
for P in $PROP $EXTRA; do
  FUNC_ADL_REPO=$REPO ./check $P quick > $OUT/check_$P.txt 2>&1; echo "exit=$?" >> $OUT/check_$P.txt
  echo "check $P: $(tail -1 $OUT/check_$P.txt) violations=$(grep -c '^VIOLATION' $OUT/check_$P.txt)  $(grep -A1 '^VIOLATION' $OUT/check_$P.txt | sed -n 2p | cut -c1-200)"
done
git -C $REPO checkout -- .
/venv/bin/python - "$OUT" "$PROP" "$NAME" "$CONFIRMED" "$CLEAN" "$MUT" "$TESTS" <<'PY'
import glob, json, os, re, sys
out, prop, name, confirmed, clean, mut, tests = sys.argv[1:8]
checks = []
for f in sorted(glob.glob(os.path.join(out, "check_*.txt"))):
    txt = open(f, errors="replace").read()
    lines = txt.splitlines()
    viol = [i for i, l in enumerate(lines) if l.startswith("VIOLATION")]
    first = lines[viol[0] + 1].strip()[:400] if viol and viol[0] + 1 < len(lines) else ""
    m = re.search(r"exit=(\d+)\s*$", txt)
    checks.append({"property": os.path.basename(f)[6:-4], "exit": int(m.group(1)) if m else -1, "violation_lines": len(viol),
                   "of_which_no_failing_input": sum(1 for i in viol if "no-failing-input-found" in lines[i]), "first": first})
    os.remove(f)
meta = {"breaks_property": prop,
        "source": "written by an independent sub-agent given only the property text and a scratch worktree",
        "confirmed_in_scratch_worktree": confirmed == "true",
        "confirmation": {"demo_exit_clean": int(clean), "demo_exit_mutated": int(mut), "test_suite_with_change": tests},
        "ran": "git -C <repo> apply seeded/%s/patch.diff; ./check <P> quick; git -C <repo> checkout -- .   (<repo> = /repo, or a worktree of /repo's HEAD via FUNC_ADL_REPO)" % name,
        "checks": checks}
old = os.path.join(out, "meta.json")
if os.path.exists(old):
    try:
        prev = json.load(open(old))
        if prev.get("history"):
            meta["history"] = prev["history"]
    except Exception:
        pass
json.dump(meta, open(old, "w"), indent=1)
PY
rm -f /tmp/seed_*.$$ /tmp/seed_demo.$$.py

#!/bin/bash
# seed_eval.sh <PROP> <worktree> <patchfile> <demofile> <name> [extra props to check...]
# 1. confirms the seeded change in the scratch worktree: demo passes on the clean tree, the 412 tests pass and the demo
#    fails with the change;  2. stores it under /verif/seeded/<name>/;  3. applies it to /repo, runs the quick check of the
#    property (and of any extra properties), undoes it, and records what was detected in meta.json.
set -u
PROP=$1; WT=$2; PATCH=$3; DEMO=$4; NAME=$5; shift 5
EXTRA="$@"
OUT=/verif/seeded/$NAME
mkdir -p $OUT
cd $WT || exit 2
cp $PATCH /tmp/seed_patch.$$ ; cp $DEMO /tmp/seed_demo.$$.py
git checkout -q -- func_adl
PYTHONPATH=$WT /venv/bin/python /tmp/seed_demo.$$.py > /tmp/seed_clean.$$ 2>&1; CLEAN=$?
git apply /tmp/seed_patch.$$ || { echo "patch does not apply"; exit 2; }
TESTS=$(/venv/bin/python -m pytest -q -p no:cacheprovider 2>&1 | tail -1)
PYTHONPATH=$WT /venv/bin/python /tmp/seed_demo.$$.py > /tmp/seed_mut.$$ 2>&1; MUT=$?
git checkout -q -- func_adl
cp /tmp/seed_patch.$$ $OUT/patch.diff; cp /tmp/seed_demo.$$.py $OUT/demo.py
echo "confirm: demo clean exit=$CLEAN, mutated exit=$MUT, tests: $TESTS"
CONFIRMED=false
case "$TESTS" in *"412 passed"*) if [ $CLEAN -eq 0 ] && [ $MUT -ne 0 ]; then CONFIRMED=true; fi;; esac
# run the checks against /repo with the change applied
cd /verif
REPO=${SEED_REPO:-/repo}
git -C $REPO apply $OUT/patch.diff || { echo "patch does not apply to $REPO"; exit 2; }
RES=""
for P in $PROP $EXTRA; do
  FUNC_ADL_REPO=$REPO ./check $P quick > /tmp/seed_check.$$ 2>&1; RC=$?
  NV=$(grep -c '^VIOLATION' /tmp/seed_check.$$)
  KIND=$(grep '^VIOLATION' /tmp/seed_check.$$ | grep -c 'no-failing-input-found')
  FIRST=$(grep -A1 '^VIOLATION' /tmp/seed_check.$$ | sed -n 2p | cut -c1-300 | sed 's/"/\\"/g')
  echo "check $P: exit=$RC violations=$NV (no-failing-input-found: $KIND)  $FIRST"
  RES="$RES{\"property\": \"$P\", \"exit\": $RC, \"violation_lines\": $NV, \"of_which_no_failing_input\": $KIND, \"first\": \"$FIRST\"},"
done
git -C $REPO checkout -- .
cat > $OUT/meta.json <<EOF
{
 "breaks_property": "$PROP",
 "source": "written by an independent sub-agent given only the property text and a scratch worktree",
 "confirmed_in_scratch_worktree": $CONFIRMED,
 "confirmation": {"demo_exit_clean": $CLEAN, "demo_exit_mutated": $MUT, "test_suite_with_change": "$TESTS"},
 "ran": "git -C /repo apply seeded/$NAME/patch.diff; ./check <P> quick; git -C /repo checkout -- .",
 "checks": [${RES%,}],
 "needs_to_manifest": "see NOTES in this directory"
}
EOF
rm -f /tmp/seed_*.$$ /tmp/seed_demo.$$.py

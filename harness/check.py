"""Entry point of ./check."""
from __future__ import annotations

import importlib
import json
import os
import sys
import traceback

import core


def main(argv):
    if len(argv) >= 2 and argv[0] == "replay":
        data = json.load(open(argv[1]))
        prop = data["property"]
        mode = "replay"
        tier = "quick"
    else:
        prop = argv[0]
        tier = argv[1] if len(argv) > 1 else os.environ.get("VERIF_TIER", "quick")
        mode = "check"
    if tier not in ("quick", "thorough"):
        tier = "quick"
    seed = int(os.environ.get("VERIF_SEED", "0"))
    sys.setrecursionlimit(20000)
    mod = importlib.import_module(prop.lower())
    tag = getattr(mod, "TAG", "")
    ctx = core.Ctx(prop, tier, seed, tag)
    try:
        import mk_fingerprints
        ctx.escalate = mk_fingerprints.changed_anchor_files(os.environ.get("FUNC_ADL_REPO", "/repo"), prop)
        if ctx.escalate and mode == "check":
            ctx.notes.append("anchored source differs from the fingerprinted revision (%s): quick tier runs a 3x budget"
                             % ", ".join(ctx.escalate))
    except Exception:
        ctx.escalate = []
    try:
        b = core.build(mod.COQ_FILES, need_driver=getattr(mod, "NEED_DRIVER", True),
                       extract=getattr(mod, "EXTRACT", "FA/Extract/Extract.v"),
                       driver_src=getattr(mod, "DRIVER", "driver.ml"), tag=tag)
        ctx.build = b
        if b.gate:
            print("ERROR forbidden vernacular in the development: %s" % "; ".join(b.gate[:5]))
            return 2
        if not b.driver_ok and getattr(mod, "NEED_DRIVER", True):
            print("ERROR model extraction/driver build failed\n" + b.logs.get("make", "")[-1500:])
            return 2
        # axioms reported by Print Assumptions must be in the allow-list of the property
        allowed = set(getattr(mod, "ALLOWED_AXIOMS", []))
        for thm, axs in core.parse_assumptions("".join(b.assumptions.values())).items():
            extra = [a for a in axs if a not in allowed]
            if extra:
                print("ERROR unexpected axioms under %s: %s" % (thm, extra))
                return 2
        if mode == "replay":
            mod.replay(ctx, data["witness"])
        else:
            mod.run(ctx)
        # proof obligations that no longer check
        if b.tables_error or b.broken:
            which = b.tables_error or ("theorem file(s) %s no longer check" % ", ".join(b.broken))
            found = [f for f in ctx.failures if f.kind == "failing-input"]
            if not found:
                log = b.logs.get("make", "")
                i = log.find("Error")
                ctx.fail("no-failing-input-found",
                         "proof obligation broken: %s" % which,
                         {"obligation": which, "coq_error": log[max(0, i - 300): i + 700] if i >= 0 else log[-800:]})
        return core.finish(ctx, mod.LEVEL, mod.TRUSTED, mod.ASSUME, mod.RULE,
                           "cd coq && make FA/Properties/%s.vo  (coqc 8.16.1, full .vo build) ; coqc prints Print Assumptions" % prop)
    except core.MachineryError as e:
        print("ERROR %s" % e)
        return 2
    except Exception:
        traceback.print_exc()
        print("ERROR internal failure of the check machinery")
        return 2


if __name__ == "__main__":
    sys.exit(main(sys.argv[1:]))

#!/usr/bin/env python3
"""Writes harness/fingerprints.json: a comment/whitespace-insensitive fingerprint (sha256 of ast.dump) of every source
file of the library at the revision the framework was last validated against.  When ./check finds that a file a
property is anchored in (properties.jsonl: anchors.files) has a different fingerprint, the quick tier runs a deeper
budget (core.Ctx.budget) - a changed source is exactly when the correspondence and the oracles should look harder.
This never raises an alarm by itself.  Regenerate after every commit to /repo:  /venv/bin/python harness/mk_fingerprints.py"""
import ast
import glob
import hashlib
import json
import os
import sys

ROOT = os.path.abspath(os.path.join(os.path.dirname(__file__), ".."))


def fingerprint(path: str) -> str:
    try:
        src = open(path, encoding="utf-8").read()
        return hashlib.sha256(ast.dump(ast.parse(src), include_attributes=False).encode()).hexdigest()
    except Exception as e:  # unparsable file: fingerprint the bytes
        return "unparsable:" + hashlib.sha256(open(path, "rb").read()).hexdigest()


def all_fingerprints(repo: str):
    out = {}
    for p in sorted(glob.glob(os.path.join(repo, "func_adl", "**", "*.py"), recursive=True)):
        out[os.path.relpath(p, repo)] = fingerprint(p)
    return out


def changed_anchor_files(repo: str, prop: str):
    """anchor files of the property whose fingerprint differs from the recorded one (or that are missing/new)"""
    try:
        recorded = json.load(open(os.path.join(ROOT, "harness", "fingerprints.json")))
    except Exception:
        return ["<no fingerprints.json>"]
    files = []
    for line in open(os.path.join(ROOT, "properties.jsonl")):
        d = json.loads(line)
        if d["id"] == prop:
            files = d.get("anchors", {}).get("files", [])
    out = []
    for f in files:
        p = os.path.join(repo, f)
        if not os.path.exists(p):
            out.append(f)
        elif recorded.get(f) != fingerprint(p):
            out.append(f)
    return out


if __name__ == "__main__":
    repo = sys.argv[1] if len(sys.argv) > 1 else "/repo"
    fp = all_fingerprints(repo)
    json.dump(fp, open(os.path.join(ROOT, "harness", "fingerprints.json"), "w"), indent=1, sort_keys=True)
    print("fingerprints of %d files written" % len(fp))

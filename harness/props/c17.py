"""C17 - method-form and function-form queries are interchangeable
(func_adl/ast/func_adl_ast_utils.py: change_extension_functions_to_calls)."""
from __future__ import annotations

import ast
import copy

import bridge
import core
import gen
import pyref_lite
from gen import A, C, N, call, fcall, lam, mcall

ID = "C17"
TAG = "ext"
EXTRACT = "FA/Extract/ExtractExt.v"
DRIVER = "driver_ext.ml"
COQ_FILES = ["FA/Proofs/TraverseTFacts.v", "FA/Proofs/ExtCallsProofs.v", "FA/Proofs/ExtCallsSem.v",
             "FA/Properties/C17.v"]

# the property's "known operator names", written here independently of the code and of the table
KNOWN = ["Select", "SelectMany", "Where", "First", "ResultTTree", "ResultAwkwardArray", "ResultPandasDF",
         "Min", "Max", "Sum", "Aggregate", "Count"]
UNLISTED = ["Take", "Skip", "OrderBy", "Filter", "select", "Total", "Foo", "first", "where", "Selection", "Counts",
            "FirstOrDefault", "MySelect", "Sum_"]

LEVEL = ("Coq theorems over the executable model `ext` (operator list regenerated from the source on every run) and over "
         "`ext_with ops` for any function_names list: ext_exact (relational spec: exactly v.op(args) with op listed becomes "
         "op(v,args,keywords), congruence on every other node class), ext_complete (no method-form operator call "
         "left at any depth), ext_idem, ext_fixpoints, ext_sem (for every backend, environment and query whose method-form "
         "operator calls carry no keywords: original evaluates to v => rewritten evaluates to v; induction through lambda "
         "bodies, keyword values, nested calls); model tied to the code by exact differential comparison.")
TRUSTED = ["Coq 8.16.1 kernel (coqc); no axioms (Print Assumptions: closed under the global context)",
           "harness/sync_tables.py (reads default_list_of_functions from func_adl_ast_utils.py source; cross-checked "
           "against the imported module value on every run)",
           "extraction: ExtrOcamlBasic + ExtrOcamlNativeString; ocaml/sx.ml + ocaml/driver_ext.ml",
           "harness/bridge.py ast<->expr encoding; harness/props/c17.py generators and oracles; "
           "harness/props/pyref_lite.py (CPython compile/eval of the query over Seq(list))"]
ASSUME = ["reference semantics Base/Eval.v: first-order values, lambdas only as operator arguments / immediate callees; "
          "s.Op(args) and Op(s, args) are interpreted by two separate clauses given the same operator list",
          "ext_sem hypothesis ops_kw_free: method-form operator calls carry no keywords (the form seq.Op(args...) the "
          "property states); the keywords stay with the rewritten call (structural oracle; F39 - they used to be dropped)"]
RULE = ("corpus, then all expressions of the C17 grammar up to size N (listed and unlisted method names of the same shape, "
        "function form, bare attributes named like operators, lambdas, keyword values, callee positions), seeded random "
        "expressions, typed random queries evaluated on 5 datasets (incl. empty), custom function_names lists, a malformed "
        "stream; a case is non-trivial when it contains a method call; distinct by ast.dump")


def impl(e: ast.AST, names=None):
    from func_adl.ast.func_adl_ast_utils import change_extension_functions_to_calls

    try:
        t = copy.deepcopy(e)
        if names is None:
            return ("ok", change_extension_functions_to_calls(t))
        return ("ok", change_extension_functions_to_calls(t, names))
    except RecursionError:
        raise
    except Exception as ex:  # noqa
        return ("exc", type(ex).__name__)


# ---------------------------------------------------------------- independent structural spec

def spec(e, names, keep_kw=False):
    """Which tree must come out: v.op(args...) with op known -> op(v', args'...); everything else unchanged."""
    if isinstance(e, ast.Call) and isinstance(e.func, ast.Attribute) and e.func.attr in names:
        kws = [ast.keyword(arg=k.arg, value=spec(k.value, names, keep_kw)) for k in e.keywords] if keep_kw else []
        return ast.Call(func=ast.Name(id=e.func.attr, ctx=ast.Load()),
                        args=[spec(e.func.value, names, keep_kw)] + [spec(a, names, keep_kw) for a in e.args],
                        keywords=kws)
    if isinstance(e, ast.AST):
        n = copy.copy(e)
        for f, v in ast.iter_fields(e):
            if isinstance(v, list):
                setattr(n, f, [spec(x, names, keep_kw) for x in v])
            elif isinstance(v, ast.AST):
                setattr(n, f, spec(v, names, keep_kw))
        return n
    return e


def kw_on_method_op(e, names):
    for n in ast.walk(e):
        if isinstance(n, ast.Call) and isinstance(n.func, ast.Attribute) and n.func.attr in names and n.keywords:
            return True
    return False


def method_op_left(e, names):
    if not isinstance(e, ast.AST):
        return False
    for n in ast.walk(e):
        if isinstance(n, ast.Call) and isinstance(n.func, ast.Attribute) and n.func.attr in names:
            return True
    return False


def dump(e):
    return ast.dump(e) if isinstance(e, ast.AST) else repr(e)


def structural_ok(e, st, out, names):
    """The property's structural clauses evaluated on the implementation's output."""
    if st != "ok":
        return False, "raises " + str(out)
    d = dump(out)
    if d != dump(spec(e, names, keep_kw=True)):      # arguments given by keyword stay with the call (F39)
        return False, "output differs from `rewrite exactly the method-form operator calls`"
    if method_op_left(out, names):
        return False, "a method-form operator call is left in the output"
    st2, out2 = impl(out, None if names is KNOWN else names)
    if st2 != "ok" or dump(out2) != d:
        return False, "applying the function again changes the result"
    return True, ""


# ---------------------------------------------------------------- generators

def _leaves():
    return [N("s"), N("Select"), C(1)]


def lam_default(body, default, kwonly=False):
    """lambda x, n=<default>: <body>   or   lambda x, *, n=<default>: <body>  - the default expression is part of the query"""
    if kwonly:
        args = ast.arguments(posonlyargs=[], args=[ast.arg(arg="x")], kwonlyargs=[ast.arg(arg="n")], kw_defaults=[default], defaults=[])
    else:
        args = ast.arguments(posonlyargs=[], args=[ast.arg(arg="x"), ast.arg(arg="n")], kwonlyargs=[], kw_defaults=[], defaults=[default])
    return ast.Lambda(args=args, body=body)


def _builders():
    un = [lambda a: mcall(a, "First"), lambda a: mcall(a, "Count"), lambda a: mcall(a, "Foo"),
          lambda a: mcall(a, "first"), lambda a: fcall("First", a), lambda a: A(a, "Select"),
          lambda a: lam("x", a), lambda a: call(A(N("s"), "Select"), [], [("k", a)]),
          lambda a: call(N("f"), [], [("k", a)]), lambda a: call(a, []),
          lambda a: ast.UnaryOp(op=ast.Not(), operand=a)]
    bi = [lambda a, b: mcall(a, "Select", b), lambda a, b: mcall(a, "Where", b), lambda a, b: mcall(a, "Foo", b),
          lambda a, b: fcall("Select", a, b), lambda a, b: mcall(a, "SelectMany", lam("x", b)),
          lambda a, b: call(A(a, "Select"), [], [("k", b)]), lambda a, b: call(A(a, "Foo"), [], [("k", b)]),
          lambda a, b: gen.tup(a, b), lambda a, b: gen.sub(a, b), lambda a, b: call(a, [b]),
          lambda a, b: gen.binop(ast.Add, a, b),
          lambda a, b: mcall(N("s"), "Select", lam_default(a, b)), lambda a, b: lam_default(a, b, True)]
    te = [lambda a, b, c: mcall(a, "Aggregate", b, c), lambda a, b, c: mcall(a, "Foo", b, c),
          lambda a, b, c: ast.IfExp(test=a, body=b, orelse=c),
          lambda a, b, c: call(A(a, "Select"), [b], [("k", c)])]
    return {1: un, 2: bi, 3: te}


CORPUS = [
    "s.Select(lambda x: x.pt)", "Select(s, lambda x: x.pt)", "s.Foo(lambda x: x.pt)", "s.select(lambda x: x)",
    "s.Select(lambda e: e.jets.Where(lambda j: j.pt > 1).Count())", "s.Select",
    "s.Select(lambda x: x, k=1)", "s.Foo(k=t.First())", "f(k=t.First())", "s.Select(lambda x: x)(y)",
    "s.Where(lambda x: x.Take(2).Sum() > 0).First().jets.SelectMany(lambda j: j.tracks)",
    "a.b.Select.Where(1)", "s.ResultTTree('t', ['c'], 'f.root')", "s.Select(*a)", "s.Select(**k)",
    "[j.pt for j in s.Where(lambda j: j.ok)]", "(lambda q: q.First())(s)", "s.Select(lambda x, /, y=1: y.Max())",
    "s.Min().Max().Sum()", "s.Aggregate(0, lambda a, v: a + v)", "s.Count", "Count(s.Count())",
    "{'a': s.First()}['a']", "s.First().First()", "x.First()[0].Select(lambda y: y)",
    "s.Select(lambda e, n=s.Count(): e.Count() * n)", "s.Select(lambda j, *, lim=s.Select(lambda k: k.Max()).Min(): j.pt > lim)",
    "Select(s, lambda e, n=t.First().Count(): n)", "(lambda x=s.Sum(): x)()",
]


def structural_cases(ctx):
    out = [ast.parse(src, mode="eval").body for src in CORPUS]
    size = ctx.budget(4, 5)
    by = gen.enum_trees(_leaves, _builders(), size)
    allt = [t for s in sorted(by) for t in by[s]]
    cap = ctx.budget(7000, 150000)
    if len(allt) > cap:
        ctx.notes.append("enumeration to size %d has %d trees; seeded sample of %d" % (size, len(allt), cap))
        allt = ctx.rng.sample(allt, cap)
    else:
        ctx.notes.append("enumeration to size %d exhaustive: %d trees" % (size, len(allt)))
    out += allt
    rg = gen.RandomExpr(ctx.rng, names=["s", "Select", "t"], attrs=["jets", "Select", "Count", "pt"],
                        funcs=KNOWN[:4] + ["f"], methods=KNOWN + UNLISTED,
                        ops=("Select", "Where", "SelectMany", "Foo", "OrderBy"))
    for _ in range(ctx.budget(2500, 40000)):
        out.append(rg.expr(ctx.rng.randrange(2, 7)))
    return out


def malformed_cases():
    L = ast.Load()
    return [
        ast.Call(func=5, args=[N("s")], keywords=[]),
        ast.Call(func=ast.Attribute(value=5, attr="Select", ctx=L), args=[None, N("a")], keywords=[]),
        ast.Call(func=ast.Attribute(value=N("s"), attr="Foo", ctx=L), args=[3, mcall(N("t"), "First")], keywords=[]),
        ast.Tuple(elts=[1, mcall(N("s"), "Count"), "x"], ctx=L),
        ast.Attribute(value=None, attr="Select", ctx=L),
        ast.BinOp(left=mcall(N("s"), "Sum"), op=ast.Add(), right=2),
    ]


class TypedGen:
    """Well-typed random queries over the pyref_lite datasets (ds: events with .jets (pt, eta) and .met),
    every operator call in method or function form at random, non-operator methods of the same shape mixed in."""

    def __init__(self, rng):
        self.r = rng
        self.k = 0

    def fresh(self, base):
        self.k += 1
        return "%s%d" % (base, self.k % 3)

    def op(self, name, recv, *args):
        return mcall(recv, name, *args) if self.r.random() < 0.6 else fcall(name, recv, *args)

    def events(self, d, scope):
        r = self.r
        if d <= 0 or r.random() < 0.35:
            return N("ds")
        p = self.fresh("e")
        k = r.randrange(4)
        if k == 0:
            return self.op("Where", self.events(d - 1, scope), lam(p, self.boolean(d - 1, scope + [(p, "ev")])))
        if k == 1:
            return mcall(self.events(d - 1, scope), "Take", C(r.randrange(0, 3)))
        if k == 2:
            return mcall(self.events(d - 1, scope), "Filter", lam(p, self.boolean(d - 1, scope + [(p, "ev")])))
        return call(A(self.events(d - 1, scope), "Skip"), [], [("n", C(1))])

    def event(self, d, scope):
        evs = [n for n, t in scope if t == "ev"]
        if evs:
            return N(self.r.choice(evs))
        return self.op("First", self.events(d - 1, scope))

    def jets(self, d, scope):
        r = self.r
        k = r.randrange(5)
        if d <= 0 or k == 0:
            return A(self.event(d, scope), "jets")
        p = self.fresh("j")
        if k == 1:
            return self.op("Where", self.jets(d - 1, scope), lam(p, self.boolean(d - 1, scope + [(p, "jet")])))
        if k == 2:
            q = self.fresh("e")
            return self.op("SelectMany", self.events(d - 1, scope), lam(q, self.jets(d - 1, scope + [(q, "ev")])))
        if k == 3:
            return mcall(self.jets(d - 1, scope), "OrderBy", lam(p, self.integer(d - 1, scope + [(p, "jet")])))
        return mcall(self.jets(d - 1, scope), "Skip")

    def ints(self, d, scope):
        r = self.r
        k = r.randrange(4)
        if k == 0 or d <= 0:
            p = self.fresh("j")
            return self.op("Select", self.jets(d - 1, scope), lam(p, self.integer(d - 1, scope + [(p, "jet")])))
        if k == 1:
            p = self.fresh("e")
            return self.op("Select", self.events(d - 1, scope), lam(p, self.integer(d - 1, scope + [(p, "ev")])))
        if k == 2:
            p = self.fresh("v")
            return self.op("Where", self.ints(d - 1, scope), lam(p, self.boolean(d - 1, scope + [(p, "int")])))
        p = self.fresh("v")
        return mcall(self.ints(d - 1, scope), "select", lam(p, self.integer(d - 1, scope + [(p, "int")])))

    def integer(self, d, scope):
        r = self.r
        ints = [n for n, t in scope if t == "int"]
        jets = [n for n, t in scope if t == "jet"]
        evs = [n for n, t in scope if t == "ev"]
        k = r.randrange(12)
        if d <= 0 or k <= 1:
            c = []
            if ints:
                c.append(N(r.choice(ints)))
            if jets:
                c.append(A(N(r.choice(jets)), r.choice(["pt", "eta"])))
            if evs:
                c.append(A(N(r.choice(evs)), "met"))
            c.append(C(r.randrange(-2, 30)))
            return r.choice(c)
        if k == 2:
            return self.op("Count", self.jets(d - 1, scope))
        if k == 3:
            return self.op(r.choice(["Sum", "Max", "Min", "First"]), self.ints(d - 1, scope))
        if k == 4:
            return self.op("Aggregate", self.ints(d - 1, scope), C(0),
                           lam(["acc", "w"], gen.binop(ast.Add, N("acc"), N("w"))))
        if k == 5:
            return gen.binop(r.choice([ast.Add, ast.Sub, ast.Mult]), self.integer(d - 1, scope), self.integer(d - 1, scope))
        if k == 6:
            return ast.IfExp(test=self.boolean(d - 1, scope), body=self.integer(d - 1, scope), orelse=self.integer(d - 1, scope))
        if k == 7:
            return A(self.op("First", self.jets(d - 1, scope)), "pt")
        if k == 8:
            return mcall(self.ints(d - 1, scope), "Total")
        if k == 9:
            return fcall("len", self.jets(d - 1, scope))
        if k == 10:
            return call(A(self.op("First", self.jets(d - 1, scope)), "scaled"), [], [("k", C(2))])
        return self.op("Count", self.events(d - 1, scope))

    def boolean(self, d, scope):
        r = self.r
        k = r.randrange(5)
        if d <= 0 or k <= 2:
            return gen.cmp(r.choice([ast.Lt, ast.Gt, ast.Eq, ast.GtE]), self.integer(d - 1, scope), self.integer(d - 1, scope))
        if k == 3:
            return ast.BoolOp(op=r.choice([ast.And, ast.Or])(), values=[self.boolean(d - 1, scope), self.boolean(d - 1, scope)])
        return ast.UnaryOp(op=ast.Not(), operand=self.boolean(d - 1, scope))

    def query(self, d):
        k = self.r.randrange(5)
        if k == 0:
            return self.ints(d, [])
        if k == 1:
            return self.integer(d, [])
        if k == 2:
            return self.op(self.r.choice(["ResultTTree", "ResultAwkwardArray", "ResultPandasDF"]), self.ints(d, []), C("col"))
        if k == 3:
            p = self.fresh("e")
            return self.op("Select", self.events(d, []), lam(p, gen.tup(self.integer(d - 1, [(p, "ev")]), self.integer(d - 1, [(p, "ev")]))))
        return self.jets(d, [])


def semantic_cases(ctx):
    out = [ast.parse(s, mode="eval").body for s in [
        "ds.Select(lambda e: e.jets.Where(lambda j: j.pt > 20).Count())",
        "ds.SelectMany(lambda e: e.jets).Select(lambda j: j.pt).Sum()",
        "ds.Where(lambda e: e.jets.Count() > 0).Select(lambda e: e.jets.First().pt).Take(1)",
        "ds.Select(lambda e: e.jets.Select(lambda j: j.pt).Max()).ResultTTree('t')",
        "ds.Select(lambda e: e.jets.Select(lambda j: j.pt).Aggregate(0, lambda a, v: a + v))",
        "ds.Skip(n=1).Select(lambda e: e.met).Total()",
        "Select(ds.Filter(lambda e: e.met > 0), lambda e: e.jets.OrderBy(lambda j: j.eta).First().scaled(k=3))",
    ]]
    tg = TypedGen(ctx.rng)
    for _ in range(ctx.budget(700, 12000)):
        out.append(tg.query(ctx.rng.randrange(1, 5)))
    return out


# ---------------------------------------------------------------- the check

def key_of(e, what=""):
    return core.digest({"p": ID, "e": dump(e), "w": what})


def check_case(ctx, e, ans, names=KNOWN, label="ext"):
    """Correspondence (model answer `ans` vs implementation) + structural oracle on one expression."""
    ctx.evaluations += 1
    st, out = impl(e, None if names is KNOWN else names)
    got = "OK " + bridge.to_sx(out) if st == "ok" else "EXC " + str(out)
    ctx.count("impl_result", "ok" if st == "ok" else str(out))
    ctx.corr_cases += 1
    ok, why = structural_ok(e, st, out, names)
    if not ok:
        ctx.fail("failing-input",
                 "change_extension_functions_to_calls(%s) -> %s : %s" % (
                     bridge.dump(e), bridge.dump(out) if st == "ok" else "raises " + str(out), why),
                 {"oracle": "structural", "expr_dump": dump(e), "expr": bridge.dump(e),
                  "names": None if names is KNOWN else list(names)}, key=key_of(e, "structural"))
    if ans != got:
        ctx.corr_disagreements += 1
        if ok:
            ctx.fail("no-failing-input-found",
                     "correspondence %s (Model/ExtCalls.v) vs change_extension_functions_to_calls broke on %s: model %s, code %s"
                     % (label, bridge.dump(e), ans[:200], got[:200]),
                     {"correspondence": label, "expr_dump": dump(e), "model": ans, "impl": got})
    return st, out


def semantic_check(ctx, e, st, out, datasets):
    """Evaluate original and rewritten query on every dataset: whenever the original evaluates, the
    rewritten one must give the same value."""
    if st != "ok":
        return
    nonvac = 0
    for i, d in enumerate(datasets):
        ctx.evaluations += 1
        a = pyref_lite.run(e, d)
        if a[0] != "ok":
            ctx.count("semantic", "original raises (vacuous)")
            continue
        nonvac += 1
        b = pyref_lite.run(out, d)
        ctx.count("semantic", "compared")
        if a != b:
            ctx.fail("failing-input",
                     "on dataset #%d the query %s evaluates to %r but its rewritten form %s gives %r"
                     % (i, bridge.dump(e), a[1], bridge.dump(out), b[1]),
                     {"oracle": "semantic", "expr_dump": dump(e), "expr": bridge.dump(e), "dataset": i},
                     key=key_of(e, "semantic"))
            return
    return nonvac


def table_check(ctx):
    """The generated table is what the module really holds, and the model sees the same list."""
    from func_adl.ast import func_adl_ast_utils as u

    live = list(u.default_list_of_functions)
    ans = ctx.driver.call("ops", [[]])[0]
    model = [bridge.unhx(t) for t in bridge.parse_sx(ans)]
    if model != live:
        ctx.fail("no-failing-input-found", "generated table ext_default_ops %r differs from the imported module value %r"
                 % (model, live), {"correspondence": "ext_default_ops", "model": model, "impl": live})
    ctx.notes.append("ext_default_ops (generated) = %s" % ",".join(model))


def has_method_call(e):
    return isinstance(e, ast.AST) and any(isinstance(n, ast.Call) and isinstance(n.func, ast.Attribute) for n in ast.walk(e))


def run(ctx):
    table_check(ctx)
    # 1. structural stream: corpus, enumeration, random, malformed
    cs = structural_cases(ctx) + malformed_cases()
    sx = [bridge.to_sx(e) for e in cs]
    answers = ctx.driver.call("ext", [[s] for s in sx])
    # extraction cross-check: a sample of the driver's answers re-evaluated inside Coq by vm_compute
    import core
    core.coq_crosscheck(ctx, ID, "From FA.Base Require Import PyAst Value Traverse.\nFrom FA.Model Require Import ExtCalls.",
                        core.xcheck_sample([e for e in cs if has_method_call(e)] + cs, 
                                           [a for e, a in zip(cs, answers) if has_method_call(e)] + answers,
                                           lambda e: "ext %s" % bridge.to_coq(e),
                                           lambda a: bridge.sx_to_coq(bridge.parse_sx(a[3:])) if a.startswith("OK ") else None))
    for e, ans in zip(cs, answers):
        if has_method_call(e):
            ctx.distinct.add(dump(e))
        check_case(ctx, e, ans)
        ctx.count("kind", "structural stream")
    # 2. custom function_names lists
    sample = ctx.rng.sample(cs, min(len(cs), ctx.budget(400, 5000)))
    for names in (["Foo", "Select"], [], ["first", "Count", "jets"]):
        answers = ctx.driver.call("ext_with", [["(" + " ".join(bridge.hx(n) for n in names) + ")", bridge.to_sx(e)] for e in sample])
        for e, ans in zip(sample, answers):
            check_case(ctx, e, ans, names=names, label="ext_with")
            ctx.count("kind", "custom function_names")
    # 3. typed queries: correspondence + structural + semantic on several datasets
    qs = semantic_cases(ctx)
    answers = ctx.driver.call("ext", [[bridge.to_sx(e)] for e in qs])
    kwf = ctx.driver.call("kwfree", [[bridge.to_sx(e)] for e in qs])
    datasets = pyref_lite.datasets()
    for e, ans, kf in zip(qs, answers, kwf):
        ctx.distinct.add(dump(e))
        st, out = check_case(ctx, e, ans)
        ctx.count("kind", "typed query")
        if kw_on_method_op(e, KNOWN) != (kf == "0"):
            ctx.fail("no-failing-input-found", "hypothesis ops_kw_free disagrees between model and harness on %s" % bridge.dump(e),
                     {"correspondence": "ops_kw_free", "expr_dump": dump(e)})
        if kf == "1":
            nv = semantic_check(ctx, e, st, out, datasets)
            ctx.count("semantic_nonvacuous_datasets", str(nv))
    regraft_cases(ctx, qs)
    for e in cs[:2] + qs[7:11]:
        ctx.sample({"input": bridge.dump(e), "output": bridge.dump(impl(e)[1])})


def regraft_one(ctx, e, graft: str, ti: int):
    """-> None if not applicable, else (ok, description)"""
    st, out = impl(e)
    if st != "ok" or not isinstance(out, ast.AST):
        return None
    targets = [x for x in ast.walk(out) if isinstance(x, ast.Call) and isinstance(x.func, ast.Name) and x.func.id in KNOWN and x.args]
    if not targets:
        return None
    t = targets[ti % len(targets)]
    g = ast.parse(graft, mode="eval").body
    lam = [a for a in t.args if isinstance(a, ast.Lambda)]
    if lam:
        lam[0].body = g          # as resolve_syntatic_sugar does with a lowered comprehension
    else:
        t.args.append(g)
    edited = ast.unparse(out)
    want = spec(copy.deepcopy(out), KNOWN, keep_kw=True)
    st2, out2 = impl(out)
    if st2 != "ok":
        return False, "%s -> raises %s" % (edited, out2)
    if dump(out2) != dump(want):
        return False, "%s -> %s ; the same tree freshly parsed gives %s" % (edited, ast.unparse(out2), ast.unparse(want))
    return True, ""


def regraft_cases(ctx, qs):
    """The result depends on the tree only, not on what happened to its nodes before: the OUTPUT of one application gets a
    method-form operator call put below one of its (already converted) calls - as resolve_syntatic_sugar does when it lowers
    a comprehension between two backend passes - and is converted again."""
    graft_src = ["s.Where(lambda j: j > 30).Select(lambda j: j * 2)", "e.jets.Count()", "t.First().Select(lambda k: k)"]
    n = 0
    for e in qs[:ctx.budget(150, 1500)]:
        graft, ti = ctx.rng.choice(graft_src), ctx.rng.randrange(8)
        r = regraft_one(ctx, e, graft, ti)
        if r is None:
            continue
        ctx.evaluations += 1
        n += 1
        if not r[0]:
            ctx.fail("failing-input", "a converted query edited below a converted call and converted again: " + r[1],
                     {"oracle": "regraft", "expr_dump": dump(e), "graft": graft, "target": ti}, key=core.digest({"p": ID, "regraft": dump(e)}))
    ctx.count("kind", "regraft:%d" % n)


def replay(ctx, w):
    e = eval(w["expr_dump"], dict(vars(ast)))
    if w.get("oracle") == "regraft":
        r = regraft_one(ctx, e, w["graft"], w["target"])
        if r is not None and not r[0]:
            ctx.fail("failing-input", "still fails: " + r[1], w)
        return
    names = w.get("names") or KNOWN
    st, out = impl(e, None if names is KNOWN else names)
    if w.get("oracle") == "semantic":
        semantic_check(ctx, e, st, out, pyref_lite.datasets())
        return
    ok, why = structural_ok(e, st, out, names)
    if not ok:
        ctx.fail("failing-input", "still fails: %s : %s" % (bridge.dump(e), why), w, key=key_of(e, "structural"))
    elif w.get("correspondence"):
        ans = ctx.driver.call("ext", [[bridge.to_sx(e)]])[0]
        got = "OK " + bridge.to_sx(out) if st == "ok" else "EXC " + str(out)
        if ans != got:
            ctx.fail("no-failing-input-found", "correspondence still broken on %s" % bridge.dump(e), w)

"""Shared machinery of the simplifier checks (C02, C14, C18): implementation runner, model runner,
typed query generator, reference interpreter (CPython itself evaluates the queries), datasets."""
from __future__ import annotations

import ast
import copy
import random
import warnings
from typing import Any, Dict, List, Optional, Sequence, Tuple

import bridge
import gen
from gen import A, C, N, call, fcall, lam, mcall

warnings.filterwarnings("ignore", category=SyntaxWarning)

TAG = "simp"
EXTRACT = "FA/Extract/ExtractSimp.v"
DRIVER = "driver_simp.ml"
MODEL_FILES = ["FA/Proofs/SimplifyFacts.v"]

FUEL_PER_NODE = 60
FUEL_MIN = 400


# ---------------------------------------------------------------- implementation / model

def impl(e: ast.AST):
    """simplify_chained_calls().visit on a private copy, counter reset.  -> (status, payload)"""
    import func_adl.ast.function_simplifier as fs

    fs.argument_var_counter = 0
    try:
        r = fs.simplify_chained_calls().visit(copy.deepcopy(e))
        return "ok", r, fs.argument_var_counter
    except fs.FuncADLIndexError:
        return "indexerr", None, None
    except RecursionError:
        return "recursion", None, None
    except Exception as ex:  # noqa
        return "crash", type(ex).__name__, None


def impl_line(e: ast.AST) -> str:
    st, r, c = impl(e)
    if st == "ok":
        try:
            return "OK %d %s" % (c, bridge.to_sx(r))
        except RecursionError:
            return "CYCLIC"
    return {"indexerr": "INDEXERR", "recursion": "RECURSION", "crash": "CRASH"}[st]


_ARG = __import__("re").compile(r"^arg_\d+$")


def alpha_norm(e: ast.AST, all_binders: bool = False) -> ast.AST:
    """Binding-aware renaming of the library's fresh names: every lambda parameter of the form
    arg_N is renamed, together with the occurrences it binds, to _b<k> (k = order of the binder in
    a pre-order walk).  Free names and user-chosen parameter names are left alone, so two trees
    have the same normal form iff they differ only in the choice of fresh parameter names."""
    e = copy.deepcopy(e)
    counter = [0]

    def go(n, env):
        if isinstance(n, ast.Name):
            if n.id in env:
                n.id = env[n.id]
        elif isinstance(n, ast.Lambda):
            env2 = dict(env)
            for a in n.args.args:
                if isinstance(a.arg, str) and (all_binders or _ARG.match(a.arg)):
                    new = "_b%d" % counter[0]
                    counter[0] += 1
                    env2[a.arg] = new
                    a.arg = new
                elif a.arg in env2:
                    del env2[a.arg]
            go(n.body, env2)
        elif isinstance(n, ast.AST):
            for c in ast.iter_child_nodes(n):
                go(c, env)

    go(e, {})
    return e


def same_result(impl_ln: str, model_ln: str) -> str:
    """'exact' | 'alpha' (equal up to the choice of fresh parameter names) | 'alpha-all' (equal up
    to the names of all lambda parameters, binding structure identical) | 'differ'"""
    if impl_ln == model_ln:
        return "exact"
    if impl_ln.startswith("OK ") and model_ln.startswith("OK "):
        a = bridge.from_sx(impl_ln.split(" ", 2)[2])
        b = bridge.from_sx(model_ln.split(" ", 2)[2])
        if bridge.to_sx(alpha_norm(a)) == bridge.to_sx(alpha_norm(b)):
            return "alpha"
        # the implementation edits shared nodes in place, which changes whether a later lambda
        # is alpha-renamed at all: compare modulo the names of *all* lambda parameters
        if bridge.to_sx(alpha_norm(a, True)) == bridge.to_sx(alpha_norm(b, True)):
            return "alpha-all"
        # A re-visit of a node that several uses of a definition share simplifies it for all of them in the implementation
        # (in-place edit), for the visited use only in the functional model: the code's output is then the model's output
        # with some sub-terms simplified once more.  Such outputs are identified by simplifying both once more (with the
        # implementation) - they must then be equal modulo parameter names.
        sa, ra, _ = impl(a)
        sb, rb, _ = impl(b)
        if sa == "ok" and sb == "ok":
            try:
                if bridge.to_sx(alpha_norm(ra, True)) == bridge.to_sx(alpha_norm(rb, True)):
                    return "resimplified"
            except RecursionError:
                pass
    return "differ"


def node_count(e: ast.AST) -> int:
    return sum(1 for _ in ast.walk(e))


def model_lines(ctx, es: Sequence[ast.AST]) -> List[str]:
    rows = []
    for e in es:
        fuel = max(FUEL_MIN, FUEL_PER_NODE * node_count(e))
        rows.append([str(fuel), "0", bridge.to_sx(e)])
    out = ctx.driver.call("simp", rows)
    crosscheck(ctx, es, rows, out)
    return [("CRASH" if o.startswith("CRASH") else o) for o in out]


_xchecked = set()


def crosscheck(ctx, es, rows, out, want: int = 12):
    """Re-evaluate a sample of the driver's answers inside Coq (once per run)."""
    import core

    if ctx.prop in _xchecked:
        return
    _xchecked.add(ctx.prop)
    pairs = []
    for e, row, o in zip(es, rows, out):
        if node_count(e) > 28 or has_raw(e):
            continue
        if o.startswith("OK "):
            _, c, sx = o.split(" ", 2)
            rhs = "Ok (%s, %s%%nat)" % (bridge.sx_to_coq(bridge.parse_sx(sx)), c)
        elif o == "INDEXERR":
            rhs = "IndexErr"
        else:
            continue
        # spread the sample over the run: take every k-th eligible case
        pairs.append(("simplify %s%%nat 0%%nat %s" % (row[0], bridge.to_coq(e)), rhs))
    if len(pairs) > want:
        step = len(pairs) // want
        pairs = pairs[::step][:want]
    core.coq_crosscheck(ctx, ctx.prop, "From FA.Base Require Import PyAst Value Traverse Names.\nFrom FA.Model Require Import Simplify.", pairs)


# ---------------------------------------------------------------- reference interpreter

class Seq:
    """In-memory sequence with the LINQ operators in method form.  Evaluation is *lazy*, as in
    LINQ: an element is computed when it is first demanded (First demands one element, Count and
    the final comparison of results demand all), and memoised."""

    def __init__(self, it=()):
        self._it = iter(it)
        self._buf = []

    def _fill(self, n=None):
        while n is None or len(self._buf) <= n:
            try:
                self._buf.append(next(self._it))
            except StopIteration:
                break

    def __iter__(self):
        i = 0
        while True:
            self._fill(i)
            if i >= len(self._buf):
                return
            yield self._buf[i]
            i += 1

    def __len__(self):
        self._fill()
        return len(self._buf)

    def __getitem__(self, i):
        if isinstance(i, int) and i >= 0:
            self._fill(i)
        else:
            self._fill()
        return self._buf[i]

    def __eq__(self, o):
        return isinstance(o, Seq) and list(self) == list(o)

    def Select(self, f):
        return Seq(f(x) for x in self)

    def Where(self, f):
        return Seq(x for x in self if f(x))

    def SelectMany(self, f):
        return Seq(y for x in self for y in _seq(f(x)))

    def First(self):
        return self[0]

    def Count(self):
        return len(self)

    def fold(self, init, f):
        """a backend method (not an operator the simplifier knows) that takes a two-parameter lambda"""
        acc = init
        for x in self:
            acc = f(acc, x)
        return acc


class Rec:
    """Opaque backend record: integer attributes, sub-collections, a method."""

    def __init__(self, ident, a, b, met, jets=(), trk=()):
        self.ident = ident
        self.a = a
        self.b = b
        self.met = met
        self.pt = a
        self.jets = Seq(jets)
        self.trk = Seq(trk)
        # a mapping to spread into dictionary literals ({'a': x, **e.d}): it defines 'a' for some records only
        self.d = {"a": 7 * a + 1, "zz": 0} if isinstance(a, int) and a % 2 == 0 else {}

    def m(self, x=1, k=0):
        return self.a * x + k

    def __repr__(self):
        return "R%s" % (self.ident,)

    def __eq__(self, o):
        return isinstance(o, Rec) and o.ident == self.ident

    def __hash__(self):
        return hash(self.ident)


def _seq(s):
    """Operators range over sequences (a Seq or a list), as in Base/Eval.v; anything else is a type error."""
    if isinstance(s, (Seq, list)):
        return s
    raise TypeError("not a sequence")


def _ops_env():
    def Select(s, f):
        return Seq(f(x) for x in _seq(s))

    def Where(s, f):
        return Seq(x for x in _seq(s) if f(x))

    def SelectMany(s, f):
        return Seq(y for x in _seq(s) for y in _seq(f(x)))

    def First(s):
        return _seq(s)[0]

    def Count(s):
        return len(_seq(s))

    return {"Select": Select, "Where": Where, "SelectMany": SelectMany, "First": First, "Count": Count,
            "len": Count, "__builtins__": {}}


def make_datasets(rng: random.Random, n: int = 5) -> List[Seq]:
    """Datasets of events: empty dataset, events with empty collections, nested two levels."""
    counter = [0]

    def rec(depth):
        counter[0] += 1
        i = counter[0]
        jets = [rec(depth - 1) for _ in range(rng.randrange(0, 4))] if depth > 0 else []
        trk = [rec(depth - 1) for _ in range(rng.randrange(0, 3))] if depth > 0 else []
        return Rec(i, rng.randrange(-5, 9), rng.randrange(-3, 4), rng.randrange(0, 6), jets, trk)

    out = [Seq([])]
    for k in range(n - 1):
        out.append(Seq([rec(2) for _ in range(rng.randrange(1, 4) if k else 1)]))
    # one event whose collections are all empty
    out.append(Seq([Rec(10 ** 6, 1, 2, 3)]))
    return out


class DRec:
    """A dictionary literal of a query: func_adl reads it as a record - an attribute is a key (also `values`, `items`, ...:
    the methods of Python's dict are not part of the query language), a subscript is a key."""

    def __init__(self, d):
        # idempotent: the implementation's outputs share sub-trees, so a dictionary node can be wrapped more than once
        object.__setattr__(self, "_d", dict(d._d if isinstance(d, DRec) else d))

    def __getattribute__(self, name):
        if name.startswith("_"):
            return object.__getattribute__(self, name)
        d = object.__getattribute__(self, "_d")
        if name in d:
            return d[name]
        raise AttributeError(name)

    def __getitem__(self, k):
        return self._d[k]

    def __eq__(self, o):
        return isinstance(o, DRec) and o._d == self._d

    def __hash__(self):
        return hash(tuple(self._d))

    def __bool__(self):
        return bool(self._d)


class _WrapDicts(ast.NodeTransformer):
    def visit_Dict(self, node):
        self.generic_visit(node)
        return ast.Call(func=ast.Name(id="_drec", ctx=ast.Load()), args=[node], keywords=[])


def canon(v: Any) -> Any:
    if isinstance(v, DRec):
        return ("dict", tuple((k, canon(x)) for k, x in v._d.items()))
    if isinstance(v, bool):
        return ("b", v)
    if isinstance(v, int):
        return ("i", v)
    if isinstance(v, Seq):
        return ("seq", tuple(canon(x) for x in v))
    if isinstance(v, (list, tuple)):
        return ("seq" if isinstance(v, list) else "tup", tuple(canon(x) for x in v))
    if isinstance(v, dict):
        return ("dict", tuple((k, canon(x)) for k, x in v.items()))
    if isinstance(v, Rec):
        return ("rec", v.ident)
    return ("other", type(v).__name__)


def pyeval(e: ast.AST, ds: Seq, extra: Optional[Dict[str, Any]] = None):
    """Evaluate a query with CPython (scoping, closures, keyword binding are Python's own).
    -> ("ok", canonical value) | ("err", exception class name)"""
    try:
        compile(ast.fix_missing_locations(ast.Expression(body=copy.deepcopy(e))), "<query>", "eval")
        code = compile(ast.fix_missing_locations(ast.Expression(body=_WrapDicts().visit(copy.deepcopy(e)))), "<query>", "eval")
    except Exception as ex:  # noqa
        return "uncompilable", type(ex).__name__
    env = _ops_env()
    env["ds"] = ds
    env["_drec"] = DRec
    if extra:
        env.update(extra)
    try:
        return "ok", canon(eval(code, env))
    except RecursionError:
        return "err", "RecursionError"
    except Exception as ex:  # noqa
        return "err", type(ex).__name__


def free_names(e: ast.AST) -> set:
    """Free variable names of an expression (lambda parameters and comprehension targets bind)."""
    out = set()

    def go(n, bound):
        if isinstance(n, ast.Name):
            if n.id not in bound:
                out.add(n.id)
        elif isinstance(n, ast.Lambda):
            ps = {a.arg for a in n.args.args}
            go(n.body, bound | ps)
        elif isinstance(n, (ast.ListComp, ast.GeneratorExp)):
            b = set(bound)
            for g in n.generators:
                go(g.iter, b)
                b = b | {t.id for t in ast.walk(g.target) if isinstance(t, ast.Name)}
                for c in g.ifs:
                    go(c, b)
            go(n.elt, b)
        elif isinstance(n, ast.AST):
            for c in ast.iter_child_nodes(n):
                go(c, bound)

    go(e, frozenset())
    return out


# ---------------------------------------------------------------- typed query generator

INT, BOOL, REC = "int", "bool", "rec"


def SEQ(t):
    return ("seq", t)


def TUP(ts, kind="tuple"):
    return ("tup", tuple(ts), kind)


def DCT(items):
    return ("dict", tuple(items))


class QueryGen:
    """Random well-scoped, type-correct queries over Select/Where/SelectMany/First/Count in function and
    method form, nested lambdas, called lambdas, tuple/list/dict construction and constant projection,
    arithmetic/boolean/conditional expressions, method calls with arguments.

    naming: 'hygienic' - an inner binder never re-uses a name that is in scope (siblings may share);
            'any'      - binders drawn freely from a small pool (shadowing of live names happens);
            'same'     - every binder is called x.
    """

    POOL = ["x", "y", "e", "j", "t"]

    def __init__(self, rng: random.Random, naming: str = "hygienic", method_form: float = 0.25,
                 kw_calls: bool = False, packaging: float = 1.0):
        self.r = rng
        self.naming = naming
        self.method_form = method_form
        self.kw_calls = kw_calls
        self.packaging = packaging
        self.fresh = 0

    # -- binders
    def binder(self, env) -> str:
        r = self.r
        if self.naming == "same":
            return "x"
        if self.naming == "any":
            return r.choice(self.POOL)
        inscope = {n for n, _ in env}
        cand = [p for p in self.POOL if p not in inscope]
        if cand and r.random() < 0.8:
            return r.choice(cand)
        self.fresh += 1
        return "v%d" % self.fresh

    def vars_of(self, env, t):
        seen = set()
        out = []
        for n, ty in reversed(env):       # innermost binding of a name wins
            if n in seen:
                continue
            seen.add(n)
            if ty == t:
                out.append(n)
        return out

    def op(self, name, src, f):
        if self.r.random() < self.method_form:
            return mcall(src, name, f)
        return fcall(name, src, f)

    # -- expressions of a requested type
    def expr(self, t, env, d) -> ast.expr:
        r = self.r
        vs = self.vars_of(env, t)
        if d <= 0:
            return self.leaf(t, env, vs)
        if vs and r.random() < 0.25:
            return N(r.choice(vs))
        # generic constructions available at every type
        k = r.random()
        if k < 0.08:
            return self.called_lambda(t, env, d)
        if k < 0.13:
            return ast.IfExp(test=self.expr(BOOL, env, d - 1), body=self.expr(t, env, d - 1), orelse=self.expr(t, env, d - 1))
        if k < 0.13 + 0.12 * self.packaging:
            return self.projection(t, env, d)
        if t == INT:
            return self.int_expr(env, d)
        if t == BOOL:
            return self.bool_expr(env, d)
        if t == REC:
            return self.rec_expr(env, d)
        if t[0] == "seq":
            return self.seq_expr(t[1], env, d)
        if t[0] == "tup":
            es = [self.expr(ti, env, d - 1) for ti in t[1]]
            return gen.tup(*es) if t[2] == "tuple" else gen.lst(*es)
        if t[0] == "dict":
            items = [(C(k), self.expr(ti, env, d - 1)) for k, ti in t[1]]
            if self.r.random() < 0.15:
                # a computed key that may coincide with a constant one: entries before it can no longer be projected
                k, ti = self.r.choice(t[1])
                ck = ast.IfExp(test=self.leaf(BOOL, env, self.vars_of(env, BOOL)), body=C(k), orelse=C("zz"))
                items.insert(self.r.randrange(len(items) + 1), (ck, self.expr(ti, env, d - 1)))
            recs = self.vars_of(env, REC)
            if recs and self.r.random() < 0.12:
                # a spread mapping: it may redefine every key written before it
                items.insert(self.r.randrange(len(items) + 1), (None, A(N(self.r.choice(recs)), "d")))
            return gen.dct(items)
        raise ValueError(t)

    def leaf(self, t, env, vs):
        r = self.r
        if vs and r.random() < 0.8:
            return N(r.choice(vs))
        if t == INT:
            recs = self.vars_of(env, REC)
            if recs and r.random() < 0.6:
                return A(N(r.choice(recs)), r.choice(["a", "b", "met", "pt"]))
            return C(r.randrange(0, 4))
        if t == BOOL:
            return gen.cmp(r.choice([ast.Lt, ast.Gt, ast.Eq]), self.leaf(INT, env, self.vars_of(env, INT)), C(r.randrange(0, 3)))
        if t == REC:
            recs = self.vars_of(env, REC)
            if recs:
                return N(r.choice(recs))
            return fcall("First", N("ds"))
        if t[0] == "seq":
            if t[1] == REC:
                recs = self.vars_of(env, REC)
                if recs and r.random() < 0.7:
                    return A(N(r.choice(recs)), r.choice(["jets", "trk"]))
                return N("ds")
            src_t = REC
            p = self.binder(env)
            return fcall("Select", self.leaf(SEQ(REC), env, self.vars_of(env, SEQ(REC))),
                         lam(p, self.leaf(t[1], env + [(p, src_t)], [] if t[1] != REC else [p])))
        if t[0] == "tup":
            es = [self.leaf(ti, env, self.vars_of(env, ti)) for ti in t[1]]
            return gen.tup(*es) if t[2] == "tuple" else gen.lst(*es)
        if t[0] == "dict":
            return gen.dct([(C(k), self.leaf(ti, env, self.vars_of(env, ti))) for k, ti in t[1]])
        raise ValueError(t)

    def rand_type(self, d, allow_seq=True):
        r = self.r
        k = r.random()
        if d <= 0 or k < 0.35:
            return r.choice([INT, INT, REC, BOOL])
        if k < 0.5 and allow_seq:
            return SEQ(r.choice([INT, REC]))
        if k < 0.8:
            return TUP([self.rand_type(d - 1) for _ in range(r.randrange(1, 4))], r.choice(["tuple", "tuple", "list"]))
        keys = r.sample(["a", "k", "c", "pt"], r.randrange(1, 3))
        return DCT([(kk, self.rand_type(d - 1)) for kk in keys])

    def called_lambda(self, t, env, d):
        r = self.r
        n = r.choice([0, 1, 1, 1, 2, 2])      # zero-parameter lambdas too: (lambda: body)()
        ps, tys = [], []
        e2 = list(env)
        for _ in range(n):
            p = self.binder(e2)
            while p in ps:
                self.fresh += 1
                p = "v%d" % self.fresh
            ty = self.rand_type(1)
            ps.append(p)
            tys.append(ty)
            e2.append((p, ty))
        body = self.expr(t, e2, d - 1)
        args = [self.expr(ty, env, d - 1) for ty in tys]
        if self.kw_calls and n > 0 and r.random() < 0.4:
            # bind some (suffix of the) parameters by keyword, in shuffled order
            k = r.randrange(0, n)
            kws = list(zip(ps[k:], args[k:]))
            r.shuffle(kws)
            return call(lam(ps, body), args[:k], kws)
        return call(lam(ps, body), args)

    def projection(self, t, env, d):
        """a literal package (or a packaged value reached through First/variable) taken apart with a constant"""
        r = self.r
        k = r.random()
        if k < 0.45:
            n = r.randrange(1, 4)
            i = r.randrange(n)
            ts = [self.rand_type(0) for _ in range(n)]
            ts[i] = t
            pk = self.expr(TUP(ts, r.choice(["tuple", "list"])), env, d - 1)
            return gen.sub(pk, C(i))
        if k < 0.8:
            keys = r.sample(["a", "k", "c", "pt"], r.randrange(1, 3))
            kk = r.choice(keys)
            dt = DCT([(x, t if x == kk else self.rand_type(0)) for x in keys])
            pk = self.expr(dt, env, d - 1)
            return A(pk, kk) if r.random() < 0.5 else gen.sub(pk, C(kk))
        # First of a sequence of the requested type
        return self.first(self.expr(SEQ(t), env, d - 1))

    def first(self, s):
        return mcall(s, "First") if self.r.random() < self.method_form else fcall("First", s)

    def int_expr(self, env, d):
        r = self.r
        k = r.randrange(7)
        if k == 0:
            return gen.binop(r.choice([ast.Add, ast.Sub, ast.Mult]), self.expr(INT, env, d - 1), self.expr(INT, env, d - 1))
        if k == 1:
            return A(self.expr(REC, env, d - 1), r.choice(["a", "b", "met", "pt"]))
        if k == 2:
            s = self.expr(SEQ(r.choice([INT, REC])), env, d - 1)
            return fcall(r.choice(["Count", "len"]), s) if r.random() < 0.7 else mcall(s, "Count")
        if k == 3:
            rec = self.expr(REC, env, d - 1)
            args = [self.expr(INT, env, d - 2) for _ in range(r.randrange(0, 2))]
            kws = [("k", self.expr(INT, env, d - 2))] if r.random() < 0.3 else []
            return call(A(rec, "m"), args, kws)
        if k == 4:
            return self.first(self.expr(SEQ(INT), env, d - 1))
        if k == 5:
            return ast.UnaryOp(op=ast.USub(), operand=self.expr(INT, env, d - 1))
        return self.leaf(INT, env, self.vars_of(env, INT))

    def bool_expr(self, env, d):
        r = self.r
        k = r.randrange(5)
        if k == 0:
            return ast.BoolOp(op=r.choice([ast.And, ast.Or])(), values=[self.expr(BOOL, env, d - 1) for _ in range(2)])
        if k == 1:
            return ast.UnaryOp(op=ast.Not(), operand=self.expr(BOOL, env, d - 1))
        if k == 2:
            return C(True) if r.random() < 0.7 else C(False)
        return gen.cmp(r.choice([ast.Lt, ast.Gt, ast.Eq, ast.NotEq, ast.LtE, ast.GtE]),
                       self.expr(INT, env, d - 1), self.expr(INT, env, d - 1))

    def rec_expr(self, env, d):
        return self.first(self.expr(SEQ(REC), env, d - 1))

    def seq_expr(self, elt, env, d):
        r = self.r
        k = r.randrange(10)
        if k < 4:       # Select from any source element type
            st = r.choice([REC, REC, INT, self.rand_type(1, allow_seq=False)])
            src = self.expr(SEQ(st), env, d - 1)
            p = self.binder(env)
            return self.op("Select", src, lam(p, self.expr(elt, env + [(p, st)], d - 1)))
        if k < 7:
            src = self.expr(SEQ(elt), env, d - 1)
            p = self.binder(env)
            return self.op("Where", src, lam(p, self.expr(BOOL, env + [(p, elt)], d - 1)))
        if k < 9:
            st = r.choice([REC, REC, self.rand_type(1, allow_seq=False)])
            src = self.expr(SEQ(st), env, d - 1)
            p = self.binder(env)
            return self.op("SelectMany", src, lam(p, self.expr(SEQ(elt), env + [(p, st)], d - 1)))
        return self.leaf(SEQ(elt), env, self.vars_of(env, SEQ(elt)))

    def query(self, d: int) -> ast.expr:
        """A closed query over the dataset name ``ds``."""
        t = self.r.choice([SEQ(INT), SEQ(REC), SEQ(self.rand_type(1, allow_seq=False)), INT, SEQ(INT)])
        return self.expr(t, [("ds", SEQ(REC))], d)


def parse(src: str) -> ast.expr:
    return ast.parse(src, mode="eval").body


def has_raw(e: Any) -> bool:
    """A raw Python value sitting where a node is required (malformed tree)."""
    if not isinstance(e, ast.AST):
        return True
    for f, v in ast.iter_fields(e):
        if f in ("ctx",):
            continue
        if isinstance(v, ast.AST):
            if has_raw(v):
                return True
        elif isinstance(v, list):
            for x in v:
                if isinstance(x, ast.AST):
                    if has_raw(x):
                        return True
                elif type(e) not in (ast.Global, ast.Nonlocal):
                    return True
        elif isinstance(e, ast.Subscript) and f == "slice":
            return True
    return False

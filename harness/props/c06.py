"""C06 - comprehension and data-class sugar lowers to equivalent queries."""
from __future__ import annotations

import ast
import collections
import copy
import dataclasses
import inspect
import itertools

import bridge
import gen
import sugar_pyref as ref
from gen import A, C, N, call, fcall, lam, mcall

ID = "C06"
TAG = "sugar"
EXTRACT = "FA/Extract/ExtractSugar.v"
DRIVER = "driver_sugar.ml"
COQ_FILES = ["FA/Proofs/SugarFacts.v", "FA/Proofs/SugarBind.v", "FA/Proofs/SugarCong.v",
             "FA/Proofs/SugarSem.v", "FA/Properties/C06.v"]
ALLOWED_AXIOMS = []

LEVEL = ("Coq theorems over the executable model `sugar` (Model/Sugar.v) of resolve_syntatic_sugar: sugar_sem "
         "(for every backend, environment and tree: whenever the original evaluates, the lowered Where*/Select chain "
         "evaluates to the same value; comprehension semantics = Python's: iterable in the outer scope, target local, "
         "ifs left to right with short circuit), sugar_complete (no comprehension node left), dataclass_binds "
         "(convert_call_to_dict = independently written positional-then-keyword binding spec, same bindings or both "
         "refuse), sugar_refuses (non-name target / async => ValueError), sugar_total (no crash on trees whose "
         "generators are comprehension nodes).  The model describes the code WITH fixes/F17.diff applied; "
         "dataclass_binds_pinned_refuted proves the pinned commit violates the binding clause.  Model tied to the "
         "code by exact differential comparison; bind_spec itself is compared with inspect.Signature.bind_partial.")
TRUSTED = ["Coq 8.16.1 kernel (coqc); no axioms (Print Assumptions: closed under the global context)",
           "Base/Eval.v as the meaning of comprehensions and of method-form Select/Where (comp_sem, apply_op)",
           "extraction: ExtrOcamlBasic + ExtrOcamlNativeString; ocaml/sx.ml + ocaml/driver_sugar.ml",
           "harness/bridge.py ast<->expr encoding (obj_kind gives the field names from the same two sources the code "
           "reads: inspect.signature parameters for dataclasses, _fields for NamedTuples)",
           "the meaning given to comprehensions by Base/Eval.v is itself compared with CPython on every evaluable case "
           "of the run (extracted eval vs CPython on the original tree, and eval of the model's lowered tree)",
           "harness/props/c06.py generators/oracles; harness/props/sugar_pyref.py (CPython eval of the original, "
           "own tree-walking interpreter for the lowered query)"]
ASSUME = ["ops contains \"Select\" and \"Where\" (the lowering emits method-form calls; hypothesis of sugar_sem)",
          "the Coq model sees a class as the list of its constructor parameter names, all positional-or-keyword; "
          "constructors with keyword-only parameters, InitVar, init=False fields or inherited fields are checked on the "
          "implementation against inspect.Signature.bind (oracle only, no theorem, no model comparison)",
          "the binding oracle is Signature.bind; only the refusal 'missing a required argument' is tolerated (then "
          "bind_partial): omitted fields are simply absent from the dictionary",
          "generator expressions are forced where they are created (the query language has no lazy values; late "
          "binding of a lazy generator consumed after its enclosing loop ended is outside the property)",
          "a callee Constant is a class: a Constant holding a dataclass/NamedTuple *instance* (bridge kind other:...) and "
          "generator slots holding statement nodes that happen to have a .target (ast.For, ast.NamedExpr) are outside "
          "the model and the generators",
          "error messages (which call ast.unparse on the node) are not modelled; exception classes are",
          "multi-for comprehensions are modelled and compared exactly but have no meaning in Base/Eval.v: the semantic "
          "theorem is about single-for comprehensions, as the property is"]
RULE = ("corpus (F17 witnesses, test-suite shapes), then every comprehension nest of the typed grammar to depth 2 and a "
        "seeded sample of depth 3 (ListComp/GeneratorExp x target fresh/colliding-with-global/colliding-with-outer-target "
        "x 0-3 ifs in two styles (one sensitive to clause order/short circuit) x nesting in element/iterable/condition "
        "position/inside an operator lambda x three top-level wrappers incl. function- and method-form operator lambdas), "
        "every depth-1/2 nest over targets whose spelling contains or is contained in another name in scope (jet/j, x2/x, "
        "n1/n, x/xs) with bare-name elements equal to and different from the loop variable, "
        "every field list over {x,y,z} of length <=3 x dataclass/NamedTuple x 0-4 positionals x every keyword sequence "
        "over {x,y,z,w} up to length 2 (3 in thorough) plus starred/**kw variants, an ORACLE-ONLY pool of constructors "
        "outside the model's domain (kw_only fields in every position, inheritance adding positional/kw-only fields, InitVar, "
        "field(init=False), KW_ONLY sentinel, defaults, NamedTuple defaults/subclass) x 0-4 positionals x keyword sequences "
        "up to length 2, judged by inspect.Signature.bind only, a malformed stream (tuple/attribute "
        "targets, async, 0/2/3 for-clauses, non-comprehension generators, raw values, non-class constants as callee) and "
        "seeded random mixtures; a case is non-trivial when it contains a comprehension or a class-constant call; "
        "distinct by ast.dump")


# ---------------------------------------------------------------- implementation under test

def impl(e: ast.AST):
    from func_adl.ast.syntatic_sugar import resolve_syntatic_sugar

    try:
        return ("ok", resolve_syntatic_sugar(copy.deepcopy(e)))
    except ValueError:
        return ("exc", "ValueError")
    except Exception as ex:  # noqa
        return ("exc", "Crash:" + type(ex).__name__)


def impl_line(r) -> str:
    st, out = r
    if st == "ok":
        return "OK " + bridge.to_sx(out)
    return "EXC " + ("ValueError" if out == "ValueError" else "Crash")


def model_line(ans: str) -> str:
    if ans.startswith("EXC ValueError"):
        return "EXC ValueError"
    if ans.startswith("EXC Crash"):
        return "EXC Crash"
    return ans


# ---------------------------------------------------------------- classes used as constants

FIELD_LISTS = [p for k in range(0, 4) for p in itertools.permutations(("x", "y", "z"), k)]


def _mk_dc(fields, ndef):
    spec = []
    for i, f in enumerate(fields):
        if i >= len(fields) - ndef:
            spec.append((f, int, dataclasses.field(default=0)))
        else:
            spec.append((f, int))
    # classes without defaults all carry the SAME qualified name: a notebook cell that is re-run, or a factory, defines many
    # different classes under one name, and nothing about a class may be remembered under its name
    return dataclasses.make_dataclass("DC_" + "".join(fields) + "_%d" % ndef if ndef else "DC_Record", spec)


def _mk_nt(fields, ndef):
    return collections.namedtuple("NT_" + "".join(fields) + "_%d" % ndef if ndef else "NT_Record", list(fields), defaults=[0] * ndef)


CLASSES = {}
for _f in FIELD_LISTS:
    for _nd in sorted({0, min(1, len(_f))}):
        CLASSES[("dc", _f, _nd)] = _mk_dc(_f, _nd)
        CLASSES[("nt", _f, _nd)] = _mk_nt(_f, _nd)


class Plain:
    def __init__(self, x=0):
        self.x = x


# ---- oracle-only pool: constructors whose parameters are NOT all positional-or-keyword in declaration order.
# Outside the Coq model's domain (the model sees a class as its list of parameter names); these cases are run
# against the implementation with inspect.Signature.bind as the oracle, and are not compared with the model.

def _np_classes():
    from dataclasses import InitVar, KW_ONLY, dataclass, field
    import typing

    out = []
    # keyword-only fields in every position of every field list x / x,y / x,y,z
    for k in (1, 2, 3):
        names = ("x", "y", "z")[:k]
        for mask in range(1, 2 ** k):
            spec = [(f, int, field(kw_only=True)) if mask >> i & 1 else (f, int) for i, f in enumerate(names)]
            out.append(dataclasses.make_dataclass("KW_%s_%d" % ("".join(names), mask), spec))

    @dataclass
    class Tagged:                      # keyword-only field declared before positional ones
        tag: int = field(kw_only=True, default=0)
        a: int = 1
        b: int = 2

    @dataclass
    class BaseK:
        k: int = field(kw_only=True)

    @dataclass
    class SubOfK(BaseK):               # inherited keyword-only field, positional field added
        a: int

    @dataclass
    class BaseP:
        a: int

    @dataclass
    class SubPos(BaseP):               # inherited positional field, positional field added
        b: int

    @dataclass
    class SubKw(BaseP):                # inherited positional field, keyword-only field added
        k: int = field(kw_only=True, default=5)

    @dataclass
    class WithInitVar:                 # an InitVar parameter between two fields
        a: int
        scale: InitVar[int]
        b: int = 0

        def __post_init__(self, scale):
            pass

    @dataclass
    class NoInit:                      # a field that is not a constructor parameter
        a: int
        c: int = field(init=False, default=0)
        b: int = 1

    @dataclass
    class Sentinel:                    # KW_ONLY sentinel
        a: int
        _: KW_ONLY
        k: int
        m: int = 3

    @dataclass(kw_only=True)
    class AllKw:
        x: int
        y: int = 0

    @dataclass
    class AllDefaults:
        x: int = 0
        y: int = 1
        z: int = 2

    class NTd(typing.NamedTuple):
        x: int
        y: int = 0
        z: int = 1

    class NTsub(NTd):                  # subclass of a NamedTuple
        pass

    out += [Tagged, SubOfK, SubPos, SubKw, WithInitVar, NoInit, Sentinel, AllKw, AllDefaults, NTd, NTsub]
    return out


NP_CLASSES = _np_classes()


def np_call_cases():
    out = []
    for cls in NP_CLASSES:
        if dataclasses.is_dataclass(cls):
            names = [f.name for f in dataclasses.fields(cls)]
            names += [p for p in inspect.signature(cls).parameters if p not in names]
        else:
            names = list(cls._fields)
        keys = names + ["w"]
        for npos in range(0, 5):
            for nk in (0, 1, 2):
                for ks in itertools.product(keys, repeat=nk):
                    out.append(("dcall_np", mk_ccall(cls, npos, ks)))
    return out


CLASS_NAMES = {}
for _c in NP_CLASSES:
    CLASS_NAMES[id(_c)] = "__CLS__np__" + _c.__name__
for _k, _c in CLASSES.items():
    CLASS_NAMES[id(_c)] = "__CLS__%s__%s__%d" % (_k[0], "_".join(_k[1]), _k[2])
CLASS_NAMES[id(Plain)] = "__CLS__plain"
CLASS_BY_NAME = {v: c for c in list(CLASSES.values()) + [Plain] + NP_CLASSES for k, v in CLASS_NAMES.items() if k == id(c)}


def enc(e) -> str:
    """Replayable text of a case: ast.dump with class constants replaced by marker names."""
    class R(ast.NodeTransformer):
        def visit_Constant(self, n):
            if id(n.value) in CLASS_NAMES:
                return ast.Name(id=CLASS_NAMES[id(n.value)], ctx=ast.Load())
            return n
    return ast.dump(R().visit(copy.deepcopy(e))) if isinstance(e, ast.AST) else repr(e)


def dec(s: str):
    e = eval(s, dict(vars(ast)))

    class R(ast.NodeTransformer):
        def visit_Name(self, n):
            if n.id in CLASS_BY_NAME:
                return ast.Constant(value=CLASS_BY_NAME[n.id])
            return n
    return R().visit(e) if isinstance(e, ast.AST) else e


def is_class_const(n) -> bool:
    return isinstance(n, ast.Constant) and (dataclasses.is_dataclass(n.value) or hasattr(n.value, "_fields"))


# ---------------------------------------------------------------- comprehension grammar

LETTERS = ["a", "b", "c", "d"]


def mk_comp(kind, t, it, ifs, elt, is_async=0, target=None):
    g = ast.comprehension(target=target if target is not None else ast.Name(id=t, ctx=ast.Store()),
                          iter=it, ifs=list(ifs), is_async=is_async)
    return kind(elt=elt, generators=[g])


def _conds(t, style, nif):
    T = lambda: N(t)  # noqa
    if style == "A":
        pool = [gen.cmp(ast.Gt, T(), C(0)),
                gen.cmp(ast.Eq, gen.binop(ast.Mod, T(), C(2)), C(0)),
                gen.cmp(ast.Lt, T(), N("n"))]
    else:   # sensitive to the order of the clauses and to short circuit
        pool = [gen.cmp(ast.NotEq, T(), C(0)),
                gen.cmp(ast.Gt, gen.binop(ast.FloorDiv, C(12), T()), C(1)),
                gen.cmp(ast.NotEq, T(), N("x"))]
    return pool[:nif]


IF_SHAPES = [(0, "A"), (1, "A"), (2, "A"), (2, "B"), (3, "A"), (3, "B")]
POSITIONS = ["elt", "iter", "cond", "lam"]
KINDS = [ast.ListComp, ast.GeneratorExp]


def _targets(outer):
    ts = [LETTERS[len(outer) % len(LETTERS)], "x"]
    if outer and outer[-1] not in ts:
        ts.append(outer[-1])
    return ts


def _plain_elt(t, outer):
    other = outer[-1] if outer else "n"
    return gen.binop(ast.Add, N(t), N(other))


def build_comp(kind, t, shape, pos, sub, outer, base, elt_override=None):
    """One comprehension over `base` (an expression for the iterable) with the nested comprehension
    `sub` (or None) placed at position `pos`."""
    nif, style = shape
    ifs = _conds(t, style, nif)
    it = base
    elt = elt_override if elt_override is not None else _plain_elt(t, outer)
    if sub is not None:
        if pos == "elt":
            elt = sub
        elif pos == "iter":
            it = sub
        elif pos == "cond":
            c = gen.cmp(ast.GtE, fcall("sum" if isinstance(sub, ast.GeneratorExp) else "len", sub), C(1))
            ifs = (ifs[:-1] + [c]) if ifs else [c]
        elif pos == "lam":
            elt = mcall(N("ys"), "Select", lam("q", sub))
    return mk_comp(kind, t, it, ifs, elt)


def enum_comps(depth, outer, base_name="xs"):
    """All nests of exactly/at most `depth` levels (generator)."""
    for kind in KINDS:
        for t in _targets(outer):
            for shape in IF_SHAPES:
                yield build_comp(kind, t, shape, None, None, outer, N(base_name))
                if depth <= 1:
                    continue
                for pos in POSITIONS:
                    inner_outer = outer if pos == "iter" else outer + [t] + (["q"] if pos == "lam" else [])
                    inner_base = "xs" if pos == "iter" else "ys"
                    for sub in enum_comps(depth - 1, inner_outer, inner_base):
                        yield build_comp(kind, t, shape, pos, sub, outer, N(base_name))


# names in a substring relation with the globals x, n, xs and with each other
NAME_POOL = ["j", "jet", "x", "x2", "n1"]


def name_cases():
    """Targets whose spelling contains / is contained in another name in scope, and elements that are a bare
    name - the loop variable itself or a *different* name - with and without `if` clauses (exhaustive)."""
    out = []
    for kind in KINDS:
        for t in NAME_POOL + ["a"]:
            for nif, style in IF_SHAPES:
                elts = [N(t), N("n"), gen.binop(ast.Add, N(t), N("n"))] + ([N("x")] if t != "x" else [])
                for elt in elts:
                    out.append(mk_comp(kind, t, N("xs"), _conds(t, style, nif), elt))
    # constant conditions: a falsy constant of any type filters everything out, a truthy one nothing
    for kind in KINDS:
        for k in (0, 1, True, False, None, "", "a", 0.0, 2.5, b"", -1):
            for t in ("j", "x"):
                real = gen.cmp(ast.Gt, N(t), C(0))
                for ifs in ([ast.Constant(value=k)], [ast.Constant(value=k), real], [copy.deepcopy(real), ast.Constant(value=k)]):
                    for elt in (N(t), gen.binop(ast.Add, N(t), N("n"))):
                        out.append(mk_comp(kind, t, N("xs"), copy.deepcopy(ifs), elt))
    pool = ["j", "jet", "x", "x2"]
    for kind in KINDS:
        for o in pool:
            for i in pool:
                for inner_ifs in ([gen.cmp(ast.Gt, N(i), N(o))], _conds(i, "B", 2)):
                    seen = set()
                    for elt in [N(i), N(o), N("x"), N("n"), gen.binop(ast.Add, N(i), N(o))]:
                        if ast.dump(elt) in seen:
                            continue
                        seen.add(ast.dump(elt))
                        inner = mk_comp(kind, i, N("ys"), copy.deepcopy(inner_ifs), elt)
                        for outer_ifs in ([], [gen.cmp(ast.Gt, N(o), C(0))]):
                            out.append(mk_comp(kind, o, N("xs"), outer_ifs, copy.deepcopy(inner)))
    return out


def rand_comp(r, depth, outer, base_name="xs"):
    kind = r.choice(KINDS)
    ts = _targets(outer)
    if r.random() < 0.3:
        ts = ["x2", "n1"] + ([outer[-1] + "2", outer[-1][:1]] if outer else [])
    t = r.choice(ts)
    shape = r.choice(IF_SHAPES)
    elt_override = None
    u = r.random()
    if u < 0.2:
        elt_override = N(t)
    elif u < 0.4:
        elt_override = N(r.choice(outer + ["x", "n"]))
    if depth <= 1 or r.random() < 0.1:
        return build_comp(kind, t, shape, None, None, outer, N(base_name), elt_override)
    pos = r.choice(POSITIONS)
    inner_outer = outer if pos == "iter" else outer + [t] + (["q"] if pos == "lam" else [])
    sub = rand_comp(r, depth - 1, inner_outer, "xs" if pos == "iter" else "ys")
    return build_comp(kind, t, shape, pos, sub, outer, N(base_name), elt_override)


def wrap(e_factory, w):
    """Top-level wrappers: bare; inside a method-form operator lambda; inside a function-form one."""
    if w == 0:
        return e_factory([], "xs")
    if w == 1:
        return mcall(N("zs"), "Select", lam("r", e_factory(["r0"], "r")))
    return fcall("Select", N("zs"), lam("r", e_factory(["r0"], "r")))


DATASETS = [
    dict(xs=[], ys=[], zs=[], n=1, x=2, r0=0),
    dict(xs=[1, 2, 3], ys=[0, 1, 5], zs=[[1], [2, 3], []], n=2, x=1, r0=1),
    dict(xs=[-2, 0, 5, 7, 0], ys=[3, -1], zs=[[0, 4], [7]], n=5, x=-1, r0=-3),
    dict(xs=[4, 4, 12], ys=[6, 12, 1, 2], zs=[[], []], n=0, x=12, r0=2),
]


def _seqify(v):
    if isinstance(v, list):
        return ref.Seq([_seqify(x) for x in v])
    return v


def dataset_env(d):
    env = {k: _seqify(v) for k, v in d.items()}
    env["e"] = ref.Rec(**{("p%d" % i): 10 + i for i in range(5)}, **{("k%d" % i): 20 + i for i in range(4)},
                       jets=ref.Seq([1, 2, 3]))
    return env


# ---------------------------------------------------------------- constructor-call grammar

def call_shapes(max_kw):
    keys = ["x", "y", "z", "w"]
    for npos in range(0, 5):
        for nk in range(0, max_kw + 1):
            for ks in itertools.product(keys, repeat=nk):
                yield npos, ks


def mk_ccall(cls, npos, ks, star_at=None, dstar_at=None):
    args = [A(N("e"), "p%d" % i) for i in range(npos)]
    if star_at is not None and args:
        i = star_at % len(args)
        args[i] = ast.Starred(value=args[i], ctx=ast.Load())
    kws = [ast.keyword(arg=k, value=A(N("e"), "k%d" % j)) for j, k in enumerate(ks)]
    if dstar_at is not None:
        kws.insert(dstar_at % (len(kws) + 1), ast.keyword(arg=None, value=A(N("e"), "kw")))
    return ast.Call(func=ast.Constant(value=cls), args=args, keywords=kws)


def bind_oracle(e: ast.Call):
    """What Python's constructor binding does with this call: ('ok', [(name, value_dump)...]) in
    parameter order, ('raise', msg), or ('dynamic', None) for *args / **kw."""
    cls = e.func.value
    if any(isinstance(a, ast.Starred) for a in e.args):
        # Python binds a starred argument by the length of the sequence, at run time: no field it could be bound to statically.
        # The lowering must refuse (F58) - it used to bind the Starred node to ONE field ({'x': *vals})
        return ("raise", "a starred argument cannot be bound to a field statically")
    if any(k.arg is None for k in e.keywords):
        return ("dynamic", None)
    names = [k.arg for k in e.keywords]
    if len(set(names)) != len(names):
        return ("raise", "keyword argument repeated")
    sig = inspect.signature(cls)
    kw = {k.arg: k.value for k in e.keywords}
    try:
        ba = sig.bind(*e.args, **kw)
    except TypeError as ex:
        if not str(ex).startswith("missing a required"):
            return ("raise", str(ex))
        # only omitted required parameters are tolerated (the property speaks of the arguments given);
        # every other refusal of Python's (surplus positional - also positional given to a keyword-only
        # parameter -, unknown or repeated keyword) must be a ValueError of the library
        try:
            ba = sig.bind_partial(*e.args, **kw)
        except TypeError as ex2:
            return ("raise", str(ex2))
    return ("ok", [(k, v) for k, v in ba.arguments.items()])


# ---------------------------------------------------------------- python-side predicates (mirror SugarSpec.v)

def py_preds(e):
    single, nocomp, gensok, bad = True, True, True, False
    in_gen = set()
    for n in ast.walk(e) if isinstance(e, ast.AST) else []:
        if isinstance(n, (ast.ListComp, ast.GeneratorExp)):
            nocomp = False
            gs = n.generators
            if not (len(gs) == 1 and isinstance(gs[0], ast.comprehension)):
                single = False
            for g in gs:
                if isinstance(g, ast.comprehension):
                    in_gen.add(id(g))
                    if not isinstance(g.target, ast.Name) or g.is_async:
                        bad = True
                else:
                    gensok = False
    for n in ast.walk(e) if isinstance(e, ast.AST) else []:
        if isinstance(n, ast.comprehension):
            nocomp = False
            if id(n) not in in_gen:
                single = False
    return single, nocomp, gensok, bad


def has_raw(e) -> bool:
    return "(Raw " in bridge.to_sx(e)


def unparsable(e) -> bool:
    try:
        ast.unparse(copy.deepcopy(e))
        return False
    except Exception:  # noqa
        return True


# ---------------------------------------------------------------- case streams

def corpus():
    out = []
    DC2 = CLASSES[("dc", ("x", "y"), 0)]
    NT2 = CLASSES[("nt", ("x", "y"), 0)]
    DC2d = CLASSES[("dc", ("x", "y"), 1)]
    # F17 witnesses first (stable keys)
    out.append(("dcall", ast.Call(func=C(DC2), args=[A(N("e"), "a")], keywords=[ast.keyword(arg="x", value=A(N("e"), "b"))])))
    out.append(("dcall", ast.Call(func=C(NT2), args=[A(N("e"), "a")], keywords=[ast.keyword(arg="x", value=A(N("e"), "b"))])))
    out.append(("dcall", ast.Call(func=C(DC2), args=[], keywords=[ast.keyword(arg="x", value=C(1)), ast.keyword(arg="x", value=C(2))])))
    out.append(("dcall", ast.Call(func=C(DC2d), args=[A(N("e"), "a")], keywords=[])))
    for src in ["[j.pt() for j in jets]", "(j.pt() for j in jets)", "[j.pt() for j in jets if j.pt() > 100]",
                "[j.pt() for j in jets if j.pt() > 100 if abs(j.eta()) < 2.4]",
                "[j.pt()+e.pt() for e in electrons for j in jets]",
                "[j.pt()+e.pt() for e in electrons if e.pt() > 10 for j in jets if j.pt() > 20 if j.eta() < 2]",
                "[a for (a, b) in xs]", "[a for a.b in xs]", "[a for a[0] in xs]", "[a for [a, b] in xs]",
                "[[b for b in a] for a in xs]", "[a for a in [b for b in xs if b] if a]",
                "[a for a in xs if [b for b in ys if b > a]]", "xs.Select(lambda x: [x + y for y in x.ys if y])",
                "[x for x in xs if x for x in x.ys if x]", "[lambda: a for a in xs]", "{a for a in xs}",
                "{a: 1 for a in xs}", "f(*[a for a in xs], **{'k': (b for b in ys)})"]:
        out.append(("src", ast.parse(src, mode="eval").body))
    for src in ["[[j for jet in ys if jet > j] for j in xs]", "[x for x2 in xs if x2 > 2]", "[jet for jet in xs if jet > 0]",
                "[n for n1 in xs if n1 != 0]", "(j for jet in ys if jet)"]:
        out.append(("sem", ast.parse(src, mode="eval").body))
    ag = ast.parse("[a for a in xs]", mode="eval").body
    ag.generators[0].is_async = 1
    out.append(("malformed", ag))
    return out


def malformed_cases(r, budget):
    out = []
    DC2 = CLASSES[("dc", ("x", "y"), 0)]
    base = list(enum_comps(1, [])) + [rand_comp(r, 2, []) for _ in range(40)]

    def all_gens(e):
        return [n for n in ast.walk(e) if isinstance(n, (ast.ListComp, ast.GeneratorExp))]

    def clause(g):
        c = g.generators[0]
        if not isinstance(c, ast.comprehension):     # never decorate a non-clause node with stray attributes
            raise TypeError
        return c

    muts = []
    muts.append(lambda g: setattr(clause(g), "target", gen.tup(N("a"), N("b"))))
    muts.append(lambda g: setattr(clause(g), "target", A(N("a"), "b")))
    muts.append(lambda g: setattr(clause(g), "target", gen.sub(N("a"), C(0))))
    muts.append(lambda g: setattr(clause(g), "target", ast.Starred(value=N("a"), ctx=ast.Store())))
    muts.append(lambda g: setattr(clause(g), "target", C(1)))
    muts.append(lambda g: setattr(clause(g), "target", ast.ListComp(elt=N("u"), generators=[ast.comprehension(target=N("u"), iter=N("ys"), ifs=[], is_async=0)])))
    muts.append(lambda g: setattr(clause(g), "is_async", 1))
    muts.append(lambda g: setattr(g, "generators", []))
    muts.append(lambda g: g.generators.append(ast.comprehension(target=N("m"), iter=N("ys"), ifs=[gen.cmp(ast.Gt, N("m"), C(1))], is_async=0)))
    muts.append(lambda g: g.generators.insert(0, ast.comprehension(target=N("m"), iter=N("zs"), ifs=[], is_async=0)))
    muts.append(lambda g: g.generators.extend([ast.comprehension(target=N("m"), iter=N("ys"), ifs=[], is_async=0),
                                               ast.comprehension(target=gen.tup(N("o"), N("p")), iter=N("ys"), ifs=[N("o")], is_async=0)]))
    muts.append(lambda g: g.generators.append(ast.comprehension(target=N("m"), iter=N("ys"), ifs=[], is_async=1)))
    muts.append(lambda g: setattr(g, "generators", [N("g")]))
    muts.append(lambda g: g.generators.append(C(3)))
    muts.append(lambda g: g.generators.insert(0, 7))
    muts.append(lambda g: g.generators.append(fcall("f", N("a"))))
    muts.append(lambda g: setattr(g, "elt", 5))
    muts.append(lambda g: setattr(clause(g), "iter", "raw"))
    muts.append(lambda g: clause(g).ifs.append(None))
    muts.append(lambda g: setattr(g, "elt", ast.Call(func=C(DC2), args=[C(1), C(2), C(3)], keywords=[])))
    muts.append(lambda g: setattr(g, "elt", ast.Call(func=C(DC2), args=[N("a")], keywords=[ast.keyword(arg="q", value=C(1))])))
    n = 0
    while n < budget:
        e = copy.deepcopy(base[n % len(base)] if n < len(base) * 2 else r.choice(base))
        gs = all_gens(e)
        k = 1 if r.random() < 0.7 else 2
        for _ in range(k):
            m = muts[n % len(muts)] if _ == 0 else r.choice(muts)
            try:
                m(r.choice(gs))
            except Exception:  # noqa  (mutation not applicable, e.g. no generator left)
                pass
        out.append(("malformed", e))
        n += 1
    # callee constants that are not dataclass / NamedTuple classes
    for v in [1, "s", None, Plain, int, 2.5]:
        out.append(("malformed", ast.Call(func=C(v), args=[N("a")], keywords=[ast.keyword(arg="x", value=N("b"))])))
    out.append(("malformed", ast.Call(func=C(DC2), args=[5], keywords=[])))
    out.append(("malformed", ast.Call(func=7, args=[N("a")], keywords=[])))
    return out


class SugarRandom(gen.RandomExpr):
    """Random query expressions with comprehensions and class-constant calls mixed in."""

    def __init__(self, rng):
        super().__init__(rng, names=["xs", "ys", "e", "n"], attrs=["jets", "pt", "x", "ys"],
                         funcs=["f", "len", "sum"], methods=["m", "pt", "Count"],
                         param_pool=("x", "y", "e", "j", "a"))

    def expr(self, depth, scope=None):
        scope = list(scope or [])
        r = self.r
        if depth > 0:
            u = r.random()
            if u < 0.22:
                return self.comp(depth - 1, scope)
            if u < 0.34:
                return self.ccall(depth - 1, scope)
        return super().expr(depth, scope)

    def comp(self, d, scope):
        r = self.r
        kind = r.choice(KINDS)
        ngen = 1 if r.random() < 0.85 else r.choice([0, 2, 3])
        gens = []
        sc = list(scope)
        for _ in range(ngen):
            u = r.random()
            if u < 0.9:
                t = r.choice(list(self.param_pool) + (sc[-1:] if sc else []))
                target = ast.Name(id=t, ctx=ast.Store())
            elif u < 0.96:
                t = "u"
                target = gen.tup(N("u"), N("v"))
            else:
                t = "u"
                target = A(N("u"), "v")
            it = self.expr(d, sc)
            sc = sc + [t]
            ifs = [self.expr(d, sc) for _ in range(r.choice([0, 0, 1, 1, 2, 3]))]
            gens.append(ast.comprehension(target=target, iter=it, ifs=ifs, is_async=1 if r.random() < 0.03 else 0))
        if r.random() < 0.02:
            gens.append(N("g"))
        return kind(elt=self.expr(d, sc), generators=gens)

    def ccall(self, d, scope):
        r = self.r
        key = r.choice(list(CLASSES))
        cls = CLASSES[key] if r.random() < 0.93 else r.choice([Plain, 3, "k"])
        args = [self.expr(d, scope) for _ in range(r.choice([0, 1, 1, 2, 2, 3]))]
        if args and r.random() < 0.05:
            args[-1] = ast.Starred(value=args[-1], ctx=ast.Load())
        kws = [ast.keyword(arg=r.choice(["x", "y", "z", "w"]), value=self.expr(d, scope))
               for _ in range(r.choice([0, 0, 1, 1, 2]))]
        if r.random() < 0.04:
            kws.append(ast.keyword(arg=None, value=N("kw")))
        return ast.Call(func=ast.Constant(value=cls), args=args, keywords=kws)


def sem_dc_cases(r, budget):
    """Comprehensions and constructor calls mixed, evaluable on the datasets."""
    out = []
    valid = []
    for (kind, fields, nd), cls in CLASSES.items():
        for npos in range(0, len(fields) + 1):
            rest = fields[npos:]
            for k in range(0, len(rest) + 1):
                for ks in itertools.permutations(rest, k):
                    if npos + k >= len(fields) - nd:      # required fields all given: CPython can build it
                        valid.append((cls, npos, ks))
    for _ in range(budget):
        cls, npos, ks = r.choice(valid)
        t = r.choice(["a", "x"])
        vals = [N(t), gen.binop(ast.Add, N(t), N("n")), gen.binop(ast.Mult, N(t), C(2)),
                mk_comp(r.choice(KINDS), "b", N("ys"), [gen.cmp(ast.Lt, N("b"), N(t))], gen.binop(ast.Sub, N("b"), N(t)))]
        args = [copy.deepcopy(r.choice(vals)) for _ in range(npos)]
        kws = [ast.keyword(arg=k, value=copy.deepcopy(r.choice(vals))) for k in ks]
        c = ast.Call(func=ast.Constant(value=cls), args=args, keywords=kws)
        shape = r.choice(IF_SHAPES)
        out.append(("sem", mk_comp(r.choice(KINDS), t, N("xs"), _conds(t, shape[1], shape[0]), c)))
    return out


def cases(ctx):
    r = ctx.rng
    out = list(corpus())
    # comprehension nests
    n2 = 0
    for w in (0, 1, 2):
        for e in enum_comps(2 if w == 0 else 1, ["r0"] if w else [], "r" if w else "xs"):
            n2 += 1
            if w == 0:
                out.append(("sem", e))
            elif w == 1:
                out.append(("sem", mcall(N("zs"), "Select", lam("r", e))))
            else:
                out.append(("sem", fcall("Select", N("zs"), lam("r", e))))
    ctx.notes.append("comprehension nests: depth<=2 bare and depth 1 under both operator-lambda wrappers, exhaustive: %d" % n2)
    nm = name_cases()
    out += [("sem", e) for e in nm]
    ctx.notes.append("names in a substring relation (jet/j, x2/x, n1/n, x/xs) as targets at depth 1 and 2, bare-name "
                     "elements equal to / different from the loop variable, exhaustive: %d" % len(nm))
    n3 = ctx.budget(1100, 30000)
    for _ in range(n3):
        w = r.choice([0, 0, 1, 2])
        out.append(("sem", wrap(lambda outer, base: rand_comp(r, 3, outer, base), w)))
    ctx.notes.append("depth-3 nests: seeded sample of %d out of 223512 per wrapper" % n3)
    # constructor calls
    max_kw = ctx.budget(2, 3)
    nd = 0
    for (kind, fields, ndef), cls in CLASSES.items():
        if ndef:
            continue
        for npos, ks in call_shapes(max_kw):
            out.append(("dcall", mk_ccall(cls, npos, ks)))
            nd += 1
    for (kind, fields, ndef), cls in CLASSES.items():
        for npos, ks in call_shapes(1):
            if ndef:
                out.append(("dcall", mk_ccall(cls, npos, ks)))
            out.append(("dcall", mk_ccall(cls, npos, ks, star_at=npos + len(ks))))
            out.append(("dcall", mk_ccall(cls, npos, ks, dstar_at=npos)))
            nd += 2
    ctx.notes.append("constructor calls: %d (all field lists <=3 x dataclass/NamedTuple x 0-4 positionals x keyword "
                     "sequences over x,y,z,w up to length %d; + starred / **kw / defaulted-field variants)" % (nd, max_kw))
    # the same constructor-call *node object* at two places of one tree, as helper inlining produces it when a helper
    # uses its parameter twice (f(P(e.a, y=e.b)) with def f(p): return p.x + p.y): the lowering must not depend on
    # having already lowered the node once
    shared = [e for tag, e in out if tag == "dcall" and isinstance(e, ast.Call) and e.keywords][:: 3]
    for e in shared:
        out.append(("shared", ast.Tuple(elts=[e, e], ctx=ast.Load())))
    ctx.notes.append("constructor-call nodes shared between two positions of one tree: %d" % len(shared))
    npc = np_call_cases()
    out += npc
    ctx.notes.append("oracle-only constructor pool (kw_only fields in every position, inheritance, InitVar, init=False, "
                     "KW_ONLY sentinel, defaults, NamedTuple defaults/subclass): %d classes, %d calls, not compared with the model"
                     % (len(NP_CLASSES), len(npc)))
    out += sem_dc_cases(r, ctx.budget(400, 6000))
    out += malformed_cases(r, ctx.budget(600, 9000))
    rg = SugarRandom(r)
    for _ in range(ctx.budget(1500, 30000)):
        out.append(("random", rg.expr(r.randrange(2, 5))))
    return out


# ---------------------------------------------------------------- oracles on the implementation

def oracle_bind(e: ast.Call, res):
    """inspect.Signature.bind_partial as the independent statement of constructor binding."""
    kind, want = bind_oracle(e)
    st, out = res
    if kind == "dynamic":
        return None
    if kind == "raise":
        if st == "exc" and out == "ValueError":
            return None
        return "Python's binding refuses this call (%s) but the lowering %s" % (
            want, ("returned " + bridge.dump(out)) if st == "ok" else "raised " + out)
    if st != "ok":
        return "Python binds %s but the lowering raised %s" % ([k for k, _ in want], out)
    if not isinstance(out, ast.Dict):
        return "lowering did not produce a dictionary: " + bridge.dump(out)
    got_keys = [k.value if isinstance(k, ast.Constant) else "?" for k in out.keys]
    want_keys = [k for k, _ in want]
    if got_keys != want_keys:
        return "keys %r, Python binds %r" % (got_keys, want_keys)
    for (k, v), gv in zip(want, out.values):
        st2, low = impl(v)
        if st2 != "ok" or ast.dump(low) != ast.dump(gv):
            return "field %s bound to %s, Python binds %s" % (k, bridge.dump(gv), bridge.dump(v))
    return None


SEM_CACHE = []      # (case, dataset index, CPython value or None when CPython raises)


def oracle_sem(ctx, e, res):
    """CPython on the original vs the reference interpreter on the lowered query."""
    st, out = res
    if st != "ok":
        return None
    n_eval = 0
    for di, d in enumerate(DATASETS):
        env = dataset_env(d)
        try:
            want = ref.norm(ref.cpython_eval(e, env))
        except Exception as ex:  # noqa   one-directional: only when the original evaluates
            ctx.count("semantic", "original raises")
            quirk = isinstance(ex, UnboundLocalError) or (isinstance(ex, NameError) and "free variable" in str(ex))
            SEM_CACHE.append((e, di, ("raise", "PEP709" if quirk else type(ex).__name__)))
            continue
        SEM_CACHE.append((e, di, ("v", want)))
        n_eval += 1
        try:
            got = ref.norm(ref.lowered_eval(out, dataset_env(d)))
        except ref.NotInLanguage as ex:
            return "lowered query is outside the query language (%s): %s" % (ex, bridge.dump(out))
        except Exception as ex:  # noqa
            return "on %r CPython gives %r, the lowered query raises %s" % (d, want, type(ex).__name__)
        ctx.count("semantic", "agree" if ref.rec_leq(got, want) else "differ")
        if not ref.rec_leq(got, want):
            return "on %r CPython gives %r, the lowered query gives %r" % (d, want, got)
    ctx.evaluations += n_eval
    return None


def check_case(ctx, tag, e, ans, pinned_ans=None, preds_ans=None):
    """Returns nothing; records failures."""
    d = enc(e)
    res = impl(e)
    st, out = res
    got = impl_line(res)
    single, nocomp, gensok, bad = py_preds(e)
    raw = has_raw(e)
    ctx.corr_cases += 1
    ctx.evaluations += 1
    ctx.count("stream", tag)
    ctx.count("impl_result", "ok" if st == "ok" else out)
    key = _key(e)
    problems = []
    # --- direct oracles
    if tag in ("dcall", "dcall_np"):
        p = oracle_bind(e, res)
        ctx.count("bind_oracle" if tag == "dcall" else "bind_oracle_nonplain", bind_oracle(e)[0])
        if p:
            problems.append(("bind", p))
    if tag == "shared":
        sep = impl(ast.Tuple(elts=[copy.deepcopy(x) for x in e.elts], ctx=ast.Load()))
        if impl_line(sep) != got:
            problems.append(("bind", "a constructor call lowered twice through one shared node gives %s, the same tree "
                             "with separate nodes gives %s" % (got[:160], impl_line(sep)[:160])))
    wf = gensok and not raw
    if st == "exc" and out != "ValueError" and wf and not unparsable(e):
        problems.append(("total", "crash %s on a well-formed tree" % out))
    if bad and wf and not (st == "exc" and out == "ValueError") and not unparsable(e):
        problems.append(("refuses", "a comprehension with a non-name target or async was not refused with ValueError: %s"
                         % (bridge.dump(out) if st == "ok" else out)))
    if st == "ok" and single and wf and not py_preds(out)[1]:
        problems.append(("complete", "a comprehension is left in the output: %s" % bridge.dump(out)))
    if tag == "sem" and not problems:
        p = oracle_sem(ctx, e, res)
        if p:
            problems.append(("semantic", p))
    if problems:
        name, p = problems[0]
        ctx.fail("failing-input", "resolve_syntatic_sugar(%s): %s" % (bridge.dump(e)[:300], p),
                 {"oracle": name, "expr_dump": d, "expr": bridge.dump(e), "tag": tag}, key=key)
    if tag == "dcall_np":      # outside the model's domain: oracle only
        ctx.corr_cases -= 1
        return
    # --- correspondence
    want = model_line(ans)
    if want != got:
        if st == "exc" and out != "ValueError" and want == "EXC ValueError" and unparsable(e):
            ctx.count("skipped", "message construction (ast.unparse) fails on a malformed tree")
            return
        ctx.corr_disagreements += 1
        if not problems:
            extra = ""
            if pinned_ans is not None and model_line(pinned_ans) == got:
                extra = " (the code agrees with the model of the pinned commit: fixes/F17.diff not applied?)"
            ctx.fail("no-failing-input-found",
                     "correspondence sugar (Model/Sugar.v) vs resolve_syntatic_sugar broke on %s: model %s, code %s%s"
                     % (bridge.dump(e)[:300], ans[:200], got[:200], extra),
                     {"correspondence": "sugar", "expr_dump": d, "model": ans, "impl": got, "tag": tag}, key=key)
    # --- the predicates the theorems are stated with agree with their Python reading
    if preds_ans is not None and not raw:
        mine = "OK " + "".join("1" if b else "0" for b in (single, nocomp, gensok, bad))
        if preds_ans != mine:
            ctx.fail("no-failing-input-found",
                     "predicates single_for/no_comp/gens_ok/has_bad_comp of SugarSpec.v disagree with their Python "
                     "reading on %s: coq %s, python %s" % (bridge.dump(e)[:200], preds_ans, mine),
                     {"correspondence": "preds", "expr_dump": d}, key=key + "p")


def _key(e):
    import core

    return core.digest({"p": ID, "e": enc(e)})


def spec_vs_python(ctx, calls):
    """bind_spec (the Coq specification, extracted) against inspect.Signature.bind_partial, and
    convert (model) against bind_spec, on every constructor call of the enumeration."""
    sx = [bridge.to_sx(e) for e in calls]
    spec = ctx.driver.call("bind_spec", [[s] for s in sx])
    conv = ctx.driver.call("convert", [[s] for s in sx])
    for e, sp, cv in zip(calls, spec, conv):
        ctx.evaluations += 1
        kind, want = bind_oracle(e)
        if kind == "dynamic" or any(isinstance(a, ast.Starred) for a in e.args):
            continue          # starred calls are refused before any binding (lower_call_with): not a statement about bind_spec
        if kind == "raise":
            ok = sp.startswith("EXC ValueError")
        else:
            exp = ast.Dict(keys=[C(k) for k, _ in want], values=[v for _, v in want])
            ok = sp == "OK " + bridge.to_sx(exp)
        if not ok:
            ctx.fail("no-failing-input-found",
                     "specification bind_spec (Model/SugarSpec.v) disagrees with inspect.Signature.bind_partial on %s: "
                     "spec %s, Python %s" % (bridge.dump(e), sp[:160], (kind, [k for k, _ in want] if want and kind == "ok" else want)),
                     {"correspondence": "bind_spec", "expr_dump": enc(e), "tag": "dcall"}, key=_key(e) + "s")
        if (sp.startswith("OK") or cv.startswith("OK")) and sp != cv or (sp[:3] != cv[:3]):
            ctx.fail("no-failing-input-found",
                     "extracted convert and bind_spec differ on %s (contradicts theorem dataclass_binds): %s vs %s"
                     % (bridge.dump(e), cv[:160], sp[:160]),
                     {"correspondence": "dataclass_binds", "expr_dump": enc(e), "tag": "dcall"}, key=_key(e) + "t")


def val_sx(v) -> str:
    if v is None:
        return "N"
    if isinstance(v, bool):
        return "(B %d)" % (1 if v else 0)
    if isinstance(v, int):
        return "(I %d)" % v
    if isinstance(v, str):
        return "(S %s)" % bridge.hx(v)
    if isinstance(v, list):
        return "(L" + "".join(" " + val_sx(x) for x in v) + ")"
    raise TypeError(v)


def val_py(x):
    """Coq value (parsed S-expression) in the comparable form of sugar_pyref.norm."""
    if x == "N":
        return None
    tag = x[0]
    if tag == "I":
        return int(x[1])
    if tag == "B":
        return x[1] == "1"
    if tag == "S":
        return bridge.unhx(x[1])
    if tag == "L":
        return [val_py(y) for y in x[1:]]
    if tag == "T":
        return ("tuple", [val_py(y) for y in x[1:]])
    return ("unsupported", tag)


def eval_crosscheck(ctx):
    """Three-way agreement on the evaluable cases: the reference semantics the theorems are stated in
    (Base/Eval.v, extracted) against CPython on the original tree, and the extracted model's lowered
    tree under the same semantics (what sugar_sem proves)."""
    if not SEM_CACHE:
        return
    envs = ["(" + " ".join("(%s %s)" % (bridge.hx(k), val_sx(v)) for k, v in d.items()) + ")" for d in DATASETS]
    sxs = {}
    rows = []
    for e, di, want in SEM_CACHE:
        if id(e) not in sxs:
            sxs[id(e)] = bridge.to_sx(e)
        rows.append([sxs[id(e)], envs[di]])
    a1 = ctx.driver.call("eval", rows)
    a2 = ctx.driver.call("evallow", rows)
    for (e, di, want), orig, low in zip(SEM_CACHE, a1, a2):
        ctx.evaluations += 1
        if orig.startswith("OK "):
            v = val_py(bridge.parse_sx(orig[3:]))
            if want[0] == "raise" and want[1] == "PEP709":
                # CPython >= 3.12 inlines comprehensions (PEP 709): a name that is a comprehension target *and* is read
                # from the enclosing/global scope inside the same lambda becomes an unbound local of the lambda in some
                # nestings.  An artefact of that implementation, not of the language the property speaks about.
                ctx.count("coq_eval", "CPython raises UnboundLocalError / NameError 'free variable' (PEP 709 inlining corner), "
                                      "Eval.v gives the enclosing-scope value")
                continue
            if want[0] == "raise" or not (ref.rec_leq(v, want[1]) and ref.rec_leq(want[1], v)):
                ctx.fail("no-failing-input-found",
                         "reference semantics Base/Eval.v (extracted) disagrees with CPython on %s over %r: eval %r, CPython %s"
                         % (bridge.dump(e)[:200], DATASETS[di], v, "raises " + want[1] if want[0] == "raise" else repr(want[1])),
                         {"correspondence": "eval", "expr_dump": enc(e), "dataset": di, "tag": "sem"}, key=_key(e) + "e")
                ctx.count("coq_eval", "DISAGREES with CPython")
                continue
            ctx.count("coq_eval", "agrees with CPython")
            if low != orig:
                ctx.fail("no-failing-input-found",
                         "extracted model contradicts theorem sugar_sem on %s over %r: eval(original) = %s, eval(sugar original) = %s"
                         % (bridge.dump(e)[:200], DATASETS[di], orig[:80], low[:80]),
                         {"correspondence": "sugar_sem", "expr_dump": enc(e), "dataset": di, "tag": "sem"}, key=_key(e) + "l")
        else:
            ctx.count("coq_eval", "no value in Eval.v, CPython raises too" if want[0] == "raise"
                      else "no value in Eval.v (outside its fragment), CPython evaluates")
    del SEM_CACHE[:]


def run(ctx):
    cs = cases(ctx)
    sx = [bridge.to_sx(e) for _, e in cs]
    answers = ctx.driver.call("sugar", [[s] for s in sx])
    pinned = ctx.driver.call("sugar_pinned", [[s] for s in sx])
    preds = ctx.driver.call("preds", [[s] for s in sx])
    # extraction cross-check: a sample of the driver's answers on comprehension cases re-evaluated inside Coq by vm_compute
    import core
    semi = [i for i, (tag, e) in enumerate(cs) if tag == "sem" and any(isinstance(n, (ast.ListComp, ast.GeneratorExp)) for n in ast.walk(e))]
    core.coq_crosscheck(ctx, ID, "From FA.Base Require Import PyAst Value Traverse.\nFrom FA.Model Require Import Sugar.",
                        core.xcheck_sample([cs[i][1] for i in semi], [answers[i] for i in semi],
                                           lambda e: "sugar %s" % bridge.to_coq(e),
                                           lambda a: ("Ok %s" % bridge.sx_to_coq(bridge.parse_sx(a[3:]))) if a.startswith("OK ") else None,
                                           max_nodes=40))
    for (tag, e), ans, pa, pr in zip(cs, answers, pinned, preds):
        if any(isinstance(n, (ast.ListComp, ast.GeneratorExp)) or (isinstance(n, ast.Call) and is_class_const(n.func))
               for n in ast.walk(e)):
            ctx.distinct.add(ast.dump(e))
        check_case(ctx, tag, e, ans, pa, pr)
    spec_vs_python(ctx, [e for tag, e in cs if tag == "dcall"])
    eval_crosscheck(ctx)
    for i in (4, 60, 900, 3000, len(cs) - 5):
        if 0 <= i < len(cs):
            tag, e = cs[i]
            r = impl(e)
            ctx.sample({"stream": tag, "input": bridge.dump(e)[:300],
                        "output": bridge.dump(r[1])[:300] if r[0] == "ok" else r[1]})


def replay(ctx, w):
    e = dec(w["expr_dump"])
    if w.get("tag") == "shared" and isinstance(e, ast.Tuple) and len(e.elts) == 2:
        e.elts[1] = e.elts[0]
    sx = bridge.to_sx(e)
    (ans,) = ctx.driver.call("sugar", [[sx]])
    (pa,) = ctx.driver.call("sugar_pinned", [[sx]])
    (pr,) = ctx.driver.call("preds", [[sx]])
    check_case(ctx, w.get("tag", "random"), e, ans, pa, pr)
    if w.get("tag") == "dcall" and isinstance(e, ast.Call):
        spec_vs_python(ctx, [e])
    eval_crosscheck(ctx)

"""C14 - intermediate tuples and dictionaries are compiled away."""
from __future__ import annotations

import ast
import copy
import random

import bridge
import core
import gen
import simp_common as sc
import c02
from gen import A, C, N, call, fcall, lam, mcall

ID = "C14"
TAG, EXTRACT, DRIVER = sc.TAG, sc.EXTRACT, sc.DRIVER
COQ_FILES = ["FA/Proofs/SimplifyFacts.v", "FA/Proofs/SimplifyPkg.v", "FA/Proofs/SimplifyTotal.v", "FA/Proofs/SimplifyInv.v", "FA/Proofs/SimplifySound.v",
             "FA/Proofs/SimplifyShape.v", "FA/Properties/C14.v"]

LEVEL = ("Coq lemmas over the executable model of simplify_chained_calls: a constant projection of a visited tuple/list/dict literal is "
         "replaced by the selected component (never left in place, never a different component), the substitution stack hands a packaged "
         "argument to every use, and the package-freedom predicate is decided on model outputs; the chain-level statement "
         "(packaging_eliminated) is checked by the correspondence and the node-kind oracle on generated disciplined chains "
         "(partial: see MANIFEST level_claimed).")
TRUSTED = c02.TRUSTED
ASSUME = c02.ASSUME + ["method-form operators inside stage lambdas are first normalised by change_extension_functions_to_calls (C17), as backends do"]
RULE = ("generated disciplined chains: 2-6 Select/Where/SelectMany stages over ds, intermediate stages package values into nested "
        "tuples/lists/dicts, later stages take them apart with constant indices, keys or attribute names (incl. nested Select/Where/Count "
        "over a packaged sequence referring to other packaged fields; function and method form; three binder-naming schemes); "
        "the simplified query must contain no tuple/list/dict construction and no constant projection outside the final result, and "
        "must evaluate to the same value. Non-trivial = chain has a packaging stage; distinct by ast.dump")

LEAVES = ("rec", "int", "seqrec")


class ChainGen:
    """Linear chains in which stage k packages shape s_k and stage k+1 uses its parameter only through
    complete constant projection paths of s_k."""

    def __init__(self, rng: random.Random, naming: str, method_form: float):
        self.r = rng
        self.naming = naming
        self.method_form = method_form
        self.n = 0

    def binder(self, avoid):
        """a parameter name; never one of `avoid` (the names the new lambda's body refers to from outside)"""
        if self.naming == "same":
            cands = ["x", "y", "z"]
        elif self.naming == "any":
            cands = ["x", "y", "e", "t"]
            self.r.shuffle(cands)
        else:
            self.n += 1
            return "p%d" % self.n
        for c in cands:
            if c not in avoid:
                return c
        self.n += 1
        return "p%d" % self.n

    # shapes: ("leaf", kind) | ("tup", [shapes], "tuple"|"list") | ("dict", [(key, shape)])
    def rand_shape(self, leaves_avail, d):
        r = self.r
        if d <= 0 or r.random() < 0.3:
            return ("leaf", r.choice(leaves_avail))
        if r.random() < 0.6:
            return ("tup", [self.rand_shape(leaves_avail, d - 1) for _ in range(r.randrange(1, 4))], r.choice(["tuple", "tuple", "list"]))
        # string keys (read back by attribute or subscript) and integer keys (subscript only)
        # also field names that coincide with methods of dict (values, items, keys, get, copy ...): they are keys like any other
        pool = r.choice([["a", "k", "c", "pt", "jets"], ["a", "k", "c", "pt", "jets"], ["values", "items", "a", "keys", "get"],
                         ["copy", "pop", "update", "k", "values"]]) if r.random() < 0.7 else ["a", 0, 1, "k", 2]
        keys = r.sample(pool, r.randrange(1, 4))
        return ("dict", [(k, self.rand_shape(leaves_avail, d - 1)) for k in keys])

    def paths(self, base: ast.expr, shape):
        """all (expr, leaf kind) reachable from `base` of shape `shape` through constant projections"""
        if shape[0] == "leaf":
            return [(base, shape[1])]
        out = []
        if shape[0] == "tup":
            for i, s in enumerate(shape[1]):
                if self.r.random() < 0.15:      # the same component through a negative literal index
                    idx = ast.UnaryOp(op=ast.USub(), operand=C(len(shape[1]) - i))
                else:
                    idx = C(i)
                out += self.paths(gen.sub(copy.deepcopy(base), idx), s)
        else:
            for k, s in shape[1]:
                proj = A(copy.deepcopy(base), k) if isinstance(k, str) and self.r.random() < 0.5 else gen.sub(copy.deepcopy(base), C(k))
                out += self.paths(proj, s)
        return out

    @staticmethod
    def names_in(avail):
        return {n.id for e, _ in avail for n in ast.walk(e) if isinstance(n, ast.Name)}

    def leaf_expr(self, kind, avail, depth=1):
        """an expression of leaf kind `kind` built from the available (expr, kind) leaves; package free"""
        r = self.r
        same = [e for e, k in avail if k == kind]
        recs = [e for e, k in avail if k == "rec"]
        seqs = [e for e, k in avail if k == "seqrec"]
        ints = [e for e, k in avail if k == "int"]
        if kind == "rec":
            if same and (not seqs or r.random() < 0.7):
                return copy.deepcopy(r.choice(same))
            if seqs:
                s = copy.deepcopy(r.choice(seqs))
                return fcall("First", s) if r.random() < 0.5 else mcall(s, "First")
            return None
        if kind == "seqrec":
            if same and r.random() < 0.5:
                return copy.deepcopy(r.choice(same))
            if recs:
                return A(copy.deepcopy(r.choice(recs)), r.choice(["jets", "trk"]))
            if same:
                return copy.deepcopy(r.choice(same))
            return None
        # int
        opts = []
        if same:
            opts.append(lambda: copy.deepcopy(r.choice(same)))
        if recs:
            opts.append(lambda: A(copy.deepcopy(r.choice(recs)), r.choice(["a", "b", "met", "pt"])))
        if seqs and depth > 0:
            def nested():
                s = copy.deepcopy(r.choice(seqs))
                q = self.binder(self.names_in(avail))
                other = self.leaf_expr("int", [(e, k) for e, k in avail if k != "seqrec"], 0) or C(1)
                kind2 = r.randrange(3)
                if kind2 == 0:    # Count(Where(seq, j: j.pt > other))
                    w = self.op("Where", s, lam(q, gen.cmp(ast.Gt, A(N(q), "pt"), other)))
                    return fcall("Count", w)
                if kind2 == 1:    # First(Select(seq, j: j.pt + other))
                    w = self.op("Select", s, lam(q, gen.binop(ast.Add, A(N(q), "pt"), other)))
                    return fcall("First", w)
                # First(Select(Select(seq, j: (j.pt, other)), u: u[0] * u[1]))
                u = self.binder(self.names_in(avail))
                w = self.op("Select", s, lam(q, gen.tup(A(N(q), "pt"), other)))
                w2 = self.op("Select", w, lam(u, gen.binop(ast.Mult, gen.sub(N(u), C(0)), gen.sub(N(u), C(1)))))
                return fcall("First", w2)
            opts.append(nested)
        if len(opts) >= 1 and depth > 0 and r.random() < 0.3:
            a = r.choice(opts)()
            b = r.choice(opts)()
            return gen.binop(r.choice([ast.Add, ast.Sub, ast.Mult]), a, b)
        if opts:
            return r.choice(opts)()
        return C(r.randrange(0, 4))

    def op(self, name, src, f):
        return mcall(src, name, f) if self.r.random() < self.method_form else fcall(name, src, f)

    def build(self, shape, avail):
        """an expression of shape `shape` (packaging) whose leaves are package-free leaf expressions"""
        if shape[0] == "leaf":
            return self.leaf_expr(shape[1], avail)
        if shape[0] == "tup":
            es = [self.build(s, avail) for s in shape[1]]
            if any(e is None for e in es):
                return None
            return gen.tup(*es) if shape[2] == "tuple" else gen.lst(*es)
        items = [(k, self.build(s, avail)) for k, s in shape[1]]
        if any(e is None for _, e in items):
            return None
        return gen.dct([(C(k), e) for k, e in items])

    def chain(self):
        r = self.r
        q = N("ds")
        shape = ("leaf", "rec")
        n_stages = r.randrange(2, 7)
        packaged = False
        for i in range(n_stages):
            last = i == n_stages - 1
            p = self.binder(set())
            avail = self.paths(N(p), shape)
            kinds = sorted({k for _, k in avail})
            choice = r.random()
            if choice < 0.25:       # Where keeps the shape
                ints = self.leaf_expr("int", avail)
                if ints is None:
                    continue
                q = self.op("Where", q, lam(p, gen.cmp(r.choice([ast.Gt, ast.Lt, ast.GtE]), ints, C(r.randrange(0, 3)))))
                continue
            if choice < 0.45 and any(k == "seqrec" for k in kinds) or (choice < 0.45 and "rec" in kinds):
                # SelectMany over a sequence leaf, optionally re-packaging each element with other fields
                seq = self.leaf_expr("seqrec", avail)
                if seq is None:
                    continue
                if r.random() < 0.5 and not last:
                    j = self.binder(self.names_in(avail))
                    others = [(e, k) for e, k in avail if k != "seqrec"]
                    other = self.leaf_expr("int", others, 0)
                    if other is None:
                        other = C(1)
                    q = self.op("SelectMany", q, lam(p, self.op("Select", seq, lam(j, gen.tup(N(j), other)))))
                    shape = ("tup", [("leaf", "rec"), ("leaf", "int")], "tuple")
                    packaged = True
                else:
                    q = self.op("SelectMany", q, lam(p, seq))
                    shape = ("leaf", "rec")
                continue
            # Select: package (intermediate stages) or produce a plain leaf (final stage, mostly)
            if last and r.random() < 0.8:
                body = self.leaf_expr(r.choice(["int", "int", "rec"] if "rec" in kinds or "seqrec" in kinds else ["int"]), avail)
                if body is None:
                    body = self.leaf_expr("int", avail) or C(0)
                new_shape = ("leaf", "int")
            else:
                leaves_avail = [k for k in LEAVES if self.leaf_expr(k, avail) is not None] or ["int"]
                new_shape = self.rand_shape(leaves_avail, r.randrange(1, 4))
                body = self.build(new_shape, avail)
                if body is None:
                    continue
                if new_shape[0] != "leaf":
                    packaged = True
                # the package as the first element of an inner sequence: First(Select(seq, j: package)); the next stage's
                # projections then reach the First() call only through substitution (tuples/lists only: the attribute form
                # on a dictionary behind First() is the open finding listed in KNOWN_OPEN)
                if new_shape[0] == "tup" and not has_dict(new_shape) and r.random() < 0.25:
                    seq = self.leaf_expr("seqrec", avail)
                    if seq is not None:
                        j = self.binder(self.names_in(avail))
                        inner = self.build(new_shape, avail + [(N(j), "rec")])
                        if inner is not None:
                            sel = self.op("Select", seq, lam(j, inner))
                            body = fcall("First", sel) if r.random() < 0.6 else mcall(sel, "First")
            q = self.op("Select", q, lam(p, body))
            shape = new_shape
        return q, shape, packaged


def has_dict(shape) -> bool:
    if shape[0] == "dict":
        return True
    if shape[0] == "tup":
        return any(has_dict(s) for s in shape[1])
    return False


def pkg_nodes(e: ast.AST):
    """package constructions and constant projections of literals left in a tree"""
    out = []
    for n in ast.walk(e):
        if isinstance(n, (ast.Tuple, ast.List, ast.Dict)):
            out.append(type(n).__name__)
        elif isinstance(n, ast.Subscript) and (isinstance(n.slice, ast.Constant) or (
                isinstance(n.slice, ast.UnaryOp) and isinstance(n.slice.op, ast.USub) and isinstance(n.slice.operand, ast.Constant))):
            out.append("Subscript[const]")
    return out


def strip_result(e: ast.expr, shape):
    """Remove the package constructors that make up the final result (shape of the last stage)."""
    def strip(body, sh):
        if sh[0] == "leaf":
            return [body]
        # the result package may sit behind First(Select(seq, j: package)) (function or method form of either call)
        inner = None
        if isinstance(body, ast.Call) and isinstance(body.func, ast.Name) and body.func.id == "First" and len(body.args) == 1:
            inner = body.args[0]
        elif isinstance(body, ast.Call) and isinstance(body.func, ast.Attribute) and body.func.attr == "First" and not body.args:
            inner = body.func.value
        if inner is not None and isinstance(inner, ast.Call):
            if isinstance(inner.func, ast.Name) and inner.func.id == "Select" and len(inner.args) == 2 and isinstance(inner.args[1], ast.Lambda):
                return [inner.args[0]] + strip(inner.args[1].body, sh)
            if isinstance(inner.func, ast.Attribute) and inner.func.attr == "Select" and len(inner.args) == 1 and isinstance(inner.args[0], ast.Lambda):
                return [inner.func.value] + strip(inner.args[0].body, sh)
        if sh[0] == "tup" and isinstance(body, (ast.Tuple, ast.List)) and len(body.elts) == len(sh[1]):
            return [x for el, s in zip(body.elts, sh[1]) for x in strip(el, s)]
        if sh[0] == "dict" and isinstance(body, ast.Dict) and len(body.keys) == len(sh[1]):
            return [x for el, (_, s) in zip(body.values, sh[1]) for x in strip(el, s)]
        return [body]

    if shape[0] == "leaf":
        return [e]
    # the result package is the body of the outermost Select's lambda (or of the innermost lambda of a SelectMany chain)
    if isinstance(e, ast.Call) and isinstance(e.func, ast.Name) and e.func.id in ("Select", "SelectMany") and len(e.args) == 2 \
            and isinstance(e.args[1], ast.Lambda):
        src, lamb = e.args
        if e.func.id == "Select":
            return [src] + strip(lamb.body, shape)
        return [src] + strip_result(lamb.body, shape)
    if isinstance(e, ast.Call) and isinstance(e.func, ast.Name) and e.func.id == "Where" and len(e.args) == 2:
        return strip_result(e.args[0], shape) + [e.args[1]]
    return [e]


def check_chain(ctx, q, shape, packaged, datasets):
    from func_adl.ast.func_adl_ast_utils import change_extension_functions_to_calls

    ctx.evaluations += 1
    qe = change_extension_functions_to_calls(copy.deepcopy(q))
    st, out, _ = sc.impl(qe)
    if packaged:
        ctx.distinct.add(ast.dump(q))
    ctx.count("impl_result", st)
    key = c02.key(q)
    if st != "ok":
        ctx.fail("failing-input", "simplify(ext(%s)) %s" % (bridge.dump(q), st),
                 {"oracle": "pkg", "query": ast.unparse(q), "query_dump": ast.dump(q), "shape": repr(shape)}, key=key)
        return None
    parts = strip_result(out, shape)
    left = [k for p in parts for k in pkg_nodes(p)]
    if left:
        ctx.fail("failing-input", "simplify(ext(%s)) = %s still contains %s outside the final result" % (
            bridge.dump(q), bridge.dump(out), sorted(set(left))),
            {"oracle": "pkg", "query": ast.unparse(q), "query_dump": ast.dump(q), "shape": repr(shape)}, key=key)
        return out
    for i, ds in enumerate(datasets):
        a = sc.pyeval(q, ds)
        if a[0] != "ok":
            continue
        b = sc.pyeval(out, ds)
        ctx.count("oracle_eval", "compared")
        if a != b:
            ctx.fail("failing-input", "simplify(ext(%s)) = %s evaluates to %r, the original to %r" % (bridge.dump(q), bridge.dump(out), b, a),
                     {"oracle": "semantic", "query": ast.unparse(q), "query_dump": ast.dump(q), "shape": repr(shape), "dataset": i}, key=key)
            break
    return qe


PROBES = [
    ("Select(Select(ds, lambda e: ((e.a, e.b), {'c': e.met, 'd': [e.pt, e.a]})), lambda t: t[0][1] + t[1].c + t[1]['d'][0])", ("leaf", "int")),
    ("Select(Select(Select(ds, lambda e: (e.a, e.b)), lambda t: {'x': t[0], 'y': (t[1], t[0])}), lambda d: d.x + d.y[0])", ("leaf", "int")),
    ("Select(Where(Select(ds, lambda e: (e.a, e.b)), lambda t: t[0] > 1), lambda t: t[1])", ("leaf", "int")),
    ("Select(Where(Select(Where(Select(ds, lambda e: (e.a, e.b)), lambda t: t[0] > 1), lambda t: {'k': t[1]}), lambda d: d.k < 5), lambda d: d.k)", ("leaf", "int")),
    ("Select(SelectMany(Select(ds, lambda e: (e.jets, e.met)), lambda t: t[0]), lambda j: j.pt)", ("leaf", "int")),
    ("Select(SelectMany(Select(ds, lambda e: (e.jets, e.met)), lambda t: Select(t[0], lambda j: (j, t[1]))), lambda p: p[0].pt + p[1])", ("leaf", "int")),
    ("SelectMany(Select(ds, lambda e: {'js': e.jets, 'm': e.met}), lambda d: Where(d.js, lambda j: j.pt > d.m))", ("leaf", "rec")),
    ("Select(Select(ds, lambda e: (e.jets, e.met)), lambda t: Select(t[0], lambda j: j.pt + t[1]))", ("leaf", "int")),
    ("Select(Select(ds, lambda e: (e.jets, e.met)), lambda t: Select(Select(t[0], lambda j: (j.pt, t[1])), lambda q: q[0]*q[1]))", ("leaf", "int")),
    ("Select(Select(ds, lambda e: (e.jets, e.met)), lambda t: Count(Where(t[0], lambda j: j.pt > t[1])))", ("leaf", "int")),
    ("Select(Select(ds, lambda e: (e.jets, e.met)), lambda t: First(t[0]).pt + t[1])", ("leaf", "int")),
    ("Select(Select(ds, lambda e: (e.jets, e.met)), lambda t: First(Select(t[0], lambda j: (j, t[1])))[0].pt)", ("leaf", "int")),
    ("Select(Select(ds, lambda e: (e.jets, e.met)), lambda t: t[0].Select(lambda j: j.pt + t[1]))", ("leaf", "int")),
    ("Select(Select(ds, lambda e: (e.jets, e.met)), lambda t: t[0].Select(lambda j: (j.pt, t[1])).Select(lambda q: q[0]))", ("leaf", "int")),
    ("Select(Select(Select(ds, lambda e: (e.a, e.b)), lambda e: (e[1], e[0])), lambda e: e[0] - e[1])", ("leaf", "int")),
    ("Select(Select(ds, lambda e: {0: e.jets, 1: e.met}), lambda d: Count(d[0]) + d[1])", ("leaf", "int")),
    ("Select(Select(ds, lambda e: ({'jets': e.jets, 1: e.met}, e.a)), lambda t: t[0][1] + t[-1] + Count(t[0]['jets']))", ("leaf", "int")),
    ("ds.Select(lambda e: (e.jets, e.met)).SelectMany(lambda t: t[0].Select(lambda j: (j, t[1]))).Where(lambda p: p[0].pt > p[1]).Select(lambda p: p[0].pt)", ("leaf", "int")),
    ("Select(Select(ds, lambda e: {'values': e.a, 'items': (e.b, e.met), 'get': e.jets}), lambda h: h.values + h.items[0] + Count(h.get))", ("leaf", "int")),
    ("Select(Where(Select(ds, lambda e: {'values': e.jets, 'weight': e.met}), lambda h: h.weight > 0), lambda h: Select(h.values, lambda j: j.pt + h.weight))", ("leaf", "int")),
    ("Select(Select(ds, lambda e: First(Select(e.jets, lambda j: (j.pt, j.a)))), lambda f: f[0])", ("leaf", "int")),
    ("Select(Select(ds, lambda e: (First(Select(e.jets, lambda j: (j.pt, j.a))), e.met)), lambda u: u[0][0] + u[1])", ("leaf", "int")),
    ("Select(Where(Select(ds, lambda e: First(Select(e.jets, lambda j: [j.pt, (j.a, e.met)]))), lambda f: f[1][0] > 0), lambda f: f[0] + f[1][1])", ("leaf", "int")),
    ("SelectMany(SelectMany(Select(ds, lambda e: (e.jets, e.a)), lambda t: Select(t[0], lambda j: (j.trk, t[1]))), lambda u: Select(u[0], lambda k: k.pt + u[1]))", ("leaf", "int")),
    # a fusion INSIDE a stage lambda (a nested chain over one packed field that packs and unpacks itself) whose last lambda also reads
    # another packed field of the stage parameter: the definition of the stage parameter is needed two frames out (round 10, C14_m11)
    ("Select(Select(ds, lambda e: (e.jets, e.met)), lambda t: t[0].Select(lambda j: (j.pt, j.a)).Select(lambda p: p[0] + t[1]))", ("leaf", "int")),
    ("Select(Select(ds, lambda e: (e.jets, e.met)), lambda t: Select(Select(t[0], lambda j: (j.pt, j.a)), lambda p: p[0] + t[1]))", ("leaf", "int")),
    ("Select(Select(ds, lambda e: {'js': e.jets, 'm': e.met}), lambda d: d.js.Select(lambda j: {'pt': j.pt, 'a': j.a}).Where(lambda r: r.pt > d.m).Select(lambda r: r.a))", ("leaf", "int")),
    ("SelectMany(Select(ds, lambda e: [e.jets, e.met]), lambda t: Select(Select(t[0], lambda j: (j.pt, j.a)), lambda p: p[1] * t[1]))", ("leaf", "int")),
    ("Select(Where(Select(ds, lambda e: (e.jets, (e.met, e.a))), lambda t: t[1][1] > 0), lambda t: Select(Select(t[0], lambda j: [j.pt, j.a]), lambda p: p[0] - t[1][0]))", ("leaf", "int")),
    ("Select(Select(ds, lambda e: (e.jets, e.met, e.a)), lambda t: Select(Where(Select(t[0], lambda j: (j.pt, t[2])), lambda p: p[0] > t[1]), lambda p: p[0] + p[1] + t[1]))", ("leaf", "int")),
]


# open finding (KNOWN_FINDINGS.txt lists this exact witness): the attribute form of a projection is pushed into First() only when
# the First() call is written literally under the attribute; after substitution the dictionary stays.  Repairing it changes
# the output pinned by test_select_select_convolution_with_first (First(e.jets).pt() must stay as it is).
KNOWN_OPEN = [
    ("Select(Select(ds, lambda e: First(Select(e.jets, lambda j: {'pt': j.pt, 'eta': j.a}))), lambda d: d.pt)", ("leaf", "int")),
]


def run(ctx):
    datasets = sc.make_datasets(random.Random(20260927))
    cases = [(sc.parse(s), sh, True) for s, sh in KNOWN_OPEN + PROBES]
    for naming, n in (("distinct", ctx.budget(200, 8000)), ("any", ctx.budget(200, 8000)), ("same", ctx.budget(120, 5000))):
        g = ChainGen(ctx.rng, naming, ctx.rng.choice([0.0, 0.3, 0.6]))
        for _ in range(n):
            g.method_form = ctx.rng.choice([0.0, 0.3, 0.7])
            cases.append(g.chain())
    exts = []
    for q, shape, packaged in cases:
        ctx.count("stages", str(sum(1 for n in ast.walk(q) if isinstance(n, ast.Lambda))))
        ctx.count("packaged", str(packaged))
        qe = check_chain(ctx, q, shape, packaged, datasets)
        if qe is not None:
            exts.append(qe)
    # correspondence on the ext-normalised chains
    ml = sc.model_lines(ctx, exts)
    for qe, m in zip(exts, ml):
        ctx.corr_cases += 1
        il = sc.impl_line(qe)
        kind = sc.same_result(il, m)
        ctx.count("correspondence", kind)
        if kind == "differ":
            ctx.corr_disagreements += 1
            ctx.fail("no-failing-input-found", "correspondence simp vs simplify_chained_calls broke on %s: model %s, code %s" % (
                bridge.dump(qe), m[:300], il[:300]),
                {"correspondence": "simp", "query": bridge.dump(qe), "query_dump": ast.dump(qe), "model": m[:2000], "impl": il[:2000]})
    for q, shape, _ in cases[1:4] + cases[len(PROBES) + 1:len(PROBES) + 5]:
        from func_adl.ast.func_adl_ast_utils import change_extension_functions_to_calls
        st, out, _c = sc.impl(change_extension_functions_to_calls(copy.deepcopy(q)))
        ctx.sample({"chain": bridge.dump(q), "simplified": bridge.dump(out) if st == "ok" else st})


def replay(ctx, w):
    q = eval(w["query_dump"], dict(vars(ast)))
    shape = eval(w.get("shape", "('leaf','int')"))
    check_chain(ctx, q, shape, True, sc.make_datasets(random.Random(20260927)))

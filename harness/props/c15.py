"""C15 - MetaData extraction and empty-metadata removal are exact
(func_adl/ast/meta_data.py: extract_metadata, remove_empty_metadata)."""
from __future__ import annotations

import ast
import copy

import bridge
import core
import gen
from gen import A, C, N, call, fcall, lam, mcall

ID = "C15"
TAG = "md"
EXTRACT = "FA/Extract/ExtractMd.v"
DRIVER = "driver_md.ml"
COQ_FILES = ["FA/Proofs/TraverseTFacts.v", "FA/Proofs/MetaDataProofs.v", "FA/Proofs/MetaDataRemove.v",
             "FA/Proofs/MetaDataNoMd.v", "FA/Properties/C15.v"]

LEVEL = ("Coq theorems over the executable models `extract` / `remove_empty` (single-pass writer traversal; None = raises): "
         "extract_exact (relational spec), extract_only_unwraps (only wrappers are replaced by their processed source, every "
         "other node class rebuilt unchanged), extract_all_found + extract_count (the list is exactly the literal values of "
         "the wrappers' dictionaries in pre-order), extract_outer_first (a wrapper's dictionary is immediately followed by "
         "those inside its source, wherever it sits), extract_no_md (under `MetaData only used as callee`; counter-example "
         "without it), extract_defined_iff / remove_none_iff (exactly when they raise), remove_exact (exactly 2-argument "
         "wrappers whose visited dictionary is {} are removed), remove_idem, *_md_free; models tied to the code by exact "
         "differential comparison.  The clause `leaves the AST it was given unmodified` is about object identity: it is "
         "checked on the implementation here (dump + every node's attribute dictionary and list identities before/after, "
         "extra attributes included); the heap-level theorem lives in the stream package (C11).")
TRUSTED = ["Coq 8.16.1 kernel (coqc); no axioms (Print Assumptions: closed under the global context)",
           "extraction: ExtrOcamlBasic + ExtrOcamlNativeString; ocaml/sx.ml + ocaml/driver_md.ml",
           "harness/bridge.py ast<->expr encoding; harness/props/c15.py generators, oracles (CPython's ast.literal_eval "
           "is the oracle's valuation of dictionaries) and the mutation snapshot"]
ASSUME = ["Model/MetaData.v literal_eval covers Constant/Tuple/List/Dict/unary +- on int,float with Python's key "
          "de-duplication (int/bool numerically, floats by repr token); set displays, set(), complex arithmetic and raw "
          "str values in the dictionary slot are outside the model and excluded from the correspondence (counted)",
          "a raw (non-node) Python value as the *source* of an empty wrapper is not generated for remove_empty_metadata",
          "no-mutation of the input is established by observation of the implementation, not by a theorem of this package"]
RULE = ("corpus, then every placement of 1 and 2 wrappers (10 resp. 5 kinds: empty, non-empty with distinct keys, 1-/3-argument, "
        "keyword-carrying, method form, non-dict and non-literal second argument) at every expression position of 9 query "
        "skeletons (source chain, lambda bodies, arguments, keyword values, callee, dictionary slot), seeded placements of 3-4 "
        "wrappers, random expressions with MetaData names, literal_eval cases, a malformed stream; non-trivial = contains a "
        "MetaData name-call; distinct by ast.dump")

MD = "MetaData"


# ---------------------------------------------------------------- implementation side

def impl_extract(e):
    from func_adl.ast.meta_data import extract_metadata

    try:
        a, mds = extract_metadata(copy.deepcopy(e))
        return ("ok", a, list(mds))
    except RecursionError:
        raise
    except Exception as ex:  # noqa
        return ("exc", type(ex).__name__, None)


def snapshot(t):
    """Identity-level picture of a tree object: for every node its attribute dictionary (field and non-field
    attributes), with list values recorded by identity and by element identities."""
    snap = []
    for n in ast.walk(t):
        ent = {}
        for k, v in vars(n).items():
            ent[k] = (id(v), tuple(id(x) for x in v)) if isinstance(v, list) else (id(v), None)
        snap.append((n, ent))
    return snap


def snapshot_diff(snap):
    for n, ent in snap:
        cur = {}
        for k, v in vars(n).items():
            cur[k] = (id(v), tuple(id(x) for x in v)) if isinstance(v, list) else (id(v), None)
        if cur != ent:
            ks = sorted(set(cur) ^ set(ent) | {k for k in cur if k in ent and cur[k] != ent[k]})
            return "%s node: attribute(s) %s changed" % (type(n).__name__, ",".join(ks))
    return None


class _Exec:
    pass


def decorate(t, rng_pick):
    """Hang the non-field attributes the library itself hangs on nodes."""
    calls = [n for n in ast.walk(t) if isinstance(n, ast.Call)]
    for n in calls[:: max(1, rng_pick)]:
        n._q_metadata = {"k": 1}
        n._func_adl_executor = _Exec()
    return t


def impl_remove(e, pick=2):
    """-> (status, result, mutation report or None)"""
    from func_adl.ast.meta_data import remove_empty_metadata

    t = decorate(copy.deepcopy(e), pick)
    before = ast.dump(t)
    snap = snapshot(t)
    try:
        r = remove_empty_metadata(t)
        st = ("ok", r)
    except RecursionError:
        raise
    except Exception as ex:  # noqa
        st = ("exc", type(ex).__name__)
    mut = None
    if ast.dump(t) != before:
        mut = "ast.dump of the argument changed"
    else:
        mut = snapshot_diff(snap)
    return st[0], st[1], mut


# ---------------------------------------------------------------- literal values

def lit_sx(v):
    if isinstance(v, dict):
        return "(D (%s) (%s))" % (" ".join(lit_sx(k) for k in v), " ".join(lit_sx(x) for x in v.values()))
    if isinstance(v, tuple):
        return "(T (%s))" % " ".join(lit_sx(x) for x in v)
    if isinstance(v, list):
        return "(L (%s))" % " ".join(lit_sx(x) for x in v)
    if isinstance(v, (set, frozenset)):
        return "(U)"
    return "(C %s)" % bridge.const_sx(v)


def lit_in_model(n):
    """Is the node inside the literal sub-grammar on which the model is meant to agree with CPython?"""
    if isinstance(n, str):
        return False                      # literal_eval would *parse* a raw string
    if not isinstance(n, ast.AST):
        return True
    if isinstance(n, (ast.Set, ast.BinOp)):
        return False
    if isinstance(n, ast.Call):
        return not (isinstance(n.func, ast.Name) and n.func.id == "set")
    if isinstance(n, ast.Constant):
        return not isinstance(n.value, complex) and not (isinstance(n.value, float) and n.value != n.value)
    if isinstance(n, ast.UnaryOp):
        return lit_in_model(n.operand)
    if isinstance(n, (ast.Tuple, ast.List)):
        return all(lit_in_model(x) for x in n.elts)
    if isinstance(n, ast.Dict):
        ks = [k for k in n.keys if k is not None]
        if any(isinstance(k, ast.Constant) and isinstance(k.value, float) for k in ks):
            return False                  # float keys may collide with int keys
        return all(lit_in_model(x) for x in ks) and all(lit_in_model(x) for x in n.values)
    return True


def in_model(e):
    for n in ast.walk(e):
        if isinstance(n, ast.Call) and isinstance(n.func, ast.Name) and n.func.id == MD and len(n.args) >= 2:
            if not lit_in_model(n.args[1]):
                return False
    return True


# ---------------------------------------------------------------- independent specifications

class Raises(Exception):
    pass


def is_md(e):
    return isinstance(e, ast.Call) and isinstance(e.func, ast.Name) and e.func.id == MD


def _lit(n):
    try:
        return ast.literal_eval(n)
    except RecursionError:
        raise
    except Exception:  # noqa
        raise Raises()


def _generic(e, f):
    n = copy.copy(e)
    for fld, v in ast.iter_fields(e):
        if isinstance(v, list):
            setattr(n, fld, [f(x) if isinstance(x, ast.AST) else x for x in v])
        elif isinstance(v, ast.AST):
            setattr(n, fld, f(v))
    return n


def spec_extract(e):
    """(query with every wrapper replaced by its source, dictionaries in pre-order) - or Raises."""
    out = []

    def go(x):
        if is_md(x):
            if len(x.args) < 2:
                raise Raises()
            out.append(_lit(x.args[1]))
            if not isinstance(x.args[0], ast.AST):
                raise Raises()
            return go(x.args[0])
        return _generic(x, go)

    return go(e), out


def spec_remove(e):
    """query with exactly the 2-argument wrappers whose (cleaned) dictionary is {} replaced by their source."""
    def go(x):
        n = _generic(x, go)
        if is_md(n) and len(n.args) == 2:
            d = _lit(n.args[1])
            if isinstance(d, dict) and len(d) == 0:
                return n.args[0]
        return n

    return go(e)


def dump(e):
    return ast.dump(e) if isinstance(e, ast.AST) else repr(e)


# ---------------------------------------------------------------- generators

KINDS = ["E", "N", "M3", "M1", "KW", "meth", "ND", "NDE", "NL", "NEG"]
KINDS2 = ["E", "N", "M3", "meth", "NDE"]


class Placer:
    def __init__(self):
        self.k = 0

    def wrap(self, x, kind):
        self.k += 1
        i = self.k
        if kind == "E":
            return fcall(MD, x, gen.dct([]))
        if kind == "N":
            return fcall(MD, x, gen.dct([(C("k%d" % i), C(i))]))
        if kind == "M3":
            return fcall(MD, x, gen.dct([(C("t"), C(i))]), C("extra"))
        if kind == "M1":
            return fcall(MD, x)
        if kind == "KW":
            return call(N(MD), [x, gen.dct([])], [("note", C(i))])
        if kind == "meth":
            return mcall(x, MD, gen.dct([]))
        if kind == "ND":
            return fcall(MD, x, gen.lst(C(1), C(i)))
        if kind == "NDE":
            return fcall(MD, x, [gen.lst(), C(0), C(None), gen.tup(), C("")][i % 5])
        if kind == "NL":
            return fcall(MD, x, N("cfg"))
        if kind == "NEG":
            return fcall(MD, x, gen.dct([(C("v"), ast.UnaryOp(op=ast.USub(), operand=C(i))), (C(2), gen.tup(C(1), C("a"))),
                                         (C(True), gen.lst())]))
        raise ValueError(kind)


def positions(t):
    """Expression nodes of a tree in pre-order (the places where a wrapper can be put)."""
    out = []

    def go(n):
        if isinstance(n, ast.expr):
            out.append(n)
        for c in ast.iter_child_nodes(n):
            go(c)

    go(t)
    return out


def place(t, idx, kind, placer):
    """A copy of t with the idx-th expression node (pre-order) wrapped."""
    t = copy.deepcopy(t)
    target = positions(t)[idx]

    class W(ast.NodeTransformer):
        def visit(self, n):
            if n is target:
                return placer.wrap(n, kind)
            return self.generic_visit(n)

    return W().visit(t)


SKELETONS = [
    "ds",
    "ds.Select(lambda e: e.jets)",
    "Select(ds, lambda e: e.met)",
    "Where(Select(ds, lambda e: e.jets), lambda j: j.pt > 30)",
    "ds.SelectMany(lambda e: e.jets.Select(lambda j: (j.pt, e.met)))",
    "f(ds, key=g(x))",
    "ResultTTree(Select(ds, lambda e: {'a': e.x}), ['a'], 'tree', 'out.root')",
    "[j.pt for j in ds.jets if j.ok]",
    "(lambda q: q.First())(ds)",
]

CORPUS = [
    "MetaData(ds, {})", "MetaData(ds, {'a': 1})", "MetaData(MetaData(ds, {'a': 1}), {'b': 2})",
    "MetaData(MetaData(ds, {}), {})", "Select(MetaData(ds, {'a': 1}), lambda e: MetaData(e.jets, {'b': 2}))",
    "MetaData(ds)", "MetaData()", "MetaData(ds, {}, 1)", "MetaData(ds, {'a': 1}, MetaData(t, {'z': 9}))",
    "ds.MetaData({})", "MetaData(ds, x)", "MetaData(ds, [])", "MetaData(ds, 0)", "MetaData(ds, None)",
    "MetaData(a, MetaData({}, {}))", "MetaData(MetaData, {})(x, {})", "MetaData(MetaData, {})(x)",
    "MetaData(ds, {}, k=1)", "MetaData(ds, d={})", "MetaData(*a)", "MetaData(ds, {**k})", "MetaData(ds, {'a': 1, 'a': 2})",
    "MetaData(ds, {1: 'x', True: 'y', (1, 2): [3]})", "MetaData(ds, {[1]: 2})", "MetaData(ds, {'a': -1, 'b': +2, 'c': -1.5})",
    "MetaData(ds, {'a': -True})", "MetaData(ds, {'a': {'b': {}}})", "f(MetaData)", "MetaData", "x.MetaData",
    "MetaData(ds, {1, 2})", "MetaData(ds, set())", "MetaData(ds, 1 + 2j)", "MetaData(ds, {1.0: 'a', 1: 'b'})",
    "MetaData(lambda x: MetaData(x, {'in': 1}), {'out': 2})(MetaData(y, {}))",
    "lambda x=MetaData(a, {'d': 1}): MetaData(x, {'b': 2})",
    "[MetaData(j, {'e': 1}) for j in MetaData(ds, {'i': 2}) if MetaData(j.ok, {'c': 3})]",
    "{MetaData(k, {'k': 1}): MetaData(v, {'v': 2}), MetaData(k2, {'k': 3}): MetaData(v2, {'v': 4})}",
    "MetaData(f, {'0': 0})(MetaData(a, {'1': 1}), w=MetaData(b, {'2': 2}))(MetaData(c, {'3': 3}))",
    "MetaData(a, {'1': 1}) if MetaData(t, {'0': 0}) else MetaData(b, {'2': 2})",
    "MetaData(a, {'1': 1}) < MetaData(b, {'2': 2}) <= MetaData(c, {'3': 3})",
    "MetaData(a, {'1': 1})[MetaData(i, {'2': 2})] + MetaData(b, {'3': 3}) and MetaData(c, {'4': 4})",
    "(MetaData(j, {'e': 1}) for j in MetaData(ds, {'i': 2}))",
    "MetaData(ds, {'metadata_type': 'add_job_script', 'name': 'x', 'script': ['a', 'b'], 'depends_on': []})",
]


def literal_cases(ctx):
    r = ctx.rng
    srcs = ["{}", "{'a': 1}", "[]", "()", "(1,)", "{'a': 1, 'a': 2, 'b': 3}", "{1: 'a', True: 'b', 0: 'c', False: 'd'}",
            "{(1, 2): 3, (1, 2): 4, (True, 2): 5}", "{[1]: 2}", "{(1, [2]): 3}", "{{}: 1}", "-1", "+1", "-1.5", "+0.0", "- -1",
            "-True", "-'a'", "not 1", "~1", "-x", "x", "None", "...", "b'ab'", "'s'", "1.5", "{'a': [1, (2, {'b': -3})]}",
            "{None: None, ...: 1}", "f(1)", "[x]", "{'a': x}", "{x: 1}", "-(1)", "(-1, +2)", "{'k': -0.0}", "1e100", "-1e-5"]
    out = [ast.parse(s, mode="eval").body for s in srcs]

    def rl(d):
        k = r.randrange(9)
        if d <= 0 or k <= 2:
            return C(r.choice([0, 1, 2, -3, True, False, None, "a", "b", "", 1.5, b"x"]))
        if k == 3:
            return gen.tup(*[rl(d - 1) for _ in range(r.randrange(0, 3))])
        if k == 4:
            return gen.lst(*[rl(d - 1) for _ in range(r.randrange(0, 3))])
        if k in (5, 6):
            n = r.randrange(0, 4)
            keys = [r.choice([C(1), C(True), C(0), C("a"), C("b"), C(None), gen.tup(C(1), C(2)), gen.tup(C(True), C(2)),
                              gen.lst(), rl(d - 1)]) for _ in range(n)]
            return gen.dct([(k_, rl(d - 1)) for k_ in keys])
        if k == 7:
            return ast.UnaryOp(op=r.choice([ast.USub, ast.UAdd, ast.Not])(), operand=r.choice([C(1), C(2.5), C(True), C("a"), N("x")]))
        return N("x")

    for _ in range(ctx.budget(600, 8000)):
        out.append(rl(r.randrange(1, 4)))
    return [e for e in out if lit_in_model(e)]


def query_cases(ctx):
    out = [ast.parse(s, mode="eval").body for s in CORPUS]
    placer = Placer()
    sk = [ast.parse(s, mode="eval").body for s in SKELETONS]
    one, two = [], []
    for t in sk:
        for i in range(len(positions(t))):
            for k in KINDS:
                one.append(place(t, i, k, placer))
    for t in sk:
        for i in range(len(positions(t))):
            for k in KINDS2:
                t1 = place(t, i, k, placer)
                for j in range(len(positions(t1))):
                    for k2 in KINDS2:
                        two.append(place(t1, j, k2, placer))
    cap = ctx.budget(5000, 200000)
    if len(two) > cap:
        ctx.notes.append("placements: 1 wrapper exhaustive (%d), 2 wrappers %d -> seeded sample of %d" % (len(one), len(two), cap))
        two = ctx.rng.sample(two, cap)
    else:
        ctx.notes.append("placements: 1 wrapper exhaustive (%d), 2 wrappers exhaustive (%d)" % (len(one), len(two)))
    out += one + two
    r = ctx.rng
    for _ in range(ctx.budget(2500, 40000)):
        t = r.choice(sk)
        for _ in range(r.choice([3, 4])):
            t = place(t, r.randrange(len(positions(t))), r.choice(KINDS if r.random() < 0.4 else KINDS2[:3]), placer)
        out.append(t)
    rg = gen.RandomExpr(r, names=["ds", MD, "x"], attrs=["jets", MD, "pt"], funcs=[MD, MD, "f", "Select"],
                        methods=[MD, "Select", "m"])
    for _ in range(ctx.budget(1200, 20000)):
        t = rg.expr(r.randrange(2, 6))
        for _ in range(r.randrange(0, 3)):
            t = place(t, r.randrange(len(positions(t))), r.choice(KINDS), placer)
        out.append(t)
    return out


def malformed_cases():
    L = ast.Load()
    return [
        ast.Call(func=N(MD), args=[N("ds"), 5], keywords=[]),
        ast.Call(func=N(MD), args=[5, gen.dct([])], keywords=[]),
        ast.Call(func=N("f"), args=[ast.Call(func=N(MD), args=[None, gen.dct([(C("a"), C(1))])], keywords=[])], keywords=[]),
        ast.Call(func=N(MD), args=[N("ds"), None], keywords=[]),
        ast.Call(func=N(MD), args=[N("ds"), gen.dct([]), 7], keywords=[]),
        ast.Call(func=N("f"), args=[3, fcall(MD, N("ds"), gen.dct([]))], keywords=[]),
        ast.Tuple(elts=[1, fcall(MD, N("s"), gen.dct([(C("a"), C(1))])), "x"], ctx=L),
        ast.Call(func=5, args=[fcall(MD, N("s"), gen.dct([]))], keywords=[]),
        ast.Dict(keys=[C(1)], values=[]),
        fcall(MD, N("s"), ast.Dict(keys=[C(1)], values=[])),
    ]


# ---------------------------------------------------------------- the check

def key_of(e, what):
    return core.digest({"p": ID, "e": dump(e), "w": what})


def check_extract(ctx, e, ans, corr=True):
    ctx.evaluations += 1
    st, a, mds = impl_extract(e)
    ctx.count("extract_result", "ok" if st == "ok" else str(a))
    try:
        want = spec_extract(e)
    except Raises:
        want = None
    ok = True
    if want is not None:
        wt, wm = want
        if st != "ok":
            ok, why = False, "raises %s on a query whose wrappers are all well formed" % a
        elif dump(a) != dump(wt):
            ok, why = False, "returned query %s, expected %s" % (bridge.dump(a), bridge.dump(wt))
        elif [lit_sx(x) for x in mds] != [lit_sx(x) for x in wm]:
            ok, why = False, "returned metadata %r, expected %r (outer wrappers first)" % (mds, wm)
        if not ok:
            ctx.fail("failing-input", "extract_metadata(%s): %s" % (bridge.dump(e), why),
                     {"oracle": "extract", "expr_dump": dump(e), "expr": bridge.dump(e)}, key=key_of(e, "extract"))
    else:
        ctx.count("extract_oracle", "malformed wrapper: outside the property")
    if corr:
        ctx.corr_cases += 1
        got = ("OK %s (%s)" % (bridge.to_sx(a), " ".join(lit_sx(x) for x in mds))) if st == "ok" else "NONE"
        if ans != got:
            ctx.corr_disagreements += 1
            if ok:
                ctx.fail("no-failing-input-found",
                         "correspondence extract (Model/MetaData.v) vs extract_metadata broke on %s: model %s, code %s%s"
                         % (bridge.dump(e), ans[:200], got[:200], "" if st == "ok" else " (raises %s)" % a),
                         {"correspondence": "extract", "expr_dump": dump(e), "model": ans, "impl": got})


def check_remove(ctx, e, ans, corr=True):
    ctx.evaluations += 1
    st, r, mut = impl_remove(e, pick=1 + ctx.evaluations % 3)
    ctx.count("remove_result", "ok" if st == "ok" else str(r))
    ok = True
    if mut is not None:
        ok = False
        ctx.fail("failing-input", "remove_empty_metadata(%s) modified the AST it was given: %s" % (bridge.dump(e), mut),
                 {"oracle": "remove-input-unmodified", "expr_dump": dump(e), "expr": bridge.dump(e)}, key=key_of(e, "mut"))
    try:
        want = spec_remove(e)
    except Raises:
        want = None
    if want is not None:
        why = None
        if st != "ok":
            why = "raises %s" % r
        elif dump(r) != dump(want):
            why = "returned %s, expected %s" % (bridge.dump(r), bridge.dump(want))
        elif isinstance(r, ast.AST):
            st2, r2, _ = impl_remove(r)
            if st2 != "ok" or dump(r2) != dump(r):
                why = "cleaning the result again changes it"
        if why:
            ok = False
            ctx.fail("failing-input", "remove_empty_metadata(%s): %s" % (bridge.dump(e), why),
                     {"oracle": "remove", "expr_dump": dump(e), "expr": bridge.dump(e)}, key=key_of(e, "remove"))
    else:
        ctx.count("remove_oracle", "non-literal dictionary: outside the property")
    if corr:
        ctx.corr_cases += 1
        got = "OK " + bridge.to_sx(r) if st == "ok" else "NONE"
        if ans != got:
            ctx.corr_disagreements += 1
            if ok:
                ctx.fail("no-failing-input-found",
                         "correspondence remove_empty (Model/MetaData.v) vs remove_empty_metadata broke on %s: model %s, code %s%s"
                         % (bridge.dump(e), ans[:200], got[:200], "" if st == "ok" else " (raises %s)" % r),
                         {"correspondence": "remove_empty", "expr_dump": dump(e), "model": ans, "impl": got})


def check_literal(ctx, e, ans):
    ctx.evaluations += 1
    ctx.corr_cases += 1
    try:
        got = "OK " + lit_sx(ast.literal_eval(copy.deepcopy(e)))
    except RecursionError:
        raise
    except Exception:  # noqa
        got = "NONE"
    ctx.count("literal_eval", got[:2])
    if ans != got:
        ctx.corr_disagreements += 1
        ctx.fail("no-failing-input-found", "correspondence literal_eval (Model/MetaData.v) vs ast.literal_eval broke on %s: model %s, CPython %s"
                 % (bridge.dump(e), ans[:200], got[:200]),
                 {"correspondence": "literal_eval", "expr_dump": dump(e), "model": ans, "impl": got})


def has_md(e):
    return isinstance(e, ast.AST) and any(is_md(n) for n in ast.walk(e))


def run(ctx):
    lits = literal_cases(ctx)
    for e, ans in zip(lits, ctx.driver.call("liteval", [[bridge.to_sx(e)] for e in lits])):
        check_literal(ctx, e, ans)
    cs = query_cases(ctx) + malformed_cases()
    seen = set()
    uniq = []
    for e in cs:
        d = dump(e)
        if d not in seen:
            seen.add(d)
            uniq.append(e)
    ctx.notes.append("%d query cases, %d distinct" % (len(cs), len(uniq)))
    inm = [in_model(e) for e in uniq]
    sx = [bridge.to_sx(e) for e in uniq]
    ax = ctx.driver.call("extract", [[s] for s in sx])
    ar = ctx.driver.call("remove", [[s] for s in sx])
    # extraction cross-check: a sample of the driver's answers re-evaluated inside Coq by vm_compute
    import core
    withmd = [i for i, e in enumerate(uniq) if has_md(e)]
    order = withmd + [i for i in range(len(uniq)) if i not in set(withmd)]
    core.coq_crosscheck(ctx, ID, "From FA.Base Require Import PyAst Value Traverse.\nFrom FA.Model Require Import MetaData.",
                        core.xcheck_sample([uniq[i] for i in order], [ar[i] for i in order],
                                           lambda e: "remove_empty %s" % bridge.to_coq(e),
                                           lambda a: ("Some %s" % bridge.sx_to_coq(bridge.parse_sx(a[3:]))) if a.startswith("OK ")
                                           else ("None" if a == "NONE" else None)))
    for e, m, a1, a2 in zip(uniq, inm, ax, ar):
        if has_md(e):
            ctx.distinct.add(dump(e))
        ctx.count("wrappers_per_case", str(min(6, sum(1 for n in ast.walk(e) if is_md(n)))))
        if not m:
            ctx.count("correspondence", "skipped: dictionary outside the modelled literal sub-grammar")
        check_extract(ctx, e, a1, corr=m)
        raw_src = any(is_md(n) and n.args and not isinstance(n.args[0], ast.AST) for n in ast.walk(e))
        check_remove(ctx, e, a2, corr=m and not raw_src)
    for e in uniq[2:5] + uniq[60:63]:
        st, a, mds = impl_extract(e)
        ctx.sample({"input": bridge.dump(e), "extract": [bridge.dump(a), repr(mds)] if st == "ok" else "raises " + a,
                    "remove_empty": bridge.dump(impl_remove(e)[1])})


def replay(ctx, w):
    e = eval(w["expr_dump"], dict(vars(ast)))
    which = w.get("oracle") or w.get("correspondence")
    sx = bridge.to_sx(e)
    if which in ("extract",):
        check_extract(ctx, e, ctx.driver.call("extract", [[sx]])[0], corr=bool(w.get("correspondence")))
    elif which == "literal_eval":
        check_literal(ctx, e, ctx.driver.call("liteval", [[sx]])[0])
    else:
        check_remove(ctx, e, ctx.driver.call("remove", [[sx]])[0], corr=bool(w.get("correspondence")))

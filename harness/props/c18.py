"""C18 - simplification is total on well-formed queries."""
from __future__ import annotations

import ast
import copy
import random

import bridge
import core
import gen
import simp_common as sc
import c02
from gen import A, C, N, call, fcall, lam, mcall

ID = "C18"
TAG, EXTRACT, DRIVER = sc.TAG, sc.EXTRACT, sc.DRIVER
COQ_FILES = ["FA/Proofs/SimplifyFacts.v", "FA/Proofs/SimplifyPkg.v", "FA/Proofs/SimplifyTotal.v", "FA/Proofs/SimplifyFuel.v", "FA/Properties/C18.v"]

LEVEL = ("Coq theorem simp_no_crash over the executable model of simplify_chained_calls: on every well-formed query, for every fuel, "
         "stack and counter, the result is never a Crash, an Ok result is again well-formed and contains no raw (malformed) slot, and "
         "IndexErr arises only from a constant index outside a tuple/list literal; odd selectors leave the sub-expression in place. "
         "Termination is not proved (fuel); it is exercised by the correspondence only.")
TRUSTED = c02.TRUSTED
ASSUME = c02.ASSUME
RULE = ("C02's corpus and grammar plus literal projections with variable, negative, slice, None, string-on-tuple, out-of-range and "
        "absent-key selectors inserted at random positions of random well-scoped queries, and all small trees of a selector grammar; "
        "each output must unparse, compile and contain no raw slot; the implementation may only fail with FuncADLIndexError. "
        "Non-trivial = query contains a literal projection; distinct by ast.dump")

ODD = [
    "(1, 2, 3)[i]", "(1, 2, 3)[-1]", "(1, 2, 3)[0:2]", "[1, 2][x.y]", "{'a': 1}[k]", "{e.k: 1}['a']", "{'a': 1}['b']", "{'a': 1}.b",
    "(1, 2)[5]", "[1, 2][5]", "(1, 2)[None]", "{'a': 1}[None]", "{'a': 1, k: 2}['a']", "{k: 2, 'a': 1}['a']", "(1, 2)['x']",
    "(1, 2)[1.0]", "(1, 2)[True]", "[1, 2][1.5]", "{1: 2}[1.0]", "{'a': 1}[(1, 2)]", "(1, 2)[(0,)]", "()[0]", "[][0]", "{}['a']", "{}.a",
    "(lambda t: t[5])((1, 2))", "(lambda t, i: t[i])((1, 2), 1)", "(lambda t, i: t[i])((1, 2), 7)", "(lambda d: d.zz)({'a': 1})",
    "Select(ds, lambda e: (e.a, e.b)[e.i])", "Select(Select(ds, lambda e: (e.a, e.b)), lambda t: t[-1])",
    "Select(Select(ds, lambda e: [e.a, e.b]), lambda t: t[1:])", "Select(Select(ds, lambda e: {'a': e.a}), lambda d: d['b'])",
    "First(ds)[-1]", "First(Select(ds, lambda e: (e.a, e.b)))[e]", "Select(ds, lambda e: {**e.d}['a'])", "{**d}.a",
    "Select(ds, lambda e: e.jets[0])", "(1, 2)[0][0]", "((1, 2), 3)[0][1]", "((1, 2), 3)[0][2]", "{'a': (1, 2)}['a'][1]", "{'a': {'b': 1}}.a.b",
    "(1, 2)[-2]", "[1][-1]", "(1, 2, 3)[-3]", "(lambda s: s[-2])((1, 2))", "Select(Select(ds, lambda e: (e.a, e.b)), lambda t: t[-2])",
    "First(Select(ds, lambda e: [e.a, e.b]))[-2]", "(1, 2)[-3]", "[1][-2]",
    "First()", "First().a", "First()[0]", "First().m()", "Select()", "Select(ds)", "Where(ds, 1)", "SelectMany(ds, f)",
    # literals with a starred element have no fixed positions (F37)
    "(*(1, 2), 3)[0]", "[*ds, 1][-1]", "(1, *(2, 3))[1]", "Select(ds, lambda e: (*e.jets, e.a)[1])", "(lambda t: (*t, 0)[2])((1, 2))",
    # ... from either end, wherever the star is
    "(1, *(2, 3))[-1]", "[1, *(2, 3)][-1]", "(1, *(2, 3))[-3]", "(1, *(2, 3))[0]", "(1, 2, *(3,))[1]", "(1, *(2, 3), 4)[-1]", "(1, *(2, 3), 4)[0]",
    "(*(1, 2),)[-1]", "Select(ds, lambda e: (e.a, *e.jets)[-1])", "(lambda t: (0, *t)[-1])((1, 2))", "(lambda t: (0, *t)[-2])((1, 2))",
    "Select(Select(ds, lambda e: (e.a, *e.jets)), lambda t: t[-1])", "First(Select(ds, lambda e: [e.a, *e.jets]))[-1]",
    # computed constant selectors: only -<int literal> is a negative literal index; +n, ~n, not n, -(-n) are expressions
    "(1, 2, 3, 4)[+1]", "(1, 2, 3, 4)[~0]", "(1, 2, 3, 4)[not 0]", "(1, 2, 3, 4)[~1]", "[1, 2, 3][+0]", "{1: 'a', 2: 'b'}[+1]", "{-1: 'a', 1: 'b'}[+1]",
    "(1, 2, 3)[-(-1)]", "(1, 2, 3)[-True]", "Select(Select(ds, lambda e: (e.a, e.b, e.met)), lambda t: t[~0])", "(lambda t: t[+1])((1, 2, 3))",
    "First(Select(ds, lambda e: (e.a, e.b)))[~0]", "SelectMany(Select(ds, lambda e: (e.jets, e.trk)), lambda t: t[~0])",
]


def _const(v):
    return ast.Constant(value=v)


def odd_selectors(rng: random.Random, scope):
    r = rng
    sels = [N(r.choice(scope)) if scope else N("i"), ast.UnaryOp(op=ast.USub(), operand=C(1)), _const(-1), _const(-7),
            ast.Slice(lower=C(0), upper=C(2), step=None), _const(None), _const("zz"), _const(99), _const(True), _const(1.5),
            A(N(r.choice(scope)) if scope else N("e"), "i"), gen.tup(C(0)), _const(0), _const(1)]
    return sels


def inject(rng: random.Random, q: ast.expr) -> ast.expr:
    """Replace random sub-expressions e by <literal containing e>[odd selector] (or .absent)."""
    q = copy.deepcopy(q)
    nodes = [n for n in ast.walk(q) if isinstance(n, ast.expr) and not isinstance(n, (ast.Lambda, ast.Slice))]
    r = rng
    for _ in range(r.randrange(1, 3)):
        tgt = r.choice(nodes)
        inner = copy.deepcopy(tgt)
        k = r.randrange(4)
        if k == 0:
            pk = gen.tup(inner, C(2), C(3))
        elif k == 1:
            pk = gen.lst(C(1), inner)
        elif k == 2:
            pk = gen.dct([(C("a"), inner), (C("b"), C(2))])
        else:
            pk = gen.dct([(C("a"), inner), (N("k"), C(2))]) if r.random() < 0.3 else gen.dct([(C(1), inner)])
        sel = r.choice(odd_selectors(r, []))
        if isinstance(pk, (ast.Tuple, ast.List)) and r.random() < 0.25:
            # the boundary indices: -len (legal), -len-1 and len (index errors), as a literal and as a constant node
            n = len(pk.elts)
            k = r.choice([-n, -n - 1, n, n - 1])
            sel = _const(k) if (k >= 0 or r.random() < 0.5) else ast.UnaryOp(op=ast.USub(), operand=C(-k))
        if isinstance(pk, ast.Dict) and r.random() < 0.4:
            new = A(pk, r.choice(["a", "zz", "b"]))
        elif isinstance(pk, ast.Dict) and r.random() < 0.5:
            new = gen.sub(pk, C(r.choice(["a", "zz", 1, 2])))
        else:
            new = gen.sub(pk, sel)
        # overwrite the target in place (keeps the surrounding tree)
        tgt.__class__ = new.__class__
        tgt.__dict__.clear()
        tgt.__dict__.update(new.__dict__)
    return q


def selector_grammar(size: int):
    def leaves():
        return [N("e"), C(0), C(5), C(-1), C("a"), C("zz"), C(None), C(True)]

    un = [lambda a: gen.tup(a), lambda a: gen.lst(a, C(9)), lambda a: gen.dct([(C("a"), a)]), lambda a: A(a, "a"), lambda a: A(a, "zz"),
          lambda a: ast.UnaryOp(op=ast.USub(), operand=a), lambda a: fcall("First", a), lambda a: gen.sub(a, ast.Slice(lower=C(0), upper=None, step=None))]
    bi = [lambda a, b: gen.sub(a, b), lambda a, b: gen.tup(a, b), lambda a, b: gen.dct([(a, b)]) if isinstance(a, ast.Constant) or True else None,
          lambda a, b: call(lam("t", gen.sub(N("t"), b)), [a]), lambda a, b: fcall("Select", a, lam("t", b))]
    return gen.enum_trees(leaves, {1: un, 2: bi}, size)


def has_projection(q):
    return any(isinstance(n, ast.Subscript) or (isinstance(n, ast.Attribute) and isinstance(n.value, ast.Dict)) for n in ast.walk(q))


def check_total(ctx, q, model_ln, datasets):
    st, out, _ = sc.impl(q)
    ctx.evaluations += 1
    ctx.corr_cases += 1
    impl_ln = sc.impl_line(q)
    kind = sc.same_result(impl_ln, model_ln)
    ctx.count("correspondence", kind)
    ctx.count("impl_result", st if st != "crash" else "crash:" + str(out))
    failed = False
    wf = wellformed(q)
    if has_projection(q) and wf:
        ctx.distinct.add(ast.dump(q))
    if wf:
        if st in ("crash", "recursion"):
            failed = True
            ctx.fail("failing-input", "simplify(%s) %s" % (bridge.dump(q), "raises " + str(out) if st == "crash" else "does not terminate (RecursionError)"),
                     {"oracle": "total", "query": ast.unparse(q), "query_dump": ast.dump(q)}, key=c02.key(q))
        elif st == "indexerr":
            # permitted only for a constant index outside a tuple/list literal.  The model decides that exactly
            # (theorem index_error_exactly_out_of_range); where it says the projection is in range and python agrees
            # by evaluating the query, the implementation's index error is a violation with this query as replay.
            for i, ds in (enumerate(datasets) if model_ln != "INDEXERR" else []):
                a = sc.pyeval(q, ds, {"i": 1, "k": "a"})
                if a[0] == "ok":
                    failed = True
                    ctx.fail("failing-input", "simplify(%s) raises FuncADLIndexError although the query evaluates to %r" % (bridge.dump(q), a[1]),
                             {"oracle": "index-error", "query": ast.unparse(q), "query_dump": ast.dump(q), "dataset": i}, key=c02.key(q))
                    break
        elif st == "ok":
            why = None
            if sc.has_raw(out):
                why = "contains a raw Python value in a node slot"
            else:
                try:
                    src = ast.unparse(out)
                    compile(ast.fix_missing_locations(ast.Expression(body=copy.deepcopy(out))), "<simplified>", "eval")
                    ast.parse(src, mode="eval")
                except RecursionError:
                    why = "is cyclic"
                except Exception as ex:  # noqa
                    why = "cannot be unparsed/compiled: %s: %s" % (type(ex).__name__, ex)
            if not why:
                extra = sc.free_names(out) - sc.free_names(q) - {"Select", "Where", "SelectMany", "First"}
                if extra:
                    why = "is not well-scoped any more (unbound name(s) %s)" % sorted(extra)
            if why:
                failed = True
                ctx.fail("failing-input", "simplify(%s) %s: %s" % (bridge.dump(q), why, ast.dump(out)[:300]),
                         {"oracle": "valid-ast", "query": ast.unparse(q), "query_dump": ast.dump(q)}, key=c02.key(q))
            else:
                for i, ds in enumerate(datasets):
                    a = sc.pyeval(q, ds, {"i": 1, "k": "a"})
                    if a[0] != "ok":
                        continue
                    b = sc.pyeval(out, ds, {"i": 1, "k": "a"})
                    ctx.count("oracle_eval", "compared")
                    if a != b:
                        failed = True
                        ctx.fail("failing-input", "simplify(%s) = %s evaluates to %r, the original to %r" % (bridge.dump(q), bridge.dump(out), b, a),
                                 {"oracle": "semantic", "query": ast.unparse(q), "query_dump": ast.dump(q), "dataset": i}, key=c02.key(q))
                        break
    if kind == "differ" and not failed:
        ctx.corr_disagreements += 1
        ctx.fail("no-failing-input-found", "correspondence simp vs simplify_chained_calls broke on %s: model %s, code %s" % (
            bridge.dump(q), model_ln[:300], impl_ln[:300]),
            {"correspondence": "simp", "query": bridge.dump(q), "query_dump": ast.dump(q), "model": model_ln[:2000], "impl": impl_ln[:2000]})


OPS = ("Select", "Where", "SelectMany")


def wellformed(q) -> bool:
    """The hypothesis of simp_no_crash (wfq in Proofs/SimplifyTotal.v), on Python trees."""
    for n in ast.walk(q):
        if isinstance(n, ast.Call) and isinstance(n.func, ast.Name):
            if n.func.id in OPS:
                if len(n.args) != 2 or not isinstance(n.args[1], ast.Lambda) or n.keywords:
                    return False
                if n.func.id == "SelectMany" and not n.args[1].args.args:
                    return False
            if n.func.id == "First" and not n.args:
                return False
        if isinstance(n, ast.Lambda) and not bridge._plain_lambda(n):
            return False
        if isinstance(n, ast.Lambda) and len({a.arg for a in n.args.args}) != len(n.args.args):
            return False
        if isinstance(n, (ast.ListComp, ast.GeneratorExp, ast.SetComp, ast.DictComp, ast.comprehension)):
            return False            # sugar is lowered before the simplifier runs (wfq excludes comprehension nodes)
        if isinstance(n, ast.Dict) and any(k is None for k in n.keys):
            return False
        if isinstance(n, ast.Constant) and isinstance(n.value, float):
            return False
    # operator names are not first-class values
    callee_ids = {id(n.func) for n in ast.walk(q) if isinstance(n, ast.Call)}
    for n in ast.walk(q):
        if isinstance(n, ast.Name) and n.id in OPS + ("First",) and id(n) not in callee_ids:
            return False
    return True


def shared_selector_family():
    """A selector that reaches several literal projections through one lambda parameter (the substituted argument node is shared
    by every use in the implementation): each projection must be decided on its own, for boundary indices of both signs."""
    out = []
    lits = ["(ds, 2, 3)", "[4, ds, 6]", "(7,)", "(ds, 9)"]
    for idx in ("-1", "-2", "-3", "0", "1", "2", "-4", "3"):
        for a in lits:
            for b in lits:
                out.append("(lambda i: (%s[i], %s[i]))(%s)" % (a, b, idx))
        out.append("Select(ds, lambda e: (lambda last: (e.a, e.b, e.met)[last] - (e.met, e.b, e.a)[last])(%s))" % idx)
        out.append("(lambda i: (lambda j: ((1, 2, 3)[i], (4, 5, 6)[j], (7, 8, 9)[i]))(i))(%s)" % idx)
        out.append("(lambda i: {'k': (1, 2)[i], 'c': [(3, 4)[i], (5, 6)[i]]})(%s)" % idx)
    # starred arguments of called lambdas: python expands them, the simplifier must leave the call alone (F29)
    out += ["Select(ds, lambda x: (lambda a: a)(*(x,)))", "(lambda a, b: a + b)(*(1, 2))", "(lambda a, b: a - b)(1, *(2,))",
            "Select(ds, lambda e: (lambda a, b: (a, b)[0])(*(e.a, e.b)))", "(lambda a: Select(ds, lambda e: e.a + a))(*(3,))",
            "Select(Select(ds, lambda e: (e.a, e.b)), lambda t: (lambda a, b: a + b)(*t))"]
    return out


def out_of_range_family():
    """A constant index beyond the end of a package that reaches its literal only through substitution, at every depth of
    lambdas that stay in the tree below a lambda that is being inlined: the index error (or whatever else happens) must
    not leave a half-rewritten query behind."""
    out = []
    for pk, n in (("(e.a, e.b)", 2), ("[e.jets, e.met]", 2), ("(e.jets, e.trk, e.met)", 3)):
        for k in (n, -n - 1, n + 5):
            bad = "t[%d]" % k
            for op in ("Select", "Where", "SelectMany"):
                src = "Select(ds, lambda e: %s)" % pk
                inner_src = "t[0]" if "jets" in pk else "ds"
                out.append("%s(%s, lambda t: %s)" % (op, src, bad))
                out.append("%s(%s, lambda t: Select(%s, lambda q: q + %s))" % (op, src, inner_src, bad))
                out.append("%s(%s, lambda t: Where(%s, lambda q: q > %s[0]))" % (op, src, inner_src, bad))
                out.append("%s(%s, lambda t: Select(%s, lambda q: Select(%s, lambda r: r + q + %s)))" % (op, src, inner_src, inner_src, bad))
                out.append("%s(%s, lambda t: (lambda u: Select(%s, lambda q: q + u[%d]))(t))" % (op, src, inner_src, k))
                out.append("%s(%s(%s, lambda t: t), lambda t: Select(%s, lambda q: (q, %s)))" % (op, "Where" if op != "Where" else "Select", src, inner_src, bad))
    return out


def run(ctx):
    datasets = sc.make_datasets(random.Random(20260927))
    qs = []
    for s in out_of_range_family():
        qs.append(sc.parse(s))
    for s in shared_selector_family():
        qs.append(sc.parse(s))
    for s in ODD + c02.CORPUS:
        try:
            qs.append(sc.parse(s))
        except SyntaxError:
            pass
    qs.append(gen.sub(sc.parse("(1, 2, 3)"), _const(-1)))
    qs.append(gen.sub(sc.parse("(1, 2, 3)"), _const(-4)))
    size = ctx.budget(3, 4)
    by = selector_grammar(size)
    allt = [t for s in sorted(by) for t in by[s] if t is not None]
    cap = ctx.budget(1200, 40000)
    if len(allt) > cap:
        ctx.notes.append("selector grammar to size %d has %d trees; seeded sample of %d" % (size, len(allt), cap))
        allt = ctx.rng.sample(allt, cap)
    else:
        ctx.notes.append("selector grammar to size %d exhaustive: %d trees" % (size, len(allt)))
    qs += allt
    for naming, n in (("hygienic", ctx.budget(150, 5000)), ("any", ctx.budget(250, 10000))):
        g = sc.QueryGen(ctx.rng, naming=naming, kw_calls=True)
        for _ in range(n):
            q = g.query(ctx.rng.randrange(2, 5))
            qs.append(inject(ctx.rng, q))
            if ctx.rng.random() < 0.3:
                qs.append(q)
    ml = sc.model_lines(ctx, qs)
    for q, m in zip(qs, ml):
        check_total(ctx, q, m, datasets)
    for q in qs[:4] + qs[-3:]:
        st, out, _ = sc.impl(q)
        ctx.sample({"query": bridge.dump(q), "result": bridge.dump(out) if st == "ok" else st})


def replay(ctx, w):
    q = eval(w["query_dump"], dict(vars(ast)))
    m = sc.model_lines(ctx, [q])[0]
    check_total(ctx, q, m, sc.make_datasets(random.Random(20260927)))

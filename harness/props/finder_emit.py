"""Development tool of the C03 package (not used by ./check): prints real `tokenize` streams and their
segment decompositions as Coq terms, for coq/FA/Proofs/LambdaFinderWitness.v.
Usage: /venv/bin/python harness/props/finder_emit.py"""
import sys

import finder_common as fc

K = {'n': 'KName', 'o': 'KOp', 'l': 'KNewline', 'j': 'KNl', 'c': 'KComment', 'e': 'KErr', 'x': 'KOther'}


def coq_str(s):
    return "nl_text" if s == "\n" else '"' + s.replace('"', '""') + '"'


def T(r):
    return "T %d %s %s" % (r[0], K[r[1]], coq_str(r[2]))


def lst(rows):
    return "[" + "; ".join(T(r) for r in rows) + "]"


def stream(name, src, first):
    st = fc.Stream(src.splitlines(True), first)
    print("Definition %s : list tok :=\n  [%s].\n" % (name, ";\n   ".join(T(r) for r in st.rows)))
    print("(* %s: lambda/def tokens at %s *)" % (name, [(i, r[2]) for i, r in enumerate(st.rows) if r[2] in ("lambda", "def")]))
    return st


def ends(st, a):
    """index of the first `,`/`)` at relative depth 0 after token a"""
    d = [0, 0, 0]
    for i in range(a + 1, len(st.rows)):
        k, s = st.rows[i][1], st.rows[i][2]
        if k == 'o' and s in (",", ")") and d == [0, 0, 0]:
            return i
        if k == 'o' and s in "()[]{}":
            j = "([{".find(s)
            if j >= 0:
                d[j] += 1
            else:
                d[")]}".find(s)] -= 1
    return len(st.rows)


def segments(name, st, starts):
    rows = st.rows
    prev = 0
    for n, a in enumerate(starts):
        b = ends(st, a)
        ni = max(i for i in range(prev, a) if rows[i][1] == 'n')
        print("Definition %s_g%d : segment :=\n  mkSeg %s %s %d %s\n        %d %s (%s)." % (
            name, n + 1, lst(rows[prev:ni]), coq_str(rows[ni][2]), rows[ni][0], lst(rows[ni + 1:a]), rows[a][0],
            lst(rows[a + 1:b]), T(rows[b])))
        prev = b + 1
    print("Definition %s_tail : list tok := %s.\n" % (name, lst(rows[prev:])))


if __name__ == "__main__":
    TAILROW = "r = ds.Select(lambda e: (e.a,\n                         e.b)).Select(lambda e: e.c)\n"
    st = stream("tailrow_s0", TAILROW, 1)
    segments("tailrow", st, [i for i, r in enumerate(st.rows) if r[2] == "lambda"])
    CONT = "r = ds.Select(lambda e: (e.a,\n    e.b)).Select(\n    lambda e: e.c)\n"
    stream("cont_s0", CONT, 2)
    st = stream("cont_s1", CONT, 1)
    segments("cont", st, [i for i, r in enumerate(st.rows) if r[2] == "lambda"])
    BS = "r = ds.Select(lambda e: e.a) \\\n    .Select(lambda e: e.b)\n"
    st = stream("bslash_s0", BS, 0)
    segments("bslash", st, [i for i, r in enumerate(st.rows) if r[2] == "lambda"])
    NF = "r = ds.Select(x, lambda e: e.a)\n"
    st = stream("nonfirst_s0", NF, 0)
    segments("nonfirst", st, [i for i, r in enumerate(st.rows) if r[2] == "lambda"])
    DF = "@ident\ndef g(e): return e.a\nr = ds.Select(g)\n"
    stream("decodef_s0", DF, 0)

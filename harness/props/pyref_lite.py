"""A small reference interpreter for func_adl queries, independent of the library and of the Coq
semantics: the query ``ast`` is compiled by CPython itself (scoping, closures, keyword binding,
short-circuiting are Python's own) and evaluated in a namespace that defines the LINQ operators

* as *methods* of ``Seq(list)``  (``seq.Select(f)``), and
* as *functions*                  (``Select(seq, f)``),

plus a few methods of the same shape that are **not** operators (``Take``, ``Skip``, ``OrderBy``,
``Filter``, ``select`` ...) and exist *only* as methods: a pass that wrongly turned ``s.Take(2)``
into ``Take(s, 2)`` makes the evaluation fail with NameError.

Used by the C17 check (method form == function form on every dataset).
"""
from __future__ import annotations

import ast
import copy
import functools
from typing import Any, Dict, List


class Seq(list):
    # --- the operators (func_adl_ast_utils.default_list_of_functions) ---
    def Select(self, f):
        return Seq(f(x) for x in self)

    def Where(self, f):
        return Seq(x for x in self if f(x))

    def SelectMany(self, f):
        return Seq(y for x in self for y in f(x))

    def First(self):
        return self[0]

    def Count(self):
        return len(self)

    def Sum(self):
        return sum(self)

    def Max(self):
        return max(self)

    def Min(self):
        return min(self)

    def Aggregate(self, init, f):
        return functools.reduce(f, self, init)

    def ResultTTree(self, *a):
        return ("ResultTTree", list(self)) + tuple(a)

    def ResultAwkwardArray(self, *a):
        return ("ResultAwkwardArray", list(self)) + tuple(a)

    def ResultPandasDF(self, *a):
        return ("ResultPandasDF", list(self)) + tuple(a)

    # --- same shape, not operators: methods only ---
    def Take(self, n):
        return Seq(self[:n])

    def Skip(self, n=1):
        return Seq(self[n:])

    def OrderBy(self, f):
        return Seq(sorted(self, key=f))

    def Filter(self, f):
        return Seq(x for x in self if f(x))

    def select(self, f):
        return Seq(f(x) for x in self)

    def Total(self):
        return sum(self)


OPERATORS = ["Select", "SelectMany", "Where", "First", "ResultTTree", "ResultAwkwardArray", "ResultPandasDF",
             "Min", "Max", "Sum", "Aggregate", "Count"]
NON_OPERATOR_METHODS = ["Take", "Skip", "OrderBy", "Filter", "select", "Total"]


class Rec:
    """A record (event, jet, ...) with attribute access; identity-free equality for comparisons."""

    def __init__(self, **kw):
        for k, v in kw.items():
            setattr(self, k, v)

    def key(self):
        return tuple(sorted((k, plain(v)) for k, v in vars(self).items()))

    def scaled(self, k=1):          # a non-operator method on records, also used with a keyword
        return self.pt * k


def plain(v: Any) -> Any:
    """Comparable, hashable normal form of a result."""
    if isinstance(v, Rec):
        return ("rec", v.key())
    if isinstance(v, (list, tuple)):
        return (type(v).__name__ if not isinstance(v, Seq) else "list",) + tuple(plain(x) for x in v)
    if isinstance(v, dict):
        return ("dict",) + tuple((plain(k), plain(x)) for k, x in v.items())
    return (type(v).__name__, v)


def namespace(extra: Dict[str, Any]) -> Dict[str, Any]:
    ns: Dict[str, Any] = {"__builtins__": {"len": len, "abs": abs, "True": True, "False": False, "None": None}}
    for op in OPERATORS:
        ns[op] = (lambda op: lambda seq, *a, **k: getattr(Seq, op)(seq, *a, **k))(op)
    ns.update(extra)
    return ns


def run(q: ast.AST, env: Dict[str, Any]):
    """('ok', plain value) or ('exc', class name)."""
    try:
        code = compile(ast.fix_missing_locations(ast.Expression(body=copy.deepcopy(q))), "<query>", "eval")
        return ("ok", plain(eval(code, namespace(env))))
    except RecursionError:
        raise
    except Exception as ex:  # noqa
        return ("exc", type(ex).__name__)


def _jets(*pts):
    return Seq(Rec(pt=p, eta=(p * 7) % 5 - 2) for p in pts)


def datasets() -> List[Dict[str, Any]]:
    """Several datasets, including empty collections at both levels."""
    return [
        {"ds": Seq([])},
        {"ds": Seq([Rec(jets=_jets(), met=0)])},
        {"ds": Seq([Rec(jets=_jets(10, 25, 40), met=5), Rec(jets=_jets(), met=-3), Rec(jets=_jets(31), met=12)])},
        {"ds": Seq([Rec(jets=_jets(-5, 0, 5, 50), met=1), Rec(jets=_jets(7, 7), met=1)])},
        {"ds": Seq([Rec(jets=_jets(3), met=100)] * 3)},
    ]

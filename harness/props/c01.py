"""C01 - a fluent query means what the user's Python chain computes (end to end)."""
from __future__ import annotations

import ast
import random
import time
from typing import List

import bridge
import core
import pipe_common as pc
import simp_common

ID = "C01"
TAG = pc.TAG
EXTRACT = pc.EXTRACT
DRIVER = pc.DRIVER
COQ_FILES = ["FA/Proofs/PipelineFacts.v", "FA/Proofs/PipelineSem.v", "FA/Proofs/PipelineCapture.v", "FA/Proofs/PipelineSimp.v", "FA/Proofs/PipelineAdm.v", "FA/Properties/C01.v"]

LEVEL = ("Coq theorems over the composed model Model/Pipeline.v (acquire -> sugar -> follow -> Op(parent, lambda) with "
         "callback metadata -> terminal -> remove_empty -> ext, agg, simplify; node names and argument orders read from "
         "the generated tables) and an independently written direct semantics of chains (map / filter / concat-map, each "
         "lambda under its own captured values).  Proved outright, for every backend and dataset, chains of any length and "
         "operator order: operator_chain_means_direct (untyped chains of string / ast lambdas in C10's grammar, with "
         "comprehension sugar, through a terminal and value()), captured_literals_chain_means_direct (the same with "
         "callables whose captured variables are literals and whose bodies are in C04's first-order fragment), "
         "remove_empty_preserves_meaning, passes_preserve_meaning_ext_agg, and - composing C02's whole-algorithm theorem - "
         "passes_preserve_meaning_no_first and fluent_query_end_to_end_no_first / fluent_callables_end_to_end_no_first: "
         "those chains mean what Python computes after ext, agg AND simplify with no hypothesis about any component, "
         "provided the query reaching the simplifier is admissible (well formed, no reserved arg_N names, parameters "
         "unknown to the backend as functions, no First; decided by admissible_is_decided) and the backend meets C02's "
         "backend_ok; for string / ast chains fluent_query_end_to_end_plain derives all of that from a boolean condition "
         "on the chain itself (simplifiable_chain: per lowered lambda, checked after ext and agg of that lambda) plus "
         "nofun for the listed parameter names.  Proved relative to named hypotheses about component models: query_means_chain and "
         "query_passes_no_first (capture_sound, follow_sound: typed datasets, general callables), passes_preserve_meaning "
         "(simp_ok: queries with First).  Model tied to the code by exact comparison of the AST handed to the executor on "
         "generated programs; the property itself checked on the implementation by executing the chains.")
TRUSTED = ["Coq 8.16.1 kernel (coqc); no axioms (Print Assumptions: closed under the global context)",
           "harness/sync_tables.py + harness/tables/*.py (operator_nodes, terminals, ext_default_ops, agg_rules read from the source)",
           "extraction: ExtrOcamlBasic + ExtrOcamlNativeString; ocaml/driver_pipe.ml codecs",
           "harness/props/pipe_common.py: program generator, lazy in-memory Seq, CPython as reference evaluator of the recorded AST",
           "types_common.Model.world_sx (class table read from the live classes), the closure snapshot read with inspect at the call"]
ASSUME = ["hypotheses of query_means_chain / passes_preserve_meaning named in Properties/C01.v: capture_sound (C04/C05 are partial), "
          "follow_sound (C07/C09 are partial; also: the backend interprets defaults as the class table declares them), "
          "simp_ok only for queries that mention First (C02's whole-algorithm theorem excludes them: the First push-through "
          "is sound for lazy LINQ, not for the eager list semantics of eval); admissibility of the query reaching the "
          "simplifier is a decidable hypothesis, not derived from the chain; md_identity / terminals_ok (MetaData and "
          "result terminals denote the stream they are given)",
          "a dictionary literal of the query language is a record (entries reachable as attributes), as func_adl's back ends read it",
          "LINQ operators are lazy (an element is computed when demanded)"]
RULE = ("generated Python programs (chains of 1-6 Select/Where/SelectMany calls, branching from shared parents, lambdas as "
        "callables (positionally or by keyword) / strings / ast objects, lambdas written once and turned into a query "
        "several times with another captured value (for loop, local and module-level factory, rebound closure variable), "
        "typed and untyped datasets, optional terminals), corpus first; a case is "
        "non-trivial when the library built a query for it and direct execution computed a value on at least one dataset; "
        "distinct by program text")

N_DATASETS = 6


# ---------------------------------------------------------------- corpus: hand-written programs, run first

CORPUS = [
    # the realistic 3-stage chain of DESIGN section 5 (F05): capture across fused stages
    dict(typed=False, body=[
        "s1 = ds.Select(lambda x: x.jets.Select(lambda j: (j, x.b)))",
        "s2 = s1.Select(lambda ps: ps.Select(lambda p: p[0].trk.Select(lambda x: x.a + p[1])))"],
        ret="[s2]"),
    # defaults, keywords and a renaming method callback two levels down (F09, F10)
    dict(typed=True, body=[
        "s1 = ds.Select(lambda e: e.Jets(cut=0).Select(lambda j: j.trks().Select(lambda t: t.pt(k=2) + j.pt(scale=2))))"],
        ret="[s1.AsAwkwardArray(['pt'])]"),
    # captured values, helper of a helper, data class, comprehension
    dict(typed=True, globals_src=["g = 3", "def h2(a, b): return a - b * g", "def h1(j): return h2(j.pt(), j.eta())"],
         body=["s1 = ds.SelectMany(lambda e: [P2(h1(j), y=j.a) for j in e.Jets() if j.good(cut=g)])",
               "s2 = s1.Where(lambda p: p.x + p.y > 0)",
               "s3 = s2.Select('lambda p: {\"k\": p.x, \"z\": (p.y, 1)[0]}')"],
         ret="[s3, s2.AsROOTTTree('f.root', 'tree', ['x', 'y'])]"),
    # F19: attribute names of Python's own ast nodes
    dict(typed=False, body=["s1 = ds.Select(lambda e: (e.jets.First().trk, e.jets.First().a))",
                            "s2 = s1.Select(lambda p: p[0].Count() + p[1])"], ret="[s2]"),
    # F20: an inner lambda parameter re-using the outer name must get the inner item type (other defaults!)
    dict(typed=True, body=["s1 = ds.SelectMany('lambda e: e.Jets()')",
                           "s2 = s1.Select('lambda j: j.trks().Select(lambda j: j.pt())')",
                           "s3 = s1.Select(L('lambda j: Where(j.trks(kind=-9), lambda j: j.ok()).Select(lambda j: j.pt(k=4))'))"],
         ret="[s2, s3]"),
    # branching from a shared parent, Count / len / Sum, function-form strings
    dict(typed=False, body=["s1 = ds.Where('lambda e: Count(e.jets) > 0')",
                            "s2 = s1.Select('lambda e: Sum(Select(e.jets, lambda j: j.a)) + len(e.trk)')",
                            "s3 = s1.Select(L('lambda e: First(e.jets).pt(k=1)'))"],
         ret="[s2.AsPandasDF('n'), s3.AsParquetFiles('o.pq', ['a'])]"),
]


def corpus_text(c: dict) -> str:
    cm = pc.class_model(random.Random(7))
    cm.update({"cb_jet": True, "cb_trkpt": True, "cb_ev": False})
    out = [pc.PRELUDE, pc.class_source(cm), ""] + list(c.get("globals_src", [])) + ["", "", "def build(ds):"]
    out += ["    " + ln for ln in c["body"]]
    out.append("    return " + c["ret"])
    return "\n".join(out) + "\n"


# ---------------------------------------------------------------- one program through everything

def program_key(text: str) -> str:
    return core.digest({"p": ID, "program": text})


def check_program(ctx, text: str, typed: bool, data_seed: int, prog=None, pending=None, group="generated"):
    """Runs the implementation and the oracle on one program; queues the model requests.  Returns the Outcome."""
    ctx.evaluations += 1
    ctx.count("group", group)
    ctx.count("dataset", "typed" if typed else "untyped")
    witness = {"program": text, "typed": typed, "data_seed": data_seed}
    key = program_key(text)
    try:
        mod, path = pc.load_program(text)
    except Exception as ex:  # noqa  (a generated program that does not import is a generator bug, not a verdict)
        ctx.count("impl_result", "program-does-not-import:" + type(ex).__name__)
        return None
    try:
        out = pc.Outcome()
        pc.reset_library_state()
        pc.run_implementation(mod, typed, out)
        ctx.count("impl_result", out.status)
        expect_refusal = bool(prog is not None and prog.expect_refusal)
        if prog is not None:
            for f in prog.features:
                ctx.count("features", f.split(":")[0] if f.startswith("terminal") else f)
            ctx.count("chain_length", str(len(prog.stages)))
            for st in prog.stages:
                ctx.count("operator", st.op)
                ctx.count("lambda_given_as", st.mode)
        if out.status == "ok":
            data = pc.make_data(mod, random.Random(data_seed), N_DATASETS)
            direct = pc.run_direct(mod, data)
            oracle_ok = oracle(ctx, text, witness, key, out, data, direct, expect_refusal)
        else:
            oracle_ok = True
            if out.status.startswith("crash"):
                ctx.count("impl_exception", out.status + ": " + out.msg[:60])
        if pending is not None and prog is not None:
            queue_model(ctx, prog, mod, out, typed, witness, oracle_ok, pending)
        return out
    finally:
        pc.unload_program(mod, path)


def oracle(ctx, text, witness, key, out, data, direct, expect_refusal) -> bool:
    """Every query handed to the executor is well formed and, as recorded and after every composition of the
    backend passes, computes on every dataset what direct execution computed (whenever that does not raise)."""
    ok = True
    compared = 0
    for k, a in enumerate(out.recorded):
        wf = pc.wellformed(a)
        if wf is not None:
            ctx.fail("failing-input",
                     "the query handed to the executor is not a readable query: %s ; query: %s" % (wf, _unparse(a)),
                     dict(witness, output=k, oracle="wellformed"), key=key)
            return False
        cache: dict = {}
        for pl in pc.PIPELINES:
            st, t = pc.apply_pipeline(a, pl, cache)
            if st != "ok":
                ctx.count("pass_raised", "%s:%s" % ("+".join(pl), t))
                # a backend pass that raises on a query the library itself built: the property speaks of the meaning
                # after the passes, so there must be one (index errors of the simplifier are designed: C18)
                if t != "FuncADLIndexError":
                    ctx.fail("failing-input", "backend passes %s raise %s on the query %s" % ("+".join(pl), t, _unparse(a)),
                             dict(witness, output=k, pipeline=list(pl), oracle="pass-raises"), key=key)
                    return False
                continue
            for di, events in enumerate(data):
                d = direct[di]
                if d[0] == "build-err":
                    ctx.count("direct", "chain-raises-while-built:" + d[1])
                    continue
                ds, dv = d[k]
                if ds != "ok":
                    if not pl:
                        ctx.count("direct", "raises:" + dv)
                    continue
                if not pl:
                    ctx.count("direct", "value")
                es, ev = pc.eval_recorded(t, events)
                compared += 1
                if es != "ok" or ev != dv:
                    what = ("python computes %s on dataset #%d; the query %s %s: %s" % (
                        _short(dv), di, "as recorded" if not pl else "after " + "+".join(pl),
                        ("computes " + _short(ev)) if es == "ok" else ("raises " + str(ev)), _unparse(t)))
                    ctx.fail("failing-input", what, dict(witness, output=k, pipeline=list(pl), dataset=di, oracle="meaning"), key=key)
                    return False
    if expect_refusal:
        ctx.fail("failing-input", "a captured value that cannot be sent as a literal was not refused",
                 dict(witness, oracle="refusal"), key=key)
        return False
    if compared:
        ctx.distinct.add(key)
    return ok


def _unparse(a) -> str:
    try:
        return ast.unparse(a)[:700]
    except Exception:  # noqa
        return ast.dump(a)[:700]


def _short(v) -> str:
    s = repr(v)
    return s if len(s) < 300 else s[:300] + "..."


# ---------------------------------------------------------------- model side

def queue_model(ctx, prog, mod, out, typed, witness, oracle_ok, pending):
    try:
        if out.status == "ok":
            reqs = pc.model_requests(prog, mod, out.calls, typed)
            for k, (r, a) in enumerate(zip(reqs, out.recorded)):
                pending.append(("query", r, "OK " + bridge.to_sx(a), prog, witness, oracle_ok, k, a))
        elif out.status == "refused" or out.status.startswith("crash:"):
            # the call that raised is the last one noted: the model must fail at that stage, in the same way
            k = len(out.calls) - 1
            if k < 0:
                return
            saved = prog.outputs
            prog.outputs = [(k + 1, None)]
            try:
                reqs = pc.model_requests(prog, mod, out.calls, typed)
            finally:
                prog.outputs = saved
            pos = len(prog.path(k + 1)) - 1
            want = ("REFUSED %d" if out.status == "refused" else "CRASHED %d") % pos
            pending.append(("query", reqs[0], want, prog, witness, oracle_ok, -1, None))
        else:
            ctx.count("model", "not-compared:" + out.status)
    except pc.OutsideDomain as ex:
        ctx.count("model", "outside-domain:" + str(ex)[:40])
    except Exception as ex:  # noqa
        ctx.count("model", "input-construction-failed:" + type(ex).__name__)


def flush_model(ctx, pending):
    if not pending:
        return
    answers = ctx.driver.call("query", [p[1] for p in pending])
    backend_rows, backend_items = [], []
    for (cmd, req, want, prog, witness, oracle_ok, k, a), ans in zip(pending, answers):
        ctx.corr_cases += 1
        got = ans
        if not want.startswith("OK "):
            got = " ".join(ans.split(" ")[:2])
        same = got == want
        ctx.count("model", ("agree:" + want.split(" ")[0]) if same else "differ")
        if not same:
            ctx.corr_disagreements += 1
            if oracle_ok:
                ctx.fail("no-failing-input-found",
                         "correspondence query (Model/Pipeline.v) vs the AST value() hands to the executor broke: model %s ; "
                         "code %s" % (_short_sx(ans), _short_sx(want)),
                         dict(witness, correspondence="query", output=k, model=ans[:3000], impl=want[:3000]),
                         key=program_key(witness["program"]) + "-corr")
        elif a is not None and len(backend_rows) < ctx.budget(400, 4000):
            fuel = max(400, 60 * sum(1 for _ in ast.walk(a)))
            backend_rows.append([str(fuel), bridge.to_sx(a)])
            backend_items.append((a, witness, oracle_ok))
    pending.clear()
    if not backend_rows:
        return
    answers = ctx.driver.call("backend", backend_rows)
    xpairs = []
    for (a, witness, oracle_ok), row, ans in zip(backend_items, backend_rows, answers):
        ctx.corr_cases += 1
        parts = ans.split("\t")
        cache: dict = {}
        st1, e1 = pc.apply_pipeline(a, ("ext",), cache)
        st2, e2 = pc.apply_pipeline(a, ("ext", "agg"), cache)
        st3, e3 = pc.apply_pipeline(a, ("ext", "agg", "simp"), cache)
        impl = [bridge.to_sx(e) if st == "ok" else "-" for st, e in ((st1, e1), (st2, e2), (st3, e3))]
        verdict = "exact"
        if len(parts) != 4 or parts[0] != "OK" or parts[1] != impl[0] or parts[2] != impl[1]:
            verdict = "differ"
        elif parts[3] != impl[2]:
            verdict = simp_common.same_result("OK 0 " + impl[2], "OK 0 " + parts[3]) if "-" not in (impl[2], parts[3]) else "differ"
        ctx.count("model_backend", verdict)
        if verdict == "differ":
            ctx.corr_disagreements += 1
            if oracle_ok:
                ctx.fail("no-failing-input-found",
                         "correspondence backend_passes (ext, agg, simplify of Model/Pipeline.v) vs the exported passes broke on %s"
                         % _unparse(a), dict(witness, correspondence="backend", model=ans[:3000], impl=" ".join(impl)[:3000]),
                         key=program_key(witness["program"]) + "-backend")
        elif verdict == "exact" and sum(1 for _ in ast.walk(a)) <= 30 and len(xpairs) < 6 and parts[3] != "-":
            xpairs.append(("backend_passes %s%%nat %s" % (row[0], bridge.to_coq(a)),
                           "Some %s" % bridge.sx_to_coq(bridge.parse_sx(parts[3]))))
    global _xchecked
    if xpairs and not _xchecked:
        _xchecked = True
        core.coq_crosscheck(ctx, ID, "From FA.Base Require Import PyAst Value Traverse Names.\nFrom FA.Model Require Import Pipeline.", xpairs)


_xchecked = False


def _short_sx(s: str) -> str:
    if s.startswith("OK "):
        try:
            return bridge.dump(bridge.from_sx(s[3:]))[:500]
        except Exception:  # noqa
            return s[:200]
    return s[:200]


# ---------------------------------------------------------------- run / replay

def run(ctx):
    t0 = time.time()
    pending: list = []
    for c in CORPUS:
        check_program(ctx, corpus_text(c), c["typed"], 5, None, None, group="corpus")
    n = ctx.budget(330, 6000)
    deadline = ctx.budget(62, 780)
    made = 0
    while made < n and time.time() - t0 < deadline:
        g = pc.ProgGen(ctx.rng)
        try:
            prog = g.refused_program() if ctx.rng.random() < 0.04 else g.program()
        except (TypeError, RecursionError):
            ctx.count("generator", "discarded")
            continue
        made += 1
        text = prog.source()
        out = check_program(ctx, text, prog.typed, made, prog, pending, group="refusal" if prog.expect_refusal else "generated")
        if made <= 3 and out is not None and out.status == "ok":
            ctx.sample({"program": text[text.index("def build"):], "typed": prog.typed,
                        "query": [_unparse(a) for a in out.recorded]})
        if len(pending) >= 300:
            flush_model(ctx, pending)
    flush_model(ctx, pending)
    ctx.notes.append("%d generated programs in %.1fs; every recorded query evaluated under %d pass compositions on %d datasets"
                     % (made, time.time() - t0, len(pc.PIPELINES), N_DATASETS))


def replay(ctx, w):
    check_program(ctx, w["program"], w["typed"], w["data_seed"], None, None, group="replay")

"""C05 - captured one-line helper functions are inlined faithfully."""
from __future__ import annotations

import ast
import itertools

import capture_common as cc
from capture_common import Case, Var

ID = "C05"
TAG = cc.TAG
EXTRACT = cc.EXTRACT
DRIVER = cc.DRIVER
COQ_FILES = ["FA/Proofs/CaptureProofs.v", "FA/Proofs/CaptureSem.v", "FA/Proofs/CaptureGen.v", "FA/Proofs/CaptureStar.v",
             "FA/Properties/C05.v"]

LEVEL = ("Coq theorems over the executable model of _rewrite_captured_vars.visit_Name/visit_Call + _resolve_called_lambdas "
         "(Model/Capture.v, mirroring the code incl. fixes F06, F07, FC2, FC4-FC8, F30-F32, F36 - F34/F35 are inputs; lambdas with default values and every "
         "parameter kind, and starred arguments, are decoded from the generic node encoding): inline_sem_partial - for EVERY expression "
         "tree, backend and environment, resolving called lambdas preserves the value Python's call semantics gives, with no "
         "hygiene hypothesis (the proof uses the implementation's own bail-out test and the coincidence lemma EvalAgree.v); "
         "the one hypothesis, first_order, is the declared limit of the reference semantics (a lambda parameter is not itself "
         "called); inline_sem_stack (the invariant for arbitrary argument-map stacks); inline_leaves_by_name (with "
         "inline_walrus_helper_not_inlinable / inline_leaves_walrus_helper_by_name: F36 decided by the model); structural theorems for "
         "what the reference semantics cannot express: inline_leaves_starred_call(_defaults) (F30: a call with a starred argument "
         "stays a call) and inline_keeps_starred_in_place (Proofs/CaptureStar.v: over EVERY tree the pass never moves a starred node "
         "out of an argument list / display), inline_defaults_in_enclosing_scope / inline_default_sees_argument (F31: default values of a lambda that "
         "stays are resolved with the enclosing argument maps), inline_counts_every_binder / inline_stays_on_any_binder (F32), each "
         "with a _pinned_refuted Example of the pre-fix behaviour; Examples for parameter-only bodies, shadowing, bail-out, helpers "
         "of helpers.  Model tied to the code by exact comparison on generated Python programs (incl. higher-order helpers, starred "
         "arguments, helpers returning lambdas with default values); the oracle compares the recorded lambda's value with the real "
         "Python callable's (function-valued results are called on probe arguments) and checks that the recorded lambda compiles "
         "and its text parses.")
TRUSTED = c04_trusted = ["Coq 8.16.1 kernel (coqc); no axioms (Print Assumptions: closed under the global context)",
                         "extraction: ExtrOcamlBasic + ExtrOcamlNativeString; ocaml/driver_capture.ml + ocaml/sx.ml codecs",
                         "harness/bridge.py ast<->expr encoding; harness/props/capture_common.py program generator, snapshot construction, oracles",
                         "inputs of the model, validated by correspondence only: inspect.getclosurevars / f.__globals__ snapshot; "
                         "whether the source of a captured callable is recovered as a Lambda (source recovery, C03)"]
ASSUME = ["whether a captured callable is a bound method (inspect.ismethod, F34) or has __wrapped__ (F35) is decided on the live object: "
          "an input of the model (CFun None), computed by the harness the way the code computes it",
          "the helper's Lambda (rewrite_func_as_lambda of its source) is an input of the model, built by the generator from the helper's own text",
          "inline_sem: parameters that are themselves called (higher-order helpers) are outside the reference semantics: correspondence + oracle only",
          "starred arguments and lambdas with default values / other parameter kinds have no value in the reference semantics: "
          "inline_sem says nothing about them; structural theorems + correspondence + value and well-formedness oracles do"]
RULE = ("generated Python programs: every single-return helper body of a typed grammar up to size 5 x parameter lists of length 1-3 "
        "(names overlapping the lambda's) x call shapes (positional, keyword, reordered, mixed) x arguments (incl. names bound inside "
        "the helper, nested helper calls to depth 3, calls inside nested lambdas) x helper kinds (def, def+docstring, defaults, "
        "keyword-only, positional-only, *args, multi-statement, lambda-valued, local/global); starred arguments (41 call shapes x "
        "helper / directly called lambda, scope); helpers returning or keeping lambdas with default values x 5 parameter names x "
        "call-site binders; staying lambdas binding the argument's name by any parameter kind; callables that must stay by name "
        "(bound methods of objects with state, classmethods, functools.wraps / lru_cache decorated functions, a decorator without "
        "wraps (oracle only), helpers with := in body, default value or nested lambda) x 27 call shapes x 5 parameter names x "
        "nesting; module-level helpers reading globals whose names are also locals of the call site's closure; "
        "helpers whose inner call is left by the FC4 bail-out, called with variables named like their parameters, "
        "permuted or inside expressions (substitution happens once); helpers whose comprehensions (list/set/dict/generator, two "
        "clauses) have nested tuple / list / starred targets x argument names equal to each target name; callables that cannot be "
        "turned into a lambda (`return` without a value, `...`, `pass`, a body whose rewriting raises) directly, through inlinable "
        "helpers and in nested lambdas; non-trivial = python computed a value "
        "that was compared with the recorded lambda's; distinct by program text")


# ---------------------------------------------------------------- helper bodies (typed: params are int or rec)

def int_bodies(params, size, binders=("q", "e", "j", "a")):
    """All int-valued bodies of exactly `size` nodes over typed params [(name, 'int'|'rec')]."""
    ints = [p for p, t in params if t == "int"]
    recs = [p for p, t in params if t == "rec"]
    if size == 1:
        return ints + ["1"]
    if size == 2:
        return ["%s.%s" % (r, a) for r in recs for a in ("pt", "a")]
    out = []
    for ls in range(1, size - 1):
        rs = size - 1 - ls
        for l in int_bodies(params, ls, binders):
            for r in int_bodies(params, rs, binders):
                for op in ("+", "-"):
                    out.append("(%s %s %s)" % (l, op, r))
    if size >= 4:
        for r in recs:
            for q in binders:
                inner = [(p, t) for p, t in params if p != q] + [(q, "rec")]
                for b in int_bodies(inner, size - 3, binders):
                    out.append("%s.jets.Select(lambda %s: %s).Count()" % (r, q, b) if b == "1" else
                               "sum(%s.jets.Select(lambda %s: %s))" % (r, q, b))
        for r in recs:
            for q in binders[:2]:
                inner = [(p, t) for p, t in params if p != q] + [(q, "rec")]
                for b in int_bodies(inner, size - 3, binders):
                    out.append("sum([%s for %s in %s.jets])" % (b, q, r))
    return out


SIGS = [[("a", "int")], [("a", "rec")], [("e", "int")], [("a", "int"), ("b", "int")], [("a", "rec"), ("b", "int")],
        [("b", "int"), ("a", "int")], [("e", "rec"), ("j", "int")], [("a", "int"), ("b", "rec"), ("c", "int")]]

INT_ARGS = ["e.a", "e.b", "1", "(e.a - e.b)"]
REC_ARGS = ["e", "e.o"]


def call_shapes(h, params, args):
    names = [p for p, _ in params]
    yield "positional", "%s(%s)" % (h, ", ".join(args))
    yield "keyword", "%s(%s)" % (h, ", ".join("%s=%s" % (n, a) for n, a in zip(names, args)))
    if len(names) > 1:
        pairs = list(zip(names, args))[::-1]
        yield "reordered", "%s(%s)" % (h, ", ".join("%s=%s" % (n, a) for n, a in pairs))
        yield "mixed", "%s(%s, %s)" % (h, args[0], ", ".join("%s=%s" % (n, a) for n, a in list(zip(names, args))[1:]))


def binders_of(src):
    t = ast.parse(src, mode="eval")
    out = set()
    for n in ast.walk(t):
        if isinstance(n, ast.Lambda):
            out |= {a.arg for a in n.args.args}
        if isinstance(n, ast.comprehension):
            out |= {m.id for m in ast.walk(n.target) if isinstance(m, ast.Name)}
    return out


def names_of(src):
    return {n.id for n in ast.walk(ast.parse(src, mode="eval")) if isinstance(n, ast.Name)}


STAY_KINDS = ("method", "classmethod", "wraps", "lru", "deco")


def mk(lam, helpers, depth=1, tags=(), group="", scope="g"):
    """helpers: [(name, params(list of names or a raw parameter-list string), body, kind)]"""
    vs = []
    tags = set(tags)
    for (h, params, body, kind) in helpers:
        plist = params if isinstance(params, str) else ", ".join(params)
        if kind == "def":
            src = "def %s(%s):\n    return %s" % (h, plist, body)
        elif kind == "doc":
            src = "def %s(%s):\n    'doc string'\n    return %s" % (h, plist, body)
        elif kind == "multi":
            src = "def %s(%s):\n    t_ = %s\n    return t_" % (h, plist, body)
        elif kind == "lambda":
            src = "%s = lambda %s: %s" % (h, plist, body)
        elif kind == "value":
            vs.append(Var(h, scope, "%s = %s" % (h, body), "%s = 'REBOUND'" % h))
            continue
        elif kind == "raw":
            # module-level statements as they are (classes, enums the helpers refer to); not rebound afterwards
            vs.append(Var(h, scope, body, "", byname=True))
            continue
        elif kind == "async":
            # F41: calling an `async def` gives a coroutine, not the value of its return expression: never inlined
            vs.append(Var(h, scope, "async def %s(%s):\n    return %s" % (h, plist, body), "", helper=None, byname=True, stays=True))
            continue
        elif kind == "under":
            # F51: the helper is defined under an `if`; inside brackets its return expression continues on a line that starts LEFT
            # of the `def` - those characters are code, not indentation
            src = "if True:\n    def %s(%s):\n        return (0 +\n%s)" % (h, plist, body)
            vs.append(Var(h, scope, src, "%s = 'REBOUND'" % h, helper=(list(params), "(0 + %s)" % body), byname=True))
            continue
        elif kind == "mlstr":
            # F40: a helper whose body holds a multi-line string literal, its continuation line LEFT of the def's own indentation
            # when the def is nested (the generated program indents every line of `src` by 4 per enclosing function): `body` has
            # the placeholder MLS, which is the triple-quoted literal in the program and its value in the model's lambda
            pad = " " * {"g": 0, "l1": 4, "l2": 8, "l3": 12}[scope]
            src = "def %s(%s):\n    return %s" % (h, plist, body.replace("MLS", '\"\"\"\nab cdefgh\n  ij\"\"\"'))
            vs.append(Var(h, scope, src, "%s = 'REBOUND'" % h,
                          helper=(list(params), body.replace("MLS", repr("\n" + pad + "ab cdefgh\n" + pad + "  ij"))), byname=True))
            continue
        elif kind in ("bare", "docbare", "ellipsis", "pass", "crash"):
            # callables that cannot be turned into a lambda: they stay calls by name, parse_as_ast never raises because of them.
            # bare: `return` without a value (the Lambda has no body node: rewriting it raises inside safe_parse_wrapper);
            # ellipsis / pass: not a return statement (ValueError); crash: rewriting the body raises (an enum class attribute that
            # is not a member)
            if kind == "bare":
                src, hl = "def %s(%s):\n    return" % (h, plist), (list(params), None)
            elif kind == "docbare":
                src, hl = "def %s(%s):\n    'python returns None'\n    return" % (h, plist), (list(params), None)
            elif kind == "ellipsis":
                src, hl = "def %s(%s): ..." % (h, plist), None
            elif kind == "pass":
                src, hl = "def %s(%s):\n    pass" % (h, plist), None
            else:
                src, hl = "def %s(%s):\n    return %s" % (h, plist, body), (list(params), body)
            vs.append(Var(h, scope, src, "", helper=hl, byname=True, stays=True))
            continue
        elif kind in STAY_KINDS:
            # F34 / F35: callables with a single-return source that must stay calls by name; the oracle executes them, so
            # they are not rebound after the call.  `helper` is the source text inspect finds (what used to be inlined).
            if kind == "method":          # a bound method of an object with state (s = 3)
                src = ("class _K_%s:\n    def __init__(self, s):\n        self.s = s\n    def meth(self, %s):\n        return %s\n"
                       "%s = _K_%s(3).meth" % (h, plist, body, h, h))
                hl = (["self"] + list(params), body)
            elif kind == "classmethod":
                src = ("class _K_%s:\n    s = 3\n    @classmethod\n    def meth(self, %s):\n        return %s\n"
                       "%s = _K_%s.meth" % (h, plist, body, h, h))
                hl = (["self"] + list(params), body)
            elif kind == "wraps":         # a functools.wraps decorator that changes the result
                src = ("def _deco_%s(f):\n    @functools.wraps(f)\n    def inner(*a, **k):\n        return f(*a, **k) + 100\n    return inner\n"
                       "@_deco_%s\ndef %s(%s):\n    return %s" % (h, h, h, plist, body))
                hl = (list(params), body)
            elif kind == "lru":           # functools.lru_cache: has __wrapped__ too
                src = "@functools.lru_cache(None)\ndef %s(%s):\n    return %s" % (h, plist, body)
                hl = (list(params), body)
            else:                         # "deco": a decorator WITHOUT functools.wraps - the captured callable is `inner`, a plain
                #                           closure whose own source and closure are inlined (correctly); its snapshot is not part
                #                           of the case description: oracle only
                src = ("def _deco_%s(f):\n    def inner(%s):\n        return f(%s) + 100\n    return inner\n"
                       "@_deco_%s\ndef %s(%s):\n    return %s" % (h, plist, plist, h, h, plist, body))
                hl = None
            vs.append(Var(h, scope, src, "", helper=hl, byname=True, stays=(kind != "deco"), outside=(kind == "deco")))
            continue
        else:
            raise ValueError(kind)
        inl = kind in ("def", "doc")
        plain = isinstance(params, list)
        walrus = inl and any(isinstance(n, ast.NamedExpr) for n in ast.walk(ast.parse(body, mode="eval")))
        vs.append(Var(h, scope, src, "" if walrus else "%s = 'REBOUND'" % h,
                      helper=(params if plain else [plist], body) if inl else None,
                      byname=True, lam_helper=(kind == "lambda"), stays=walrus))
        if inl and plain and not walrus:
            # histogram tags only (former open findings, closed by FC4 / FC5)
            lt = ast.parse(lam, mode="eval").body
            for c in ast.walk(lt):
                if isinstance(c, ast.Call) and isinstance(c.func, ast.Name) and c.func.id == h:
                    argn = set()
                    for a in list(c.args) + [k.value for k in c.keywords]:
                        argn |= {n.id for n in ast.walk(a) if isinstance(n, ast.Name)}
                    if argn & binders_of(body):
                        tags.add("inner-binder-captures-argument")
            free = names_of(body) - set(params) - binders_of(body) - {"sum", "abs", "len"} - {x[0] for x in helpers}
            lam_binders = binders_of(lam)
            if free & lam_binders:
                tags.add("helper-free-name")
    return Case(lam, vs, depth, tags, group=group)


def _keep(case):
    for v in case.vars:
        v.after = ""
    return case


# ---------------------------------------------------------------- F30: starred arguments; F31/F32: lambdas with default values
# e.xs, e.rest have one element, e.two has two, j.sub three (capture_common.make_data)
STAR_HELPERS = [("h", ["a"], "a + 1", "def"), ("h2", ["a", "b"], "a - b", "def"), ("h3", ["a", "b", "c"], "a + b - c", "def"),
                ("hp", ["p"], "p", "def"), ("hs", ["a"], "sum([a + j for j in [1, 2]])", "def"),
                ("hd", "a, b=3", "a - b", "def"), ("hv", "a, *r", "a - len(r)", "def")]
STAR_LAMS = [
    "lambda e: h(*e.xs)", "lambda e: hp(*e.xs)", "lambda e: hs(*e.xs)", "lambda e: h2(e.a, *e.rest)", "lambda e: h2(*e.xs, e.b)",
    "lambda e: h2(*e.two)", "lambda e: h2(*e.xs, *e.rest)", "lambda e: h3(*e.two, e.a)", "lambda e: h3(e.a, *e.two)",
    "lambda e: h2(*e.xs, b=e.b)", "lambda e: h(*[e.a])", "lambda e: h2(*[e.a, e.b])", "lambda e: h2(e.a, *[e.b])", "lambda e: h(*(e.a,))",
    "lambda e: hd(*e.xs)", "lambda e: hd(*e.two)", "lambda e: hd(e.a, *e.rest)", "lambda e: hv(*e.two)", "lambda e: hv(e.a, *e.xs)",
    "lambda e: h(h(*e.xs))", "lambda e: h2(h(*e.xs), *e.rest)", "lambda e: h(*[h(*e.xs)])",
    "lambda e: (lambda a: a + 1)(*e.xs)", "lambda e: (lambda a, b: a - b)(e.a, *e.rest)", "lambda e: (lambda a, b: a - b)(*e.two)",
    "lambda e: (lambda a: a)(*e.xs)", "lambda e: (lambda a, b=2: a - b)(e.a, *e.xs)", "lambda e: (lambda a, b=2: a - b)(*e.xs)",
    "lambda e: (lambda a, *r: a + len(r))(*e.two)", "lambda e: (lambda a: (lambda b: a - b)(*e.rest))(*e.xs)",
    "lambda e: (lambda a: (lambda b: a - b)(*e.rest))(e.a)", "lambda e: (lambda a: h(*[a]))(e.a)",
    "lambda e: sum(e.jets.Select(lambda j: h3(*j.sub)))", "lambda e: sum(e.jets.Select(lambda j: h2(j.pt, *e.xs)))",
    "lambda e: sum([h3(*j.sub) for j in e.jets])", "lambda a: h(*a.xs)", "lambda a: h2(a.a, *a.rest)", "lambda xs: h(*xs.xs)",
    "lambda e: max(*e.two) + h(*e.xs)", "lambda e: [*e.two, h(*e.xs)]", "lambda e: (h(*e.xs), *e.two)",
]

# helpers that return a lambda, or keep one, whose default values mention the helper's parameters
DEF_HELPERS = [
    ("mk", ["k"], "lambda j, k=k: j + k", "def"),
    ("mks", ["k"], "lambda j, *, s=k + 1: j * s", "def"),
    ("mk2", ["k", "m"], "lambda j, k=k, m=k * m: j + k - m", "def"),
    ("mkk", ["k"], "lambda k=k: k", "def"),
    ("mkj", ["j"], "lambda j=j, *, k=j + 1: j * k", "def"),
    ("mkn", ["k"], "lambda j, k=k: (lambda q, j=j + k: q - j)(1)", "def"),
    ("mko", ["k"], "lambda j, /, k=k, *r, s=k - 1, **kw: j + k + s + len(r) + len(kw)", "def"),
    ("hsel", ["s", "k"], "sum(s.Select(lambda j, k=k: j.pt + k))", "def"),
    ("hsel2", ["s", "k"], "sum(s.Select(lambda j, *, w=k * 2: j.pt + w))", "def"),
    ("hcall", ["k"], "(lambda q, r=k: q + r)(1)", "def"),
    ("hcall2", ["k"], "(lambda q, r=k: q + r)(k, 2)", "def"),
    ("hcall3", ["k"], "(lambda q, *, r=k: q + r)(1)", "def"),
    ("apply_to", ["f", "v"], "f(v)", "def"),
]
DEF_NAMES = ["e", "k", "j", "s", "q"]
DEF_TEMPLATES = [
    "lambda {P}: mk({P}.off)", "lambda {P}: mk({P}.off)(1)", "lambda {P}: mk({P}.off)(1, 2)", "lambda {P}: mk({P}.off)(1, k={P}.a)",
    "lambda {P}: mk({P}.a + {P}.off)", "lambda {P}: mks({P}.off)", "lambda {P}: mks({P}.off)(2)", "lambda {P}: mks({P}.off)(2, s={P}.a)",
    "lambda {P}: mk2({P}.off, {P}.a)", "lambda {P}: mk2({P}.off, 2)(1)", "lambda {P}: mkk({P}.off)", "lambda {P}: mkk({P}.off)()",
    "lambda {P}: mkj({P}.off)", "lambda {P}: mkj({P}.off)(2)", "lambda {P}: mkn({P}.off)", "lambda {P}: mkn({P}.off)(3)",
    "lambda {P}: mko({P}.off)", "lambda {P}: mko({P}.off)(1, 2, 3, z=4)",
    "lambda {P}: hsel({P}.jets, {P}.off)", "lambda {P}: hsel2({P}.jets, {P}.off)", "lambda {P}: hcall({P}.off)",
    "lambda {P}: hcall2({P}.off)", "lambda {P}: hcall3({P}.off)", "lambda {P}: apply_to(mk({P}.off), 5)",
    "lambda {P}: (mk({P}.off), mks({P}.a))", "lambda {P}: {P}.jets.Select(lambda {Q}: mk({Q}.pt))",
    "lambda {P}: {P}.jets.Select(lambda {Q}: mk({Q}.pt)({P}.a))", "lambda {P}: sum({P}.jets.Select(lambda {Q}: mks({P}.off)({Q}.pt)))",
    "lambda {P}: [mk({Q}.pt)(1) for {Q} in {P}.jets]", "lambda {P}: (lambda {Q}: mk({Q})(1))({P}.off)",
    "lambda {P}: (lambda {Q}: lambda j, {Q}={Q}: j + {Q})({P}.off)", "lambda {P}: (lambda {Q}: lambda j, k={Q}: j + k)({P}.off)(1)",
    "lambda {P}: (lambda {Q}, d={P}.a: {Q} + d)({P}.off)", "lambda {P}: (lambda {Q}, d={P}.a: {Q} + d)({P}.off, 1)",
]
# F32: a parameter of any kind of a lambda that stays in the body stops a substitution that mentions its name
F32_WITNESSES = [
    "lambda s: (lambda k: lambda j, *, s=2: k + s + j)(s.off)",
    "lambda s: (lambda k: lambda *s: k + len(s))(s.off)",
    "lambda s: (lambda k: lambda **s: k + len(s))(s.off)",
    "lambda s: (lambda k: lambda s, /, j=1: k + s + j)(s.off)",
]
F32_TEMPLATES = [
    "lambda {P}: (lambda k: lambda j, *, {Q}=2: k + {Q} + j)({P}.off)", "lambda {P}: (lambda k: lambda *{Q}: k + len({Q}))({P}.off)",
    "lambda {P}: (lambda k: lambda j=1, **{Q}: k + len({Q}) + j)({P}.off)", "lambda {P}: (lambda k: lambda {Q}, /, j=1: k + {Q} + j)({P}.off)",
    "lambda {P}: (lambda k: sum({P}.jets.Select(lambda j, *{Q}: k + j.pt + len({Q}))))({P}.off)",
    "lambda {P}: (lambda k, m: lambda j, *, {Q}=m: k + {Q} + j)({P}.off, {P}.a)(1)",
    "lambda {P}: (lambda k: (lambda j, *, {Q}=2: k + {Q} + j)(1))({P}.off)",
]


# F34 (bound methods), F35 (decorated functions), F36 (assignment expressions): callables that must stay calls by name
STAY_HELPERS = [
    ("m", ["a"], "a * self.s", "method"),
    ("cm", ["a"], "a + self.s", "classmethod"),
    ("hw", ["a"], "a + 1", "wraps"),
    ("hw2", ["a", "b"], "a - b", "wraps"),
    ("hl", ["a"], "a * 2", "lru"),
    ("hdeco", ["a"], "a + 1", "deco"),
    ("w", ["a"], "(a := a + 1) * 2", "def"),
    ("w2", ["a"], "[y := a + 1, y * y][1]", "def"),
    ("w3", ["a", "b"], "(b := a - b) + b", "doc"),
    ("wl", ["s"], "sum(s.Select(lambda j: (t := j.pt) + t))", "def"),
    ("wd", ["a"], "(lambda q, r=(z := a): q + r + z)(1)", "def"),
    ("h", ["a"], "a + 1", "def"),
    ("hm", ["a"], "m(a) + 1", "def"),            # inlinable helpers that call the ones that stay
    ("hhw", ["a"], "hw(a) * 2", "def"),
    ("hww", ["a"], "w(a) - 1", "def"),
]
STAY_NAMES = ["e", "a", "j", "s", "m"]
STAY_TEMPLATES = [
    "lambda {P}: m({P}.a)", "lambda {P}: m(m({P}.a))", "lambda {P}: m(h({P}.a)) + h(m({P}.b))", "lambda {P}: cm({P}.a)",
    "lambda {P}: hw({P}.a)", "lambda {P}: hw(a={P}.a)", "lambda {P}: hw2({P}.a, {P}.b)", "lambda {P}: hw2(b={P}.a, a={P}.b)",
    "lambda {P}: hl({P}.a)", "lambda {P}: hdeco({P}.a)", "lambda {P}: h(hdeco({P}.a))",
    "lambda {P}: w({P}.a)", "lambda {P}: w2({P}.a)", "lambda {P}: w3({P}.a, {P}.b)", "lambda {P}: wl({P}.jets)", "lambda {P}: wd({P}.a)",
    "lambda {P}: w(h({P}.a)) + h(w({P}.b))", "lambda {P}: hm({P}.a)", "lambda {P}: hhw({P}.a)", "lambda {P}: hww({P}.a)",
    "lambda {P}: sum({P}.jets.Select(lambda {Q}: m({Q}.pt)))", "lambda {P}: sum({P}.jets.Select(lambda {Q}: hw({Q}.pt) + {P}.a))",
    "lambda {P}: sum({P}.jets.Select(lambda {Q}: w({Q}.pt) + w({P}.a)))", "lambda {P}: sum([m({Q}.pt) + hw({Q}.pt) + w2({Q}.pt) for {Q} in {P}.jets])",
    "lambda {P}: sum({P}.jets.Select(lambda {Q}: hm({Q}.pt) + hhw({P}.a) + hww({Q}.pt)))",
    "lambda {P}: (lambda {Q}: m({Q}) + hw({Q}) + w({Q}))({P}.a)", "lambda {P}: {P}.jets.Select(m_pt)",
]
STAY_WITNESSES = [("lambda e: m(e.a)", {"F34", "bound-method"}), ("lambda e: hw(e.a)", {"F35", "decorated"}),
                  ("lambda e: w(e.a)", {"F36", "assignment-expression"})]


def _stay_case(lam, depth=1, tags=(), group="stays-by-name", scope="g"):
    used = names_of(lam)
    lib = STAY_HELPERS + [("m_pt", ["j"], "j.pt * self.s", "method")]
    hs = [h for h in lib if h[0] in used]
    # helpers that the chosen helpers call
    for h in list(hs):
        for g in lib:
            if g[0] in names_of(h[2]) and g not in hs and g[0] != h[0]:
                hs.insert(0, g)
    return _keep(mk(lam, hs, depth, tags, group=group, scope=scope))


def f34_f36_witnesses():
    return [_stay_case(lam, 1, tags, group="corpus") for lam, tags in STAY_WITNESSES]


def stays_by_name(ctx):
    out = []
    for t in STAY_TEMPLATES:
        two = "{Q}" in t
        for p in STAY_NAMES:
            for q in (STAY_NAMES if two else [""]):
                if two and q == p:
                    continue
                lam = t.format(P=p, Q=q)
                out.append(_stay_case(lam, 1, {"stays-by-name"}))
                if p in ("e", "a") and (not two or q in ("j", "a")):
                    out.append(_stay_case(lam, 2, {"stays-by-name"}, scope="l1"))
    return out


# Whatever goes wrong while a captured callable is turned into a lambda, the call stays by name: parse_as_ast does not raise
NOLAMBDA_HELPERS = [
    ("Col", [], "class Col(enum.Enum):\n    red = 1\n    blue = 2", "raw"),
    ("ignore", ["x"], None, "bare"),
    ("ignore2", ["x", "y"], None, "docbare"),
    ("not_yet", ["x"], None, "ellipsis"),
    ("skip", ["x"], None, "pass"),
    ("label", ["a"], "(a, Col.__name__)", "crash"),
    ("label2", ["a"], "a + len(Col.__members__)", "crash"),
    ("h", ["a"], "a + 1", "def"),
    ("hb", ["a"], "(ignore(a), a + 1)", "def"),          # inlinable helpers that call the ones that stay
    ("hl", ["a"], "label(a)[0] + 1", "def"),
    ("hn", ["a"], "a if not not_yet(a) else 0", "def"),
]
NOLAMBDA_TEMPLATES = [
    "lambda {P}: (ignore({P}.a), {P}.b)", "lambda {P}: {P}.b if not ignore({P}.a) else {P}.a", "lambda {P}: (ignore2({P}.a, {P}.b), h({P}.a))",
    "lambda {P}: (not_yet({P}.a), {P}.b)", "lambda {P}: (skip(h({P}.a)), h({P}.b))", "lambda {P}: label({P}.a)", "lambda {P}: label2(h({P}.a))",
    "lambda {P}: hb({P}.a)", "lambda {P}: hl({P}.a)", "lambda {P}: hn({P}.a)", "lambda {P}: h(hb({P}.a)[1])",
    "lambda {P}: {P}.jets.Select(lambda {Q}: (ignore({Q}.pt), label({P}.a), h({Q}.pt)))",
    "lambda {P}: [hb({Q}.pt)[1] + hl({P}.a) for {Q} in {P}.jets]",
    "lambda {P}: (lambda {Q}: (ignore({Q}), skip({Q}), {Q}))({P}.a)",
]
NOLAMBDA_WITNESS = "lambda e: (ignore(e.a), e.b)"


def _nolambda_case(lam, depth=1, tags=(), group="no-lambda", scope="g"):
    used = names_of(lam)
    hs = [h for h in NOLAMBDA_HELPERS if h[0] in used]
    for _ in range(2):
        for h in list(hs):
            for g in NOLAMBDA_HELPERS:
                if h[2] and h[3] != "raw" and g[0] in names_of(h[2]) and g not in hs:
                    hs.insert(0, g)
    return _keep(mk(lam, hs, depth, tags, group=group, scope=scope))


def no_lambda(ctx):
    out = []
    for t in NOLAMBDA_TEMPLATES:
        two = "{Q}" in t
        for p in ("e", "x", "a"):
            for q in (("j", "x", "a") if two else [""]):
                if q == p:
                    continue
                lam = t.format(P=p, Q=q)
                out.append(_nolambda_case(lam, 1, {"no-lambda"}))
                if p == "e":
                    out.append(_nolambda_case(lam, 2, {"no-lambda"}, scope="l1"))
    return out


# F40 (multi-line strings in nested defs), F41 (async def), F48 (a called lambda with an assignment expression)
SRC_HELPERS = [
    ("ms", ["x"], "x + len(MLS)", "mlstr"),
    ("ms2", ["x", "s"], "x if s == MLS else -x", "mlstr"),
    ("ms3", ["x"], "(x, MLS.split())", "mlstr"),
    ("hu", ["x"], "x - 10 + 5", "under"),
    ("hu2", ["x", "y"], "y * 100 + x", "under"),
    ("af", ["x"], "x + 1", "async"),
    ("af2", ["x", "y"], "x - y", "async"),
    ("h", ["a"], "a + 1", "def"),
    ("haf", ["a"], "af(a)", "def"),
    ("hms", ["a"], "ms(a) * 2", "def"),
]
SRC_TEMPLATES = [
    "lambda {P}: ms({P}.a)", "lambda {P}: ms2({P}.a, {S})", "lambda {P}: ms3({P}.a)", "lambda {P}: hms({P}.a) + ms({P}.b)",
    "lambda {P}: sum({P}.jets.Select(lambda j: ms(j.pt)))", "lambda {P}: [ms2(j.pt, {S}) for j in {P}.jets]",
    "lambda {P}: hu({P}.a)", "lambda {P}: hu2({P}.a, {P}.b) + h(hu({P}.b))", "lambda {P}: sum({P}.jets.Select(lambda j: hu2(j.pt, {P}.a)))",
    "lambda {P}: af({P}.a)", "lambda {P}: af2({P}.a, h({P}.b))", "lambda {P}: (af({P}.a), h({P}.a))", "lambda {P}: haf({P}.a)",
    "lambda {P}: {P}.jets.Select(lambda j: af(j.pt))",
]
CALLED_WALRUS = [
    "lambda t: (lambda q: (t := q) + t)(t.a) + t.b", "lambda e: (lambda q: (q := q + 1) * 2)(e.a)",
    "lambda e: (lambda q, r: (s := q - r) * s)(e.a, e.b)", "lambda e: (lambda q: [s := q, s + 1][1])(e.a) + h(e.b)",
    "lambda e: sum(e.jets.Select(lambda j: (lambda q: (j := q + 1) * j)(j.pt)))",
    "lambda e: (lambda a: (lambda q: (a := q) + a)(e.b) + a)(e.a)", "lambda e: (lambda q, r=2: (q := q + r) * 2)(e.a, 3)",
    "lambda e: h((lambda q: (w := q) * w)(e.a))",
]
SRC_WITNESSES = [("lambda e: hu(e.a)", {"F51", "continuation-left-of-def"}, "l1"), ("lambda e: ms(e.a)", {"F40", "multi-line-string"}, "l1"), ("lambda e: af(e.a)", {"F41", "async-def"}, "g"),
                 ("lambda t: (lambda q: (t := q) + t)(t.a) + t.b", {"F48", "assignment-expression"}, "g")]


def _src_case(lam, depth, tags, group, scope):
    used = names_of(lam)
    hs = [h for h in SRC_HELPERS if h[0] in used]
    for h in list(hs):
        for g in SRC_HELPERS:
            if g[0] in names_of(h[2].replace("MLS", "''")) and g not in hs:
                hs.insert(0, g)
    return _keep(mk(lam, hs, depth, tags, group=group, scope=scope))


def source_shapes(ctx):
    out = []
    the_string = repr("\n    ab cdefgh\n      ij")
    for t in SRC_TEMPLATES:
        for p in ("e", "x", "s"):
            for scope, depth in (("g", 1), ("l1", 1), ("l1", 2), ("l2", 2)):
                pad = " " * {"g": 0, "l1": 4, "l2": 8}[scope]
                lam = t.format(P=p, S=repr("\n" + pad + "ab cdefgh\n" + pad + "  ij"))
                out.append(_src_case(lam, depth, {"source-shapes"}, "source-shapes", scope))
    for lam in CALLED_WALRUS:
        for scope, depth in (("g", 1), ("l1", 2)):
            out.append(_src_case(lam, depth, {"source-shapes", "called-lambda-walrus"}, "source-shapes", scope))
    return out


# FC5 with two scopes: a module-level helper reads module globals (G, K); the callable handed to the operator sits in a
# function that has LOCALS of the same names and mentions them: the helper's free names are frozen with the helper's own
# globals, the call site's with its closure
CLOSURE_LAMS = [
    "lambda e: h7(e.z) + G", "lambda e: h7(e.z) * K - G", "lambda e: hh(e.z) + G", "lambda e: (h7(e.a), G, K)",
    "lambda e: sum(e.jets.Select(lambda j: h7(j.pt) + G))", "lambda e: sum([hh(j.pt) * G for j in e.jets]) + K",
    "lambda e: h7(G)", "lambda e: h7(h7(e.a) + G)", "lambda G: h7(G.a)", "lambda e: hloc(e.a) + h7(e.a) + G",
]


def closure_vs_global(ctx):
    out = []
    for lam in CLOSURE_LAMS:
        for depth, local_scopes in ((1, ("l1",)), (2, ("l1",)), (2, ("l2",)), (2, ("l1", "l2")), (3, ("l1", "l3"))):
            for passed in ("inline", "def-local"):
                vs = [Var("G", "g", "G = 7"), Var("K", "g", "K = 3"),
                      Var("h7", "g", "def h7(a):\n    return a * G + K", "h7 = 'REBOUND'", helper=(["a"], "a * G + K"), byname=True),
                      Var("hh", "g", "def hh(a):\n    return h7(a) - G", "hh = 'REBOUND'", helper=(["a"], "h7(a) - G"), byname=True)]
                for i, sc in enumerate(local_scopes):
                    vs.append(Var("G", sc, "G = %d" % (70 + i)))
                    if i == 0:
                        vs.append(Var("K", sc, "K = 30"))
                # a helper defined next to the locals reads THEM
                vs.append(Var("hloc", local_scopes[-1], "def hloc(a):\n    return a - G", "hloc = 'REBOUND'", helper=(["a"], "a - G"), byname=True))
                c = Case(lam, vs, depth, {"closure-vs-global"}, group="closure-vs-global", passed=passed)
                out.append(c)
    return out


# Substitution must happen once.  A call that FC4 deliberately leaves un-inlined (its argument names a binder of the
# callee's body) sits inside an inlined helper; the arguments of the call that stays are already substituted and must not be
# visited again under the same argument maps.  That shows when the call site's variables are named like the outer helper's
# parameters but are passed re-ordered or inside a larger expression (x -> y.a -> ... a second time).
RESUB_HELPERS = [
    ("weighted", ["a", "c"], "sum(map(lambda n: n + a * c, [1, 2]))", "def"),          # binds n inside
    ("weighted2", ["a", "c"], "sum([n + a * c for n in [1, 2]])", "def"),
    ("spread", ["x", "y"], "sum(map(lambda n: weighted(n, x) - y, [10, 20]))", "def"),   # weighted(n, ..) stays a call (FC4)
    ("spread2", ["x", "y"], "sum([weighted2(n, x) - y for n in [10, 20]])", "def"),
    ("spread3", ["x", "y", "c"], "sum(map(lambda n: weighted(n, x * c) - y, [10, 20]))", "def"),
    ("outer", ["y", "x"], "spread(x, y) + spread(y, x)", "def"),
    ("keep", ["x", "y"], "(lambda n: (lambda a: sum(map(lambda n: n + a + y, [1, 2])))(n + x))(5)", "def"),
]
RESUB_NAMES = ["x", "y", "a", "c", "n", "e"]
RESUB_TEMPLATES = [
    "lambda {P}: spread({P}.a, {P}.b)", "lambda {P}: spread({P}.b, {P}.a)", "lambda {P}: spread({P}.a + 1, 0)",
    "lambda {P}: spread(0, {P}.a + 1)", "lambda {P}: spread2({P}.b, {P}.a)", "lambda {P}: spread2({P}.a + 1, {P}.b)",
    "lambda {P}: spread3({P}.b, {P}.a, {P}.a + {P}.b)", "lambda {P}: outer({P}.a, {P}.b)", "lambda {P}: keep({P}.b, {P}.a)",
    "lambda {P}: sum({P}.jets.Select(lambda {Q}: spread({P}.a, {Q}.pt)))", "lambda {P}: sum({P}.jets.Select(lambda {Q}: spread({Q}.pt, {P}.a)))",
    "lambda {P}: sum({P}.jets.Select(lambda {Q}: spread2({Q}.pt + {P}.b, {P}.a - {Q}.pt)))",
    "lambda {P}: sum([spread({P}.b, {Q}.pt) for {Q} in {P}.jets])", "lambda {P}: sum([outer({Q}.pt, {P}.a) for {Q} in {P}.jets])",
    "lambda {P}: sum({P}.jets.Select(lambda {Q}: keep({P}.a, {Q}.pt) + spread3({Q}.pt, {P}.b, 2)))",
    "lambda {P}: (lambda {Q}: spread({Q} + 1, {P}.b))({P}.a)",
]


def resubstitution(ctx):
    out = []
    for t in RESUB_TEMPLATES:
        two = "{Q}" in t
        for p in RESUB_NAMES:
            for q in (RESUB_NAMES if two else [""]):
                if two and q == p:
                    continue
                lam = t.format(P=p, Q=q)
                used = names_of(lam)
                hs = [h for h in RESUB_HELPERS if h[0] in used]
                for h in list(hs):
                    for g in RESUB_HELPERS:
                        if g[0] in names_of(h[2]) and g not in hs:
                            hs.insert(0, g)
                for h in list(hs):
                    for g in RESUB_HELPERS:
                        if g[0] in names_of(h[2]) and g not in hs:
                            hs.insert(0, g)
                out.append(mk(lam, hs, 1, {"resubstitution"}, group="resubstitution"))
                if p in ("x", "y") and (not two or q in ("x", "y", "n")):
                    out.append(mk(lam, hs, 2, {"resubstitution"}, group="resubstitution", scope="l1"))
    return out


# FC4 with unpacking targets: every name a comprehension target binds - also inside nested tuples / lists and starred
# elements - is an inner binder; an argument that mentions one must stop the substitution
UNPACK_HELPERS = [
    ("wn", ["k", "rows"], "[k * a + b + c for (a, b), c in rows]", "def"),
    ("wsq", ["k", "rows"], "[k * a + b + c for [a, b], c in rows]", "def"),
    ("wdeep", ["k", "rows"], "[k + a + b + c + r for ((a, b), c), r in [(x, 1) for x in rows]]", "def"),
    ("wstar", ["k", "rows"], "[k + a + sum(r) for (a, *r), c in rows]", "def"),
    ("wflatstar", ["k", "rows"], "[k + len(c) + sum(r) for c, *r in rows]", "def"),
    ("wdict", ["k", "rows"], "{a: k * b for (a, c), b in rows}", "def"),
    ("wset", ["k", "rows"], "sorted({k * a + b for (a, b), c in rows})", "def"),
    ("wgen", ["k", "rows"], "sum(k * a + b + c for (a, b), c in rows)", "doc"),
    ("wtwo", ["k", "rows"], "[k + a + r for (a, b), c in rows for r in (b, c)]", "def"),
    ("wflat", ["k", "rows"], "[k * a + b for a, b in rows]", "def"),
    ("wtot", ["k", "rows"], "sum(wn(k, rows)) + sum(wstar(k, rows))", "def"),
]
UNPACK_NAMES = ["a", "b", "c", "r", "k", "e"]
UNPACK_ROWS = "[((1, 2), 3), ((4, {P}.b), 6)]"
UNPACK_TEMPLATES = [
    "lambda {P}: {H}({P}.a, ROWS)", "lambda {P}: {H}({P}.a + 1, ROWS)", "lambda {P}: {H}(2, ROWS)",
    "lambda e: e.jets.Select(lambda {P}: {H}({P}.pt, [((1, 2), {P}.x)]))", "lambda {P}: [{H}({P}.a, [((1, 2), 3)]) for {P} in {P}.jets]",
    "lambda {P}: (lambda {Q}: {H}({Q}, ROWS))({P}.a)",
]


def unpacking_targets(ctx):
    out = []
    for t in UNPACK_TEMPLATES:
        for h in UNPACK_HELPERS:
            for p in UNPACK_NAMES:
                for q in (UNPACK_NAMES[:4] if "{Q}" in t else [""]):
                    if q == p:
                        continue
                    rows = UNPACK_ROWS.format(P=p) if h[0] != "wflat" else "[(1, 2), (4, %s.b)]" % p
                    lam = t.replace("ROWS", rows).format(P=p, Q=q, H=h[0])
                    hs = [g for g in UNPACK_HELPERS if g[0] == h[0] or g[0] in names_of(h[2])]
                    out.append(mk(lam, hs, 1, {"unpacking-target"}, group="unpacking-target"))
    return out


def f30_f31_witnesses():
    return [mk("lambda e: h(*e.xs)", [("h", ["a"], "a + 1", "def")], tags={"F30", "starred"}, group="corpus"),
            mk("lambda e: mk(e.off)", [("mk", ["k"], "lambda j, k=k: j + k", "def")], tags={"F31", "defaults-of-staying-lambda"}, group="corpus")] + \
           [mk(w, [], tags={"F32", "binder-kinds"}, group="corpus") for w in F32_WITNESSES]


def starred_and_defaults(ctx):
    out = []
    for lam in STAR_LAMS:
        used = names_of(lam)
        hs = [h for h in STAR_HELPERS if h[0] in used]
        for scope, depth in (("g", 1), ("l1", 2)):
            out.append(mk(lam, hs, depth, {"starred"}, group="starred", scope=scope))
    for t in DEF_TEMPLATES + F32_TEMPLATES:
        two = "{Q}" in t
        fam = "binder-kinds" if t in F32_TEMPLATES else "defaults-of-staying-lambda"
        for p in DEF_NAMES:
            for q in (DEF_NAMES if two else [""]):
                if two and q == p and t not in F32_TEMPLATES:
                    continue      # the inner binder would hide the passed lambda's parameter the template still uses
                lam = t.format(P=p, Q=q)
                try:
                    compile(lam, "<template>", "eval")
                except SyntaxError:
                    continue      # (duplicate parameter names)
                used = names_of(lam)
                hs = [h for h in DEF_HELPERS if h[0] in used]
                out.append(mk(lam, hs, 1, {fam}, group=fam))
                if p in ("k", "j"):
                    out.append(mk(lam, hs, 2, {fam}, group=fam, scope="l1"))
    return out


def corpus():
    out = [Case("lambda e: scaled(e.a) + SCALE",
                [Var("SCALE", "g", "SCALE = 2"), Var("OFFSET", "g", "OFFSET = 100"), Var("SCALE", "l1", "SCALE = 10"),
                 Var("scaled", "g", "def scaled(x):\n    return x * SCALE + OFFSET", "scaled = 'REBOUND'",
                     helper=(["x"], "x * SCALE + OFFSET"), byname=True)], 1, {"closure-vs-global"}, group="corpus")]
    out += [_src_case(lam, 1, tags, "corpus", scope) for lam, tags, scope in SRC_WITNESSES]
    out += [_nolambda_case(NOLAMBDA_WITNESS, 1, {"no-lambda", "bare-return"}, group="corpus")] + f34_f36_witnesses() + f30_f31_witnesses()
    out.append(mk("lambda a: wn(a.a, [((1, 2), 3), ((4, a.b), 6)])", [("wn", ["k", "rows"], "[k * a + b + c for (a, b), c in rows]", "def")],
                  tags={"FC4", "unpacking-target"}, group="corpus"))
    out.append(mk("lambda e: h(e.x)", [("h", ["p"], "p", "def")], tags={"F06"}, group="corpus"))
    out.append(mk("lambda e: (lambda a, b: a + (lambda a: a)(b))(e.x, e.y)", [], tags={"F06"}, group="corpus"))
    out.append(mk("lambda e: h(e)", [("h", ["a"], "a.jets.Select(lambda a: a.pt)", "def")], tags={"F07"}, group="corpus"))
    out.append(mk("lambda e: h(e.o)", [("h", ["a"], "sum([a.pt for a in a.jets])", "def")], tags={"F07"}, group="corpus"))
    out.append(mk("lambda e: h(e.a, k=2)", [("h", "a, *, k=1", "a + k", "def")], tags={"FC2"}, group="corpus"))
    out.append(mk("lambda e: h(e.a, b=e.b)", [("h", "a, /, b", "a - b", "def")], tags={"FC2"}, group="corpus"))
    out.append(mk("lambda e: h(e.a)", [("h", "a, *r", "a + len(r)", "def")], tags={"FC2"}, group="corpus"))
    out.append(mk("lambda e: h(e.a, q=1)", [("h", "a, **kw", "a + len(kw)", "def")], tags={"FC2"}, group="corpus"))
    out.append(mk("lambda e: h(e.a, e.b)", [("h", "a, b=3", "a + b", "def")], tags={"defaults"}, group="corpus"))
    out.append(mk("lambda e: h(e.a)", [("h", "a, b=3", "a + b", "def")], tags={"defaults"}, group="corpus"))
    out.append(mk("lambda e: h(e.a, b=e.b)", [("h", "a, b=3", "a + b", "def")], tags={"defaults"}, group="corpus"))
    out.append(mk("lambda e: h(e.a)", [("h", ["a"], "(lambda q, r=1: q + a)(a)", "def")], tags={"FC2"}, group="corpus"))
    out.append(mk("lambda e: h(b=e.a, a=e.b)", [("h", ["a", "b"], "a - b", "def")], tags={"keywords"}, group="corpus"))
    out.append(mk("lambda e: h4(e.a)", [("h2", ["a", "b"], "a - b", "def"), ("h4", ["a"], "h2(a, 1) + 1", "def")], tags={"nested-helper"}, group="corpus"))
    out.append(mk("lambda e: h(h(h(e.a)))", [("h", ["a"], "a + 1", "def")], tags={"nested-call"}, group="corpus"))
    out.append(mk("lambda e: e.jets.Select(h)", [("h", ["p"], "p.pt", "def")], tags={"as-value"}, group="corpus"))
    out.append(mk("lambda e: e.jets.Select(lambda a: h(e.x, a.pt))", [("h", ["a", "b"], "a - b", "def")], tags={"arg-names"}, group="corpus"))
    out.append(mk("lambda b: h(b.a, 1) + h(1, b.a)", [("h", ["a", "b"], "a - b", "def")], tags={"arg-names"}, group="corpus"))
    # FC5: free names of a helper are frozen with the helper's own closure; helpers of helpers are inlined;
    # recursion leaves the helper by name
    out.append(mk("lambda e: h7(e.z)", [("G", [], "7", "value"), ("h7", ["a"], "a + G", "def")], tags={"FC5"}, group="corpus"))
    out.append(mk("lambda e: h7(e.z)", [("G", [], "[1, 2]", "value"), ("h7", ["a"], "a + G[0]", "def")], tags={"FC5"}, group="corpus"))
    # (recursive helpers stay by name and are executed by the oracle: they are not rebound after the call)
    out.append(_keep(mk("lambda e: rr(e.z)", [("rr", ["a"], "rr(a - 1) if a > 0 else 0", "def")], tags={"FC5", "recursive"}, group="corpus")))
    out.append(_keep(mk("lambda e: ev(e.z)", [("ev", ["a"], "od(a - 1) if a > 0 else 1", "def"), ("od", ["a"], "ev(a - 1) if a > 0 else 0", "def")],
                        tags={"FC5", "recursive"}, group="corpus")))
    out.append(mk("lambda e: hg(e.a)", [("mg", ["q"], "q * 2", "multi"), ("hg", ["a"], "mg(a) + 1", "def")], tags={"FC5"}, group="corpus"))
    out.append(mk("lambda G: h7(G.z)", [("G", [], "7", "value"), ("h7", ["a"], "a + G", "def")], tags={"FC5"}, group="corpus"))
    # FC4: an argument name that a binder inside the body binds again: the call stays
    out.append(mk("lambda e: (lambda x: sum(e.jets.Select(lambda e: x + e.pt)))(e.a)", [], tags={"FC4"}, group="corpus"))
    out.append(mk("lambda j: sum([h(j.a, j.b) for j in j.jets])", [("h", ["a", "b"], "sum([a + b + j for j in [1, 2]])", "def")], tags={"FC4"}, group="corpus"))
    out.append(mk("lambda e: (lambda a: (lambda b: sum(e.jets.Select(lambda a: b + a.pt)))(a + 1))(e.a)", [], tags={"FC4"}, group="corpus"))
    # FC6: a function the helper calls by name has the name of a parameter of the passed lambda: the helper stays by name
    # (helpers that stay by name are executed by the oracle, so these programs do not rebind them after the call)
    out.append(_keep(mk("lambda mg: hg(mg.a)", [("mg", ["q"], "q * 2", "multi"), ("hg", ["a"], "mg(a) + 1", "def")], tags={"FC6"}, group="corpus")))
    out.append(_keep(mk("lambda e: sum(e.jets.Select(lambda mg: hg(mg.pt)))", [("mg", ["q"], "q * 2", "multi"), ("hg", ["a"], "mg(a) + 1", "def")], tags={"FC6"}, group="corpus")))
    out.append(_keep(mk("lambda e: sum([hg(mg.pt) for mg in e.jets]) + hg(e.a)", [("mg", ["q"], "q * 2", "multi"), ("hg", ["a"], "mg(a) + 1", "def")], tags={"FC6"}, group="corpus")))
    out.append(_keep(mk("lambda abs: h(abs.a)", [("h", ["a"], "abs(a) + 1", "def")], tags={"FC6"}, group="corpus")))
    # FC4: an inner call that stays (its own argument clashes) keeps its parameter as a binder for the outer call
    out.append(mk("lambda e: sum(e.jets.Select(lambda x: (lambda a: (lambda e: sum([e + a + x for x in [1, 2]]))(x.pt))(e.a)))", [], tags={"FC4"}, group="corpus"))
    # FC4: a call that stays still has the arguments of enclosing inlined calls substituted into its body
    out.append(mk("lambda e: (lambda k: (lambda a: sum(e.jets.Select(lambda e: a + k + e.pt)))(e.a))(5)", [], tags={"FC4"}, group="corpus"))
    out.append(mk("lambda e: hk(5, e)", [("hk", ["k", "r"], "(lambda a: sum(r.jets.Select(lambda r: a + k + r.pt)))(r.a)", "def")], tags={"FC4"}, group="corpus"))
    # the former open findings (closed by FC4 and FC5)
    out.append(mk("lambda j: h(j)", [("h", ["a"], "sum(a.jets.Select(lambda j: j.pt + a.pt))", "def")], group="corpus"))
    out.append(mk("lambda e: h(e.a)", [("h", ["a"], "a + e", "def")], group="corpus", tags=()).__class__ and
               Case("lambda e: h(e.a)", [Var("e", "g", "e = 100", "e = 0"),
                                         Var("h", "g", "def h(a):\n    return a + e", "h = 'REBOUND'", helper=(["a"], "a + e"), byname=True)],
                    1, {"helper-free-name"}, group="corpus"))
    return out


def second_call_cases():
    """A helper (one function object) captured by callables passed before and after its own globals / closure cells
    change: each call must inline it with the values of its own moment."""
    out = []
    for passed in ("inline", "def-local", "def-global"):
        for scope in ("g", "l1"):
            if passed == "def-global" and scope != "g":
                continue
            for lam, hs in (("lambda e: h(e.a)", [("G", [], "7", "value"), ("h", ["a"], "a + G", "def")]),
                            ("lambda e: sum(e.jets.Select(lambda j: h(j.pt)))", [("G", [], "7", "value"), ("h", ["a"], "a * G", "doc")]),
                            ("lambda e: h4(e.z)", [("G", [], "7", "value"), ("h2", ["a", "b"], "a - b + G", "def"), ("h4", ["a"], "h2(a, 1) + G", "def")])):
                c = mk(lam, hs, 1, {"second-call"}, group="twice", scope=scope)
                for v in c.vars:
                    if v.name == "G":
                        v.mid = "G = 70"
                c.passed, c.twice = passed, True
                out.append(c)
    return out


def same_line_cases():
    """Two helper lambdas written on ONE source line (a tuple assignment): source recovery tells them apart by their
    parameter names only, so anything that identifies a helper by file and line confuses them."""
    out = []
    pairs = [("(lambda p: p + 1)", "(lambda d: d * 3)"), ("(lambda p, k=2: p - k)", "(lambda d: d * 3 + 1)")]
    lams = ["lambda e: ha(e.a) + hb(e.b)", "lambda e: hb(e.a) - ha(e.b)", "lambda e: hb(ha(e.a))", "lambda e: hb(e.a)",
            "lambda e: sum(e.jets.Select(lambda j: hb(j.pt) - ha(e.a)))"]
    for (a, b) in pairs:
        for scope, depth in (("g", 1), ("l1", 1), ("l1", 2)):
            for lam in lams:
                vs = [Var("ha", scope, "ha, hb = %s, %s" % (a, b), "ha = 'REBOUND'", byname=True, lam_helper=True),
                      Var("hb", scope, "hb = hb", "hb = 'REBOUND'", byname=True, lam_helper=True)]
                out.append(Case(lam, vs, depth, {"same-line-helpers", "scope:" + scope}, group="sameline"))
    return out


# ---------------------------------------------------------------- higher-order helpers
# helpers that take lambdas, return lambdas and hand lambdas on to further helpers (depth 2-3); the names of their
# parameters and inner binders (x, a, v, w, f) are also used for the parameters of the passed lambda and of lambdas
# written at the call site, so every capture / stale-map pattern between them is generated
HO_LIB = [
    ("apply_to", ["f", "v"], "f(v)", "def"),
    ("twice", ["f", "v"], "f(f(v))", "def"),
    ("adder", ["a"], "lambda x: x + a", "def"),
    ("shift_by", ["v", "w"], "apply_to(lambda x: x + v, w)", "def"),
    ("shift2", ["a", "w"], "twice(lambda v: shift_by(v, a), w)", "def"),
    ("scale_all", ["s", "a"], "sum(s.Select(lambda x: x.pt * a))", "def"),
    ("pick", ["a", "x"], "a - x", "def"),
]
HO_NAMES = ["e", "x", "a", "v", "w", "f"]
HO_TEMPLATES = [
    "lambda {P}: shift_by({P}.a, 10)",
    "lambda {P}: shift_by(10, {P}.a)",
    "lambda {P}: shift2({P}.a, {P}.b)",
    "lambda {P}: adder({P}.a)(1)",
    "lambda {P}: apply_to(adder({P}.a), {P}.b)",
    "lambda {P}: twice(adder({P}.a), 1)",
    "lambda {P}: scale_all({P}.jets, {P}.a)",
    "lambda {P}: pick(shift_by({P}.a, 1), adder({P}.b)(2))",
    "lambda {P}: adder({P}.a)(1) * apply_to(lambda {Q}: {Q} + {P}.b, 5)",
    "lambda {P}: apply_to(lambda {Q}: adder({Q})(1) * {P}.a, 5)",
    "lambda {P}: apply_to(lambda {Q}: adder({Q})(1) * {Q}, {P}.b) + {P}.a",
    "lambda {P}: apply_to(lambda {Q}: shift_by({Q}, {P}.a), {P}.b) - {P}.a",
    "lambda {P}: twice(lambda {Q}: shift_by({Q}, {P}.a), {P}.b)",
    "lambda {P}: twice(lambda {Q}: pick(adder({Q})({P}.a), {Q}), {P}.b)",
    "lambda {P}: sum({P}.jets.Select(lambda {Q}: shift_by({Q}.pt, {P}.a)))",
    "lambda {P}: sum({P}.jets.Select(lambda {Q}: adder({Q}.pt)({P}.a) + pick({Q}.pt, {P}.b)))",
    "lambda {P}: sum([adder({Q}.pt)(1) * {P}.a for {Q} in {P}.jets])",
    "lambda {P}: sum([shift_by({Q}.pt, {P}.b) for {Q} in {P}.jets]) + apply_to(lambda {Q}: {Q} * {P}.a, 2)",
]


def higher_order(ctx):
    out = []
    for t in HO_TEMPLATES:
        two = "{Q}" in t
        for p in HO_NAMES:
            for q in (HO_NAMES if two else [""]):
                if two and q == p:
                    continue      # the inner binder would hide the passed lambda's parameter the template still uses
                lam = t.format(P=p, Q=q)
                out.append(mk(lam, HO_LIB, 1, {"higher-order"}, group="higher-order"))
                if p in ("x", "a") and (not two or q in ("x", "a", "v")):
                    out.append(mk(lam, HO_LIB, 2, {"higher-order"}, group="higher-order", scope="l1"))
    return out


def enumerated(ctx):
    out = []
    maxsize = ctx.budget(4, 5)
    for sig in SIGS:
        names = [p for p, _ in sig]
        bodies = [b for s in range(1, maxsize + 1) for b in int_bodies(sig, s)]
        arg_choices = [INT_ARGS if t == "int" else REC_ARGS for _, t in sig]
        arg_sets = list(itertools.product(*arg_choices))
        for body in bodies:
            for args in arg_sets[:: max(1, len(arg_sets) // 4)]:
                for shape, call in call_shapes("h", sig, list(args)):
                    out.append(mk("lambda e: %s" % call, [("h", names, body, "def")], tags={"shape:" + shape, "size:%d" % len(body.split())},
                                  group="enum"))
    return out


def structured(ctx):
    out = []
    H1 = ("h", ["a", "b"], "(a - b)", "def")
    HR = ("g", ["a"], "sum(a.jets.Select(lambda q: q.pt + a.a))", "def")
    lams = [
        "lambda e: h(h(e.a, 1), h(e.b, h(1, e.a)))",
        "lambda e: sum(e.jets.Select(lambda j: h(j.pt, e.a)))",
        "lambda e: sum(e.jets.Select(lambda a: h(a.pt, e.a)))",
        "lambda e: sum(e.jets.Select(lambda b: h(e.a, b.pt)))",
        "lambda a: h(a.a, a.b)", "lambda b: h(b.a, b.b)", "lambda b: h(b=b.a, a=b.b)",
        "lambda e: sum([h(j.pt, 1) for j in e.jets])", "lambda e: sum([h(a.pt, b) for a in e.jets for b in a.sub])",
        "lambda e: g(e) + h(e.a, g(e.o))", "lambda q: g(q)", "lambda e: sum(e.jets.Select(lambda q: g(e) + q.pt))",
        "lambda e: (lambda a: h(a, e.b))(e.a)", "lambda e: (lambda a, b: h(b, a))(e.a, e.b)",
        "lambda e: h(*[e.a, e.b])", "lambda e: h(e.a, e.b, 1)", "lambda e: h(e.a)",
    ]
    for l in lams:
        for kind in ("def", "doc", "multi", "lambda"):
            for scope, depth in (("g", 1), ("l1", 1), ("l1", 2), ("l2", 3)):
                hs = [(H1[0], H1[1], H1[2], kind), (HR[0], HR[1], HR[2], kind)]
                out.append(mk(l, hs, depth, {"kind:" + kind, "scope:" + scope}, group="structured", scope=scope))
    # parameter kinds
    for plist, calls in (("a, b=3", ["h(e.a)", "h(e.a, e.b)", "h(e.a, b=e.b)", "h(a=e.a)"]),
                         ("a, *, k=1", ["h(e.a)", "h(e.a, k=e.b)"]),
                         ("a, /, b", ["h(e.a, e.b)", "h(e.a, b=e.b)"]),
                         ("a, *r", ["h(e.a)", "h(e.a, e.b)"]),
                         ("a, **kw", ["h(e.a)", "h(e.a, z=e.b)"])):
        body = {"a, b=3": "a - b", "a, *, k=1": "a - k", "a, /, b": "a - b", "a, *r": "a - len(r)", "a, **kw": "a - len(kw)"}[plist]
        for c in calls:
            out.append(mk("lambda e: %s" % c, [("h", plist, body, "def")], tags={"param-kinds"}, group="structured"))
            out.append(mk("lambda e: sum(e.jets.Select(lambda j: %s))" % c.replace("e.a", "j.pt"), [("h", plist, body, "def")],
                          tags={"param-kinds"}, group="structured"))
    return out


def inlinable_left_by_name(case: Case, tree) -> list:
    """Structural part of the oracle: a plain positional call of an inlinable, non-recursive helper - in the passed
    lambda or in the body of another helper (FC5) - must not survive as a call by name."""
    helpers = {v.name: v for v in case.vars if v.helper is not None and isinstance(v.helper[0], list) and not v.stays
               and all(p.isidentifier() for p in v.helper[0])}
    calls = {h: names_of(v.helper[1]) & set(helpers) for h, v in helpers.items()}

    def reaches(a, b, seen=()):
        return any(c == b or (c not in seen and reaches(c, b, seen + (c,))) for c in calls.get(a, ()))

    recursive = {h for h in helpers if reaches(h, h)}
    direct = set()
    for t in [ast.parse(case.lam, mode="eval").body] + [ast.parse(v.helper[1], mode="eval").body for v in helpers.values()]:
        for c in ast.walk(t):
            if isinstance(c, ast.Call) and isinstance(c.func, ast.Name) and c.func.id in helpers and not c.keywords \
                    and not any(isinstance(a, ast.Starred) for a in c.args) and len(c.args) == len(helpers[c.func.id].helper[0]):
                direct.add(c.func.id)
    # a parameter of the passed lambda (or an inner binder) of the same name hides the helper: python calls the parameter
    hidden = binders_of(case.lam)
    left = {n.func.id for n in ast.walk(tree) if isinstance(n, ast.Call) and isinstance(n.func, ast.Name)}
    # FC6: a helper that (transitively) keeps a name free which the call site binds is left by name on purpose
    def free(h, seen=()):
        v = helpers[h]
        f = names_of(v.helper[1]) - set(v.helper[0]) - binders_of(v.helper[1])
        for c in calls[h]:
            if c not in seen:
                f |= free(c, seen + (c,))
        return f
    clash = {h for h in helpers if free(h) & hidden}
    return sorted((((direct - recursive) - hidden) - clash) & left)


def run(ctx):
    cs = corpus() + starred_and_defaults(ctx) + stays_by_name(ctx) + resubstitution(ctx) + unpacking_targets(ctx) + no_lambda(ctx) + source_shapes(ctx) + closure_vs_global(ctx) + second_call_cases() + same_line_cases() + higher_order(ctx) + structured(ctx)
    en = enumerated(ctx)
    cap = ctx.budget(3000, 60000)
    if len(en) > cap:
        ctx.notes.append("helper enumeration has %d programs; seeded sample of %d" % (len(en), cap))
        en = ctx.rng.sample(en, cap)
    else:
        ctx.notes.append("helper enumeration exhaustive: %d programs" % len(en))
    cs += en
    cc.run_cases(ctx, ID, cs, extra_oracle=lambda case, rec: (
        None if rec.status != "ok" or not inlinable_left_by_name(case, rec.tree)
        else "inlinable helper(s) %s left as a call by name" % inlinable_left_by_name(case, rec.tree)))
    for c in cs[:4] + cs[60:64]:
        ctx.sample({"lambda": c.lam, "helpers": [v.src for v in c.vars], "depth": c.depth})


def replay(ctx, w):
    cc.replay_case(ctx, ID, w)

"""C13 - Python values embedded in a query keep their exact value."""
from __future__ import annotations

import ast
import enum
import signal
import sys
import types

import bridge
import core
import gen
import literal_common as L

ID = "C13"
TAG = "literal"
EXTRACT = "FA/Extract/ExtractLiteral.v"
DRIVER = "driver_literal.ml"
COQ_FILES = ["FA/Proofs/LiteralLex.v", "FA/Proofs/LiteralCheck.v", "FA/Proofs/LiteralProofs.v", "FA/Properties/C13.v"]

LEVEL = ("Coq theorems over an executable model of as_ast = ast.parse(repr(v)) (a character-level model of CPython's repr "
         "and a lexer + recursive-descent parser of the literal sub-grammar): as_ast_exact/as_ast_roundtrip (every "
         "str/bytes/int/bool/None/finite-float-token/list/tuple/dict nest is embedded as exactly its literal, which "
         "literal_eval maps back type-exactly; induction over the nested value, string lexer round trip over all 256 byte "
         "values and both quote styles), as_ast_no_code (every str becomes one string constant with the same bytes), "
         "as_ast_unfixed_refuted (F01 witnesses inside Coq), as_literal_exact, check_ast_gate (over every tree of every "
         "node class, over the generated legal-type table), terminals_embed/metadata_embed (over the generated terminal "
         "table); model tied to the code by exact differential comparison at every entry point.")
TRUSTED = ["Coq 8.16.1 kernel (coqc); no axioms (Print Assumptions: closed under the global context)",
           "harness/sync_tables.py (+tables/util.py, tables/stream.py: g_legal_capture_types, As* argument orders)",
           "extraction: ExtrOcamlBasic + ExtrOcamlNativeString; ocaml/driver_literal.ml and ocaml/sx.ml codecs",
           "harness/bridge.py ast<->expr encoding; harness/props/c13.py + literal_common.py generators and oracles",
           "CPython ast.literal_eval (oracle)"]
ASSUME = ["floats are opaque repr tokens: CPython's shortest-repr round trip float(repr(x)) == x is trusted (tested only)",
          "model of repr copies every byte >= 128 of a str into the text; CPython does so for printable code points and "
          "writes \\x/\\u/\\U escapes for the others, which ast.parse decodes to the same code point - the composite as_ast "
          "is compared for all strings, the intermediate text only for strings whose non-ASCII code points are printable",
          "ints beyond CPython's int<->str limit (4300 digits) are refused by str() (ValueError) and nests deeper than "
          "CPython's tokenizer limit (200 open brackets) by ast.parse (SyntaxError): modelled as None, outside `embeddable`",
          "the wire format (node names, argument order of Result* nodes) is the hand-written table Model/Literal.wire_format"]
RULE = ("all strings over a 24-character alphabet (both quotes, backslash, LF, CR, TAB, brackets, braces, parentheses, "
        "comma, colon, #, +, space, n, x, 0, NUL, e-acute, minus, b) up to length 3 (quick) / 4 (thorough), a corpus of "
        "known-bad strings and values, seeded random strings to length 64, random nests of str/bytes/int/float/bool/None/"
        "list/tuple/dict, deep nests; a case is non-trivial when it is a str needing a quote choice or an escape, or any "
        "value other than a non-negative int, bool, None; distinct by repr")

WIRE = {"AsPandasDF": ("ResultPandasDF", ["columns"]),
        "AsROOTTTree": ("ResultTTree", ["columns", "treename", "filename"]),
        "AsParquetFiles": ("ResultParquet", ["columns", "filename"]),
        "AsAwkwardArray": ("ResultAwkwardArray", ["columns"])}


# ---------------------------------------------------------------- helpers

def _str_of(v):
    """the text the (fixed) code hands to ast.parse, or None if str() itself raises"""
    try:
        return repr(v) if isinstance(v, str) else str(v)
    except ValueError:
        return None


def _val_sx(v):
    old = sys.get_int_max_str_digits()
    sys.set_int_max_str_digits(0)
    try:
        return L.val_sx(v)
    finally:
        sys.set_int_max_str_digits(old)


def _vrepr(v):
    old = sys.get_int_max_str_digits()
    sys.set_int_max_str_digits(0)
    try:
        return repr(v)
    finally:
        sys.set_int_max_str_digits(old)


def _py_parse(text):
    try:
        a = ast.parse(text)
        b = a.body[0]
        if not isinstance(b, ast.Expr):
            return "NONE"
        return "OK " + bridge.to_sx(b.value)
    except Exception:  # noqa  SyntaxError, ValueError (NUL), UnicodeEncodeError, RecursionError, MemoryError
        return "NONE"


def _sx(st, node):
    return "OK " + bridge.to_sx(node) if st == "ok" else "NONE"


def _key(entry, v):
    return core.digest({"p": ID, "entry": entry, "v": _vrepr(v)})


def _witness(entry, v, **kw):
    w = {"entry": entry, "value": _vrepr(v)}
    w.update(kw)
    return w


def _values(ctx):
    r = ctx.rng
    out = list(L.CORPUS_STRINGS) + list(L.CORPUS_VALUES)
    n_enum = ctx.budget(3, 4)
    enum = list(L.all_strings(n_enum))
    ctx.notes.append("strings over the %d-character alphabet up to length %d: %d (exhaustive)" % (len(L.ALPHABET), n_enum, len(enum)))
    out += enum
    for _ in range(ctx.budget(1500, 20000)):
        out.append(L.rand_string(r))
    for _ in range(ctx.budget(1500, 20000)):
        out.append(L.rand_value(r, r.randrange(1, 5)))
    out += L.deep_nests()
    return out


# ---------------------------------------------------------------- part 1+2: as_ast, repr, parse

def check_as_ast(ctx, vals):
    sx = [_val_sx(v) for v in vals]
    m_as = ctx.driver.call("as_ast", [[s] for s in sx])
    m_fin = ctx.driver.call("embeddable", [[s] for s in sx])
    texts = [_str_of(v) for v in vals]
    idx = [i for i, t in enumerate(texts) if t is not None]
    m_repr = dict(zip(idx, ctx.driver.call("repr", [[sx[i]] for i in idx])))
    m_parse = dict(zip(idx, ctx.driver.call("parse", [[bridge.hx(texts[i])] for i in idx])))
    for i, v in enumerate(vals):
        ctx.evaluations += 1
        fin = L.is_embeddable(v)
        ctx.count("value_type", type(v).__name__)
        if L.interesting(v):
            ctx.distinct.add(_vrepr(v) if not isinstance(v, int) else "int%d" % (v % 10 ** 9))
        if (m_fin[i] == "1") != fin:
            ctx.corr_disagreements += 1
            ctx.fail("no-failing-input-found", "correspondence embeddable (Model/Literal.v) vs math.isfinite / 4300 digits / 200 brackets on %s" % _vrepr(v)[:80],
                     _witness("finite", v, model=m_fin[i]))
        st, node = L.impl_as_ast(v)
        got = _sx(st, node)
        ctx.count("as_ast_result", "ok" if st == "ok" else node)
        ctx.corr_cases += 1
        bad = None
        if fin:
            bad = ("raises %s" % node) if st != "ok" else L.embeds(node, v)
            if bad:
                ctx.fail("failing-input", "as_ast(%s): %s; the property requires a literal that evaluates back to the value"
                         % (_vrepr(v)[:120], bad), _witness("as_ast", v), key=_key("as_ast", v))
        model = L.canon_floats(m_as[i])
        if model != got:
            ctx.corr_disagreements += 1
            if not bad:
                ctx.fail("no-failing-input-found",
                         "correspondence as_ast (Model/Literal.v) vs util_ast.as_ast broke on %s: model %s, code %s"
                         % (_vrepr(v)[:80], model[:160], got[:160]), _witness("as_ast", v, model=model[:400], impl=got[:400]))
        # tie 1: the two halves of the model against CPython itself
        if i in m_repr:
            if L.passthrough_ok(v):
                ctx.corr_cases += 1
                if m_repr[i] != bridge.hx(texts[i]):
                    ctx.corr_disagreements += 1
                    ctx.fail("no-failing-input-found", "correspondence py_repr (Model/Literal.v) vs CPython repr/str on %s" % _vrepr(v)[:80],
                             _witness("repr", v, model=m_repr[i]))
            if L.passthrough_ok(v) and L.depth(v) <= 200:      # the bracket limit is modelled in as_ast, not in the parser
                ctx.corr_cases += 1
                want = _py_parse(texts[i])
                if L.canon_floats(m_parse[i]) != want:
                    ctx.corr_disagreements += 1
                    ctx.fail("no-failing-input-found", "correspondence parse_literal (Model/Literal.v) vs ast.parse on the text %r"
                             % texts[i][:80], _witness("parse", v, model=m_parse[i][:300], cpython=want[:300]))
            if not L.passthrough_ok(v):
                ctx.count("assumption", "str with a non-printable non-ASCII code point: only the composite as_ast compared")


def check_raw_texts(ctx, strs):
    """parse_literal against ast.parse on texts that are *not* repr output: the quoting of the pinned commit
    ('...') and of a plausible wrong repair ("...").  One-sided: whenever the model yields a tree, CPython yields
    the same tree; where the model says None (SyntaxError or outside the literal sub-grammar) nothing is claimed."""
    texts = []
    for s in strs:
        if L.passthrough_ok(s):
            texts.append("'" + s + "'")
            texts.append('"' + s + '"')
    ans = ctx.driver.call("parse", [[bridge.hx(t)] for t in texts])
    some = 0
    for t, a in zip(texts, ans):
        ctx.evaluations += 1
        if a == "NONE":
            continue
        some += 1
        ctx.corr_cases += 1
        want = _py_parse(t)
        if L.canon_floats(a) != want:
            ctx.corr_disagreements += 1
            ctx.fail("no-failing-input-found", "correspondence parse_literal (Model/Literal.v) vs ast.parse on raw text %r: model %s, CPython %s"
                     % (t[:60], a[:120], want[:120]), {"entry": "parse_raw", "text": t})
    ctx.count("raw_text_parse", "model_some", some)
    ctx.count("raw_text_parse", "model_none", len(texts) - some)


# ---------------------------------------------------------------- part 3: entry points

def check_metadata(ctx, vals):
    sx = [_val_sx(v) for v in vals]
    ans = ctx.driver.call("metadata", [[L.DS_SX, s] for s in sx])
    for v, a in zip(vals, ans):
        ctx.evaluations += 1
        st, q = L.impl_metadata(v)
        got = _sx(st, q)
        ctx.corr_cases += 1
        bad = None
        if L.is_embeddable(v):
            if st != "ok":
                bad = "raises %s" % q
            elif not (isinstance(q, ast.Call) and isinstance(q.func, ast.Name) and q.func.id == "MetaData" and len(q.args) == 2
                      and not q.keywords and isinstance(q.args[0], ast.Name) and q.args[0].id == "ds"):
                bad = "wrong node shape %s" % ast.dump(q)[:120]
            else:
                bad = L.embeds(q.args[1], v)
            if bad:
                ctx.fail("failing-input", "ds.MetaData(%s): %s" % (_vrepr(v)[:120], bad), _witness("MetaData", v), key=_key("MetaData", v))
        if L.canon_floats(a) != got:
            ctx.corr_disagreements += 1
            if not bad:
                ctx.fail("no-failing-input-found", "correspondence metadata_call vs ObjectStream.MetaData on %s" % _vrepr(v)[:80],
                         _witness("MetaData", v, model=a[:300], impl=got[:300]))


def check_terminals(ctx, triples):
    rows = []
    for cols, tree, fname in triples:
        for meth, params in L.TERMINAL_PARAMS.items():
            kw = {"columns": cols, "treename": tree, "filename": fname}
            kw = {k: kw[k] for k in params}
            rows.append((meth, kw))
    reqs = []
    for meth, kw in rows:
        env = dict(kw)
        if isinstance(env["columns"], str):          # object_stream: a single column name is wrapped in a list
            env["columns"] = [env["columns"]]
        reqs.append([bridge.hx(meth), L.DS_SX, "(" + " ".join("(%s %s)" % (bridge.hx(k), _val_sx(x)) for k, x in env.items()) + ")"])
    ans = ctx.driver.call("terminal", reqs)
    for (meth, kw), a in zip(rows, ans):
        ctx.evaluations += 1
        ctx.corr_cases += 1
        st, q = L.impl_terminal(meth, kw)
        got = _sx(st, q)
        node, order = WIRE[meth]
        expect = dict(kw)
        if isinstance(expect["columns"], str):
            expect["columns"] = [expect["columns"]]
        bad = None
        if st != "ok":
            bad = "raises %s" % q
        elif not (isinstance(q, ast.Call) and isinstance(q.func, ast.Name) and q.func.id == node and not q.keywords
                  and len(q.args) == 1 + len(order) and isinstance(q.args[0], ast.Name) and q.args[0].id == "ds"):
            bad = "wrong node shape %s" % ast.dump(q)[:160]
        else:
            for pos, name in enumerate(order):
                b = L.embeds(q.args[1 + pos], expect[name])
                if b:
                    bad = "argument %d of %s must carry %s=%r: %s" % (1 + pos, node, name, expect[name], b)
                    break
        if bad:
            ctx.fail("failing-input", "ds.%s(%s): %s" % (meth, ", ".join("%s=%r" % kv for kv in kw.items())[:160], bad),
                     {"entry": "terminal", "meth": meth, "kwargs": repr(kw)}, key=core.digest({"p": ID, "t": meth, "kw": repr(kw)}))
        if L.canon_floats(a) != got:
            ctx.corr_disagreements += 1
            if not bad:
                ctx.fail("no-failing-input-found", "correspondence as_terminal (generated table) vs ObjectStream.%s on %r: model %s, code %s"
                         % (meth, kw, a[:200], got[:200]), {"entry": "terminal", "meth": meth, "kwargs": repr(kw), "model": a[:300]})


def _find_const_arg(q, how):
    """the constant the library put into the emitted lambda"""
    lam = q.args[1]
    body = lam.body
    if isinstance(body, ast.Compare):          # the Where form of the capture case: (e.x, v) == e.y
        body = body.left
    if how == "default":
        return body.args[0] if isinstance(body, ast.Call) and body.args else None
    return body.elts[1] if isinstance(body, ast.Tuple) and len(body.elts) == 2 else None


def check_lambda_constants(ctx, scalars):
    """declared defaults (_fill_in_default_arguments -> as_literal) and captured variables
    (_rewrite_captured_vars -> as_literal), then check_ast"""
    for i, v in enumerate(scalars):
      for op in (("Select", "Where", "SelectMany") if i % 3 == 0 or not L.transportable_py(v) else ("Select", "Where", "SelectMany")[i % 3:i % 3 + 1]):
          for how, f in (("default", L.impl_default), ("capture", L.impl_capture)):
              ctx.evaluations += 1
              st, q = f(v, op)
              legal = L.transportable_py(v)
              bad = None
              if legal:
                  if st != "ok":
                      bad = "raises %s" % q
                  else:
                      c = _find_const_arg(q, how)
                      if not (isinstance(c, ast.Constant) and L.exact_eq(c.value, v)):
                          bad = "emitted %s" % (ast.dump(c)[:120] if isinstance(c, ast.AST) else repr(c))
              else:
                  if not (st == "exc" and q == "ValueError"):
                      bad = "a %s constant must be refused with ValueError, got %s" % (type(v).__name__, q if st == "exc" else "a query")
              ctx.count("lambda_constant", "%s:%s" % (how, "embedded" if st == "ok" else q))
              if bad:
                  ctx.fail("failing-input", "%s value %s in %s(lambda ...): %s" % (how, _vrepr(v)[:100], op, bad),
                           _witness(how, v), key=_key(how + ("" if op == "Select" else op), v))


# ---------------------------------------------------------------- part 4: check_ast

class _IntEnum(enum.IntEnum):
    R = 1


class _Flag(enum.IntFlag):
    A = 1
    B = 2


class _StrSub(str):
    pass


class _FloatSub(float):
    pass


class _IntSub(int):
    pass


class _BytesSub(bytes):
    pass


# instances of subclasses of the legal scalar types have no literal form: refused like any other object (F38)
SUBCLASS_CONSTS = [_IntEnum.R, _StrSub("ab"), _FloatSub(1.5), _IntSub(7), _BytesSub(b"x"), _Flag.A | _Flag.B, signal.SIGINT]
ODD_CONSTS = [None, Ellipsis, True, 0, 1.5, 2j, "s", b"b", sys, types, int, (1, 2), frozenset(), 10 ** 30, -0.0] + SUBCLASS_CONSTS
TEMPLATES = ["lambda e: K", "f(a, k=K)", "f(K, *K, **K)", "{K: 1}", "{1: K}", "a[K]", "[K for x in y if K]", "{K}", "a[K:K]",
             "(K for x in K)", "K if a else b", "a if K else b", "not K", "a < K", "a and K", "K.real", "(a, [K])",
             "f'{K}'", "lambda e=K: e", "{**K}", "K @ K", "a[1:2, K]"]


class _Subst(ast.NodeTransformer):
    def __init__(self, v):
        self.v = v

    def visit_Name(self, n):
        return ast.Constant(value=self.v) if n.id == "K" else n


def _check_cases(ctx):
    out = []
    for t in TEMPLATES:
        tree = ast.parse(t, mode="eval").body
        for v in ODD_CONSTS:
            out.append(_Subst(v).visit(ast.parse(t, mode="eval").body))
        out.append(tree)
    out.append(ast.List(elts=[1, None], ctx=ast.Load()))                      # raw values in node slots: not visited
    out.append(ast.Call(func=ast.Name(id="f", ctx=ast.Load()), args=[None], keywords=[]))
    rg = gen.RandomExpr(ctx.rng, names=["e", "a"], attrs=["x", "pt"], funcs=["f", "Sum"], methods=["m", "Select"],
                        consts=ODD_CONSTS + [1, "a", 2, 3.5, True])
    for _ in range(ctx.budget(1500, 30000)):
        out.append(rg.expr(ctx.rng.randrange(1, 6)))
    return out


def _gate_spec(e):
    for n in ast.walk(e):
        if isinstance(n, ast.Constant) and not L.transportable_py(n.value):
            return "ValueError"
    return "OK"


def check_gate(ctx):
    from func_adl.util_ast import check_ast

    cs = _check_cases(ctx)
    ans = ctx.driver.call("check", [[bridge.to_sx(e)] for e in cs])
    for e, a in zip(cs, ans):
        ctx.evaluations += 1
        ctx.corr_cases += 1
        st, r = L.run(check_ast, e)
        got = "OK" if st == "ok" else r
        want = _gate_spec(e)
        ctx.count("check_ast", got)
        bad = got != want
        if bad:
            ctx.fail("failing-input", "check_ast(%s) -> %s; the property requires %s (every constant transportable, else ValueError)"
                     % (bridge.dump(e)[:160], got, want), {"entry": "check_ast", "expr_sx": bridge.to_sx(e), "expr": bridge.dump(e)[:300]},
                     key=core.digest({"p": ID, "c": ast.dump(e)}))
        if a != got:
            ctx.corr_disagreements += 1
            if not bad:
                ctx.fail("no-failing-input-found", "correspondence check_ast (Model/Literal.v over the generated legal-type table) vs "
                         "util_ast.check_ast on %s: model %s, code %s" % (bridge.dump(e)[:120], a, got),
                         {"entry": "check_ast", "expr_sx": bridge.to_sx(e), "model": a})


# ---------------------------------------------------------------- run / replay

def run(ctx):
    import warnings

    warnings.simplefilter("ignore")          # SyntaxWarning of ast.parse on texts with unknown escapes
    r = ctx.rng
    vals = _values(ctx)
    check_as_ast(ctx, vals)
    strs = [v for v in vals if isinstance(v, str)]
    check_raw_texts(ctx, strs[:ctx.budget(16000, 400000)])
    # entry points
    sample = list(L.CORPUS_STRINGS) + list(L.CORPUS_VALUES) + L.deep_nests()
    sample += [{"k": s} for s in L.CORPUS_STRINGS] + [{s: [s, (s,)]} for s in L.CORPUS_STRINGS[:30]]
    pool = [v for v in vals[len(L.CORPUS_STRINGS) + len(L.CORPUS_VALUES):]]
    sample += r.sample(pool, min(len(pool), ctx.budget(1500, 20000)))
    check_metadata(ctx, sample)
    # file names are text, not paths: spellings a path normaliser would rewrite must arrive untouched
    PATHS = ["a//b.root", "./out.root", "dir/../f.parquet", "out/", "/abs//x", ".", "a/./b", "..", "C:/x/../y", "x/", "//srv/f", "a/b/../../c",
             "a\\..\\b", "", " ", "./"]
    names = L.CORPUS_STRINGS + PATHS + [L.rand_string(r, 12) for _ in range(ctx.budget(60, 600))]
    triples = [(["a", "b"], "tree", "file.root"), ("col", "t", "f"), ("c", "t", "./a//b/../f.root"), ([], "it's", "a\\nb"), (["x' + 'y", '"'], "t\n", "C:\\new\\table.root")]
    for _ in range(ctx.budget(250, 4000)):
        cols = r.choice([[r.choice(names) for _ in range(r.randrange(0, 4))], r.choice(names)])
        triples.append((cols, r.choice(names), r.choice(names)))
    check_terminals(ctx, triples)
    scalars = [s for s in L.CORPUS_STRINGS if "\ud800" not in s and "\udfff" not in s] + \
              [v for v in L.CORPUS_VALUES if not isinstance(v, (list, tuple, dict))] + \
              [[1, 2], (1,), {"a": 1}, (), [], {}, Ellipsis, 2j, sys, frozenset()] + SUBCLASS_CONSTS + \
              [L.rand_scalar(r) for _ in range(ctx.budget(120, 1500))]
    check_lambda_constants(ctx, scalars)
    check_gate(ctx)
    for v in vals[:2] + vals[60:63]:
        st, n = L.impl_as_ast(v)
        ctx.sample({"value": _vrepr(v)[:80], "as_ast": bridge.dump(n) if st == "ok" else "raises " + n})
    ctx.sample({"terminal": "AsROOTTTree", "emitted": bridge.dump(L.impl_terminal("AsROOTTTree", {"filename": "f", "treename": "t", "columns": ["c"]})[1])})


def replay(ctx, w):
    entry = w.get("entry")
    if entry in ("as_ast", "repr", "parse", "finite"):
        check_as_ast(ctx, [L.value_from_replay(w["value"])])
    elif entry == "parse_raw":
        t = w["text"]
        check_raw_texts(ctx, [t[1:-1]])
    elif entry == "MetaData":
        check_metadata(ctx, [L.value_from_replay(w["value"])])
    elif entry == "terminal":
        kw = L.value_from_replay(w["kwargs"])
        check_terminals(ctx, [(kw.get("columns", []), kw.get("treename", "t"), kw.get("filename", "f"))])
    elif entry in ("default", "capture"):
        v = eval(w["value"], {"inf": float("inf"), "nan": float("nan"), "Ellipsis": Ellipsis})
        check_lambda_constants(ctx, [v])
    elif entry == "check_ast":
        from func_adl.util_ast import check_ast

        e = bridge.from_sx(w["expr_sx"])
        st, r = L.run(check_ast, e)
        got = "OK" if st == "ok" else r
        if got != _gate_spec(e):
            ctx.fail("failing-input", "still fails: check_ast(%s) -> %s" % (bridge.dump(e)[:160], got), w,
                     key=core.digest({"p": ID, "c": ast.dump(e)}))
    else:
        run(ctx)

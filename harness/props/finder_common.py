"""Shared code of the C03 check (source recovery of the lambda that was passed).

* layout generator: Python source files built from a layout grammar; every `lambda` keyword and
  every `def` carries a unique integer marker constant in its body, so that which lambda the
  implementation recorded is identified by the marker;
* token codec for the extracted model (ocaml/driver_finder.ml);
* the CPython-side inputs of the model: token streams (tokenize), inspect.findsource,
  untokenize + ast.parse of an extent, inspect.getsource + ast.parse of a def;
* runners of the implementation (a small fake stream class and the real ObjectStream).
"""
from __future__ import annotations

import ast
import copy
import importlib.util
import inspect
import io
import linecache
import os
import re
import sys
import tokenize
from typing import Any, Dict, List, Optional, Tuple

MARK0 = 1000
TAG_A, TAG_B = "\x01", "\x02"
IND1, IND0 = "\x03", "\x04"          # continuation indent / base indent of the statement
OPS = ["Select", "Where", "SelectMany"]
# the parameter the callable is bound to in func_adl/object_stream.py (a lambda may be passed by that keyword)
REAL_KW = {"Select": "f", "Where": "filter", "SelectMany": "func"}
# keyword names the recording fake stream also accepts: the other operators' parameter names, names that
# coincide with method names, short names that are substrings of `lambda`/`def`
FAKE_KW = ["f", "filter", "func", "Select", "Where", "SelectMany", "fn", "lam", "de", "a", "e"]
# identifiers that are substrings / superstrings of the keywords the scanner looks for ("lambda", "def"):
# used as dataset variables, helper names, attribute names, attribute hops and parameter names
DS_NAMES = ["a", "b", "d", "l", "m", "am", "da", "e", "f"]                  # all bound to the dataset
HELPER_NAMES = ["compare", "lam", "lambd", "lambda_", "de", "ef", "define", "defs"]   # return their first argument
HOP_NAMES = ["a", "d", "l", "m", "am", "da", "lam", "lambd", "lambda_", "de", "ef", "define", "f", "e"]  # stream.<hop> is the stream
ATTR_NAMES = ["v", "v", "a", "l", "m", "da", "lam", "lambda_", "de", "ef"]   # sample-object attributes (all = v)
ARG_NAMES = ["e", "e", "e", "j", "x", "evt", "a", "d", "l", "m", "lam", "lambda_", "de", "f", "da"]


def hx(s: str) -> str:
    return s.encode("utf-8").hex()


# ---------------------------------------------------------------------------------- generator

class Case:
    """What the generator knows about one `lambda` / `def`."""

    def __init__(self, marker: int, kind: str, op: Optional[str], args: List[str], passed: bool,
                 supported: bool, family: str):
        self.marker, self.kind, self.op, self.args = marker, kind, op, args
        self.passed, self.supported, self.family = passed, supported, family
        self.pos: Optional[Tuple[int, int]] = None      # (row, col) of the lambda / def keyword
        self.row_group: Optional[int] = None             # chain id: label decided per physical row after rendering


class LayoutGen:
    """One generated source file."""

    def __init__(self, rng, real: bool = False):
        self.r = rng
        self.real = real                 # restrict to what the real ObjectStream accepts (1 argument, bool Where)
        self.cases: Dict[int, Case] = {}
        self.next = MARK0 + rng.randrange(0, 50) * 100
        self.lines: List[str] = []
        self.trailer: List[str] = []

    # -- markers
    def marker(self, kind, op, args, passed, supported, family) -> int:
        self.next += 1
        m = self.next
        # a lambda with several parameters is never recovered (its extent ends at the first comma)
        self.cases[m] = Case(m, kind, op, list(args), passed, supported and len(args) <= 1, family)
        return m

    def argname(self) -> str:
        return self.r.choice(ARG_NAMES)

    def dsname(self) -> str:
        return "ds" if self.r.random() < .45 else self.r.choice(DS_NAMES)

    def attr(self) -> str:
        return self.r.choice(ATTR_NAMES)

    def hop(self, p: float = .2) -> str:
        """an attribute access between two calls of a chain (`stream.m.Select(...)`)"""
        return "." + self.r.choice(HOP_NAMES) if self.r.random() < p else ""

    # -- lambda bodies.  `ml` allows line breaks (the body is inside the call's parentheses)
    def body(self, a: str, m: int, op: str, ml: bool, depth: int = 0) -> str:
        r = self.r
        forms = ["plain", "plain", "tuple", "dict", "cond", "string", "call", "fstr"] + ([] if self.real else ["comp"])
        if depth < 2:
            forms += ["nested", "nested_same"]
        if ml:
            forms += ["ml_paren", "ml_op", "ml_comment", "ml_nested", "ml_colon"]
        f = r.choice(forms)
        cmt = r.choice(["  # noqa", "  # ) , lambda z: z (", "  # [ { lambda"])
        if f == "plain":
            s = "%s.%s + %d" % (a, self.attr(), m)
        elif f == "tuple":
            s = "(%s.v, %d, %s.w)" % (a, m, a)
        elif f == "dict":
            s = "{'k': %s.v, 'm': [%s.w, %d]}" % (a, a, m)
        elif f == "cond":
            s = "%s.v + %d if %s.w else %s.v - %d" % (a, m, a, a, m)
        elif f == "string":
            s = "%s + str(%s.v + %d)" % (r.choice(['"lambda q: (q["', "'), lambda %s: %s.v'" % (a, a), '"]){"', '"""x, )"""']), a, m)
        elif f == "call":
            s = "%s.pt(1, 2)[0] + %d" % (a, m)
        elif f == "fstr":
            s = "f\"{%s.v}(\" + str(%d)" % (a, m)
        elif f == "comp":
            s = "[q + %d for q in %s.lst]" % (m, a)
        elif f in ("nested", "nested_same"):
            ia = a if f == "nested_same" else r.choice(["j", "k", "q", "m", "da", "lam"])
            iop = r.choice(OPS[:2])
            im = self.marker("lambda", iop, [ia], False, False, "inner")
            s = "%s.jets.%s(%s) + (%d,)" % (a, iop, self.lam(im, [ia], iop, False, depth + 1), m)
        elif f == "ml_paren":
            s = "(\n%s    %s.v%s\n%s    + %d\n%s)" % (IND1, a, cmt if r.random() < .5 else "", IND1, m, IND1)
        elif f == "ml_op":
            s = "%s.v +%s\n%s%d" % (a, cmt if r.random() < .5 else "", IND1 + " " * r.randrange(0, 9), m)
        elif f == "ml_comment":
            s = "(%s.v,%s\n%s %d)" % (a, cmt, IND1, m)
        elif f == "ml_nested":
            ia = r.choice([a, "j", "k"])
            iop = r.choice(OPS[:2])
            im = self.marker("lambda", iop, [ia], False, False, "inner")
            s = "%s.jets.%s(\n%s    %s\n%s) + (%d,)" % (a, iop, IND1, self.lam(im, [ia], iop, False, depth + 1), IND1, m)
        else:  # ml_colon
            s = "\n%s    %s.v + %d" % (IND1, a, m)
            return s + " != 7" if op == "Where" and self.real else s
        if op == "Where" and self.real:
            s = "(%s) != 7" % s
        return s

    def lam(self, m: int, args: List[str], op: str, ml: bool, depth: int = 0, kw: Optional[str] = None) -> str:
        sig = ", ".join(args)
        b = self.body(args[0], m, op, ml, depth)
        sp = "" if b.startswith("\n") else " "
        pre = "" if kw is None else kw + self.r.choice(["=", "=", "=", " = "])
        return "%s%s%d%slambda %s:%s%s" % (pre, TAG_A, m, TAG_B, sig, sp, b)

    def kwname(self, op: str, p: float = .2) -> Optional[str]:
        """None = the lambda is passed by position; otherwise the keyword it is passed by (`.Select(f=lambda ...)`)"""
        if self.r.random() >= p:
            return None
        if self.real or self.r.random() < .6:
            return REAL_KW[op]
        return self.r.choice(FAKE_KW)

    # -- chains of calls
    def chain(self, recv: str = "ds", style: Optional[str] = None, lhs: str = "r = ") -> str:
        r = self.r
        if recv == "ds":
            recv = self.dsname() + self.hop(.15)
        style = style or r.choice(["line", "line", "black", "wrapped", "inline_then_wrapped", "funny", "funny",
                                   "backslash", "tail"])
        n = r.choice([1, 1, 2, 2, 3, 4]) if style != "tail" else r.choice([2, 3])
        same_arg = r.random() < .5
        a0 = self.argname()
        calls = []
        for i in range(n):
            op = r.choice(OPS) if r.random() < .6 else "Select"
            args = [a0 if same_arg else self.argname()]
            if not self.real and style in ("funny", "tail", "backslash") and r.random() < .12:
                args.append(r.choice(["b", "c"]))
            calls.append([op, args])
        sigs = [(op, tuple(a)) for op, a in calls]
        # some calls pass their lambda by keyword; the method and parameter names alone tell calls apart
        kws = [self.kwname(op) for op, _ in calls]

        def uniq(i, among):
            return sum(1 for j in among if sigs[j] == sigs[i]) == 1

        out = lhs
        if style == "line":
            out += recv
            for i, (op, args) in enumerate(calls):
                m = self.marker("lambda", op, args, True, uniq(i, range(n)), "line")
                out += "%s.%s%s(%s)" % (self.hop() if i else "", op, r.choice(["", "", " "]), self.lam(m, args, op, False, kw=kws[i]))
        elif style == "black":
            out += "(\n%s%s\n" % (IND1, recv)
            for i, (op, args) in enumerate(calls):
                m = self.marker("lambda", op, args, True, True, "black")
                c = r.choice(["", "", "  # noqa", "  # lambda e: e, )"])
                out += "%s.%s(%s)%s\n" % (IND1, op, self.lam(m, args, op, True, kw=kws[i]), c)
            out += "%s)" % IND0
        elif style == "wrapped":
            out += recv
            for i, (op, args) in enumerate(calls):
                m = self.marker("lambda", op, args, True, True, "wrapped")
                c = r.choice(["", "", "  # noqa", "  # ( lambda"])
                extra = r.choice(["", "", ",", ", 50"]) if not self.real else r.choice(["", ""])
                if kws[i] is not None and extra == ", 50":      # no positional argument after a keyword
                    extra = ", known_types={}"
                out += ".%s(%s\n%s%s%s\n%s)" % (op, c, IND1, self.lam(m, args, op, True, kw=kws[i]), extra, IND0)
        elif style == "inline_then_wrapped":
            k = r.randrange(1, n + 1) if n > 1 else 1
            out += recv
            for i, (op, args) in enumerate(calls):
                if i < k - 1 or n == 1:
                    m = self.marker("lambda", op, args, True, uniq(i, range(k - 1 if n > 1 else 1)), "inline")
                    out += ".%s(%s)" % (op, self.lam(m, args, op, False, kw=kws[i]))
                else:
                    m = self.marker("lambda", op, args, True, True, "wrapped_tail")
                    out += ".%s(\n%s%s\n%s)" % (op, IND1, self.lam(m, args, op, True, kw=kws[i]), IND0)
        elif style == "backslash":
            out += recv
            for i, (op, args) in enumerate(calls):
                m = self.marker("lambda", op, args, True, False, "backslash")
                self.cases[m].row_group = id(calls)
                out += "%s.%s(%s)" % (" \\\n" + IND1 if i and r.random() < .7 else "", op, self.lam(m, args, op, False, kw=kws[i]))
        elif style == "tail":
            # a multi-line first argument, the chain continues on its last line
            out += recv
            for i, (op, args) in enumerate(calls):
                m = self.marker("lambda", op, args, True, False, "tail")
                self.cases[m].row_group = id(calls)
                out += "%s.%s(%s)" % (self.hop() if i else "", op, self.lam(m, args, op, i == 0 or r.random() < .3, kw=kws[i]))
        else:  # funny: a line break at every legal point with some probability
            out += recv
            for i, (op, args) in enumerate(calls):
                m = self.marker("lambda", op, args, True, False, "funny")
                b1 = "\n" + IND1 + " " * r.randrange(0, 5) if r.random() < .4 else ""
                b2 = "\n" + r.choice([IND0, IND1]) if r.random() < .3 else ""
                out += "%s.%s(%s%s%s)" % (self.hop() if i else "", op, b1, self.lam(m, args, op, r.random() < .5, kw=kws[i]), b2)
        return out

    # -- statements that are not plain chains
    def special(self) -> List[str]:
        r = self.r
        k = r.choice(["assigned", "second_arg", "keyword", "keyword", "kw_chain", "kw_chain", "kw_chain", "kw_names",
                      "wrapped_alone", "wrapped_neighbour", "wrapped_neighbour", "cond_arg", "cond_arg",
                      "listed", "cond_expr", "tuple", "concat", "comp",
                      "semicolon", "helper", "default_arg", "subscript", "eager_nested", "eager_nested",
                      "enclosed", "enclosed", "enclosed", "enclosed"])
        a = self.argname()
        if k == "enclosed":
            # several library calls on one logical line inside an enclosing call / tuple / list / dict, each on its
            # own dataset variable; told apart by method name or parameter name (documented) or not (must raise)
            n = r.choice([2, 2, 3])
            same = r.random() < .4
            calls = []
            for i in range(n):
                op = "Select" if r.random() < .5 else r.choice(OPS)
                calls.append((op, [a if same else self.argname()]))
            sigs = [(op, tuple(x)) for op, x in calls]
            parts = []
            for i, (op, args) in enumerate(calls):
                m = self.marker("lambda", op, args, True, sigs.count(sigs[i]) == 1, "enclosed")
                parts.append("%s%s.%s(%s)" % (self.dsname(), self.hop(.1), op, self.lam(m, args, op, False, kw=self.kwname(op, .15))))
            form = r.choice(["call", "call", "call", "tuple", "list", "dict", "kwcall"])
            if form == "call":
                return ["r = %s(%s)" % (r.choice(HELPER_NAMES), ", ".join(parts))]
            if form == "kwcall" and not self.real:
                return ["r = %s(%s, %s=1)" % (r.choice(HELPER_NAMES), ", ".join(parts), r.choice(["m", "lam", "de"]))]
            if form == "tuple":
                return ["r = (%s)" % ", ".join(parts)]
            if form == "dict":
                return ["r = {%s}" % ", ".join("'%s': %s" % (r.choice(HOP_NAMES), p) for p in parts)]
            return ["r = [%s]" % ", ".join(parts)]
        if self.real and k in ("second_arg", "concat", "helper", "eager_nested"):
            k = "cond_expr"
        if self.real and k == "kw_names":
            k = "kw_chain"
        if k == "eager_nested":
            # the body of the outer lambda is executed by `eager`, so the inner lambda really is passed;
            # its signature differs from the enclosing lambda's (never nested in the same signature)
            iargs = r.choice([[a, "b"], [a, "b"], [r.choice(["q", "k"])], [a + "2", "b"]])
            iop = r.choice(["Select", "Select", "Where"])
            m1 = self.marker("lambda", "Select", [a], True, True, "eager_outer")
            m2 = self.marker("lambda", iop, iargs, True, False, "nested_passed")
            inner = "%s%d%slambda %s: %s.v + %d" % (TAG_A, m2, TAG_B, ", ".join(iargs), iargs[0], m2)
            return ["r = eager.Select(%s%d%slambda %s: (ds.%s(%s), %s.v + %d)[1])" % (TAG_A, m1, TAG_B, a, iop, inner, a, m1)]
        if k in ("wrapped_alone", "wrapped_neighbour", "cond_arg"):
            # the passed lambda is not written directly as the operator's argument (argument of a pass-through helper,
            # branch of a conditional expression): it is filed under another NAME.  Benign variants only - alone on the
            # line, or next to a lambda that differs in parameter names or is filed under another method: the call must
            # raise or record the right lambda.  (A same-signature neighbour filed under the called method is the OPEN
            # known finding of c03.KNOWN_OPEN and is deliberately not generated.)
            b = r.choice([n for n in ARG_NAMES if n != a])
            wrap = lambda t: r.choice(["ident(%s)", "ident(%s)", "(%s)", "compare(%s, 1)"]) % t
            if k == "wrapped_alone":
                op = r.choice(OPS)
                m = self.marker("lambda", op, [a], True, False, "wrapped_alone")
                return ["r = %s.%s(%s)" % (self.dsname(), op, wrap(self.lam(m, [a], op, False)))]
            if k == "wrapped_neighbour":
                form = r.choice(["args", "args", "method"])
                op1 = "Select" if form == "args" else "Where"
                a1 = b if form == "args" else r.choice([a, b])       # same method => different parameter names
                first_wrapped = r.random() < .4
                m1 = self.marker("lambda", op1, [a1], True, not first_wrapped, "wrapped_neighbour")
                m2 = self.marker("lambda", "Select", [a], True, first_wrapped, "wrapped_neighbour")
                l1, l2 = self.lam(m1, [a1], op1, False), self.lam(m2, [a], "Select", False)
                if first_wrapped:
                    l1 = "ident(%s)" % l1
                else:
                    l2 = "ident(%s)" % l2
                return ["r = %s.%s(%s)%s.Select(%s)" % (self.dsname(), op1, l1, self.hop(.1), l2)]
            flag = r.random() < .5
            a2 = b if not flag or r.random() < .5 else a          # the second branch is passed => different names
            m1 = self.marker("lambda", "Select", [a], flag, False, "cond_arg")
            m2 = self.marker("lambda", "Select", [a2], not flag, False, "cond_arg")
            return ["flag_%d = %s" % (m1, flag),
                    "r = %s.Select((%s) if flag_%d else (%s))" % (self.dsname(), self.lam(m1, [a], "Select", False), m1,
                                                                self.lam(m2, [a2], "Select", False))]
        if k == "assigned":
            m = self.marker("lambda", "Select", [a], True, False, "assigned")
            return ["f_%d = %s" % (m, self.lam(m, [a], "Select", False)), "r = ds.Select(f_%d)" % m]
        if k == "second_arg":
            m1 = self.marker("lambda", "Select", [a], True, False, "first_of_two")
            m2 = self.marker("lambda", "Select", [a], False, False, "second_arg")
            return ["r = ds.Select(%s, %s)" % (self.lam(m1, [a], "Select", False), self.lam(m2, [a], "Select", False))]
        if k == "keyword":
            # a lambda passed by keyword, alone on its line (or on its own line below the call)
            op = r.choice(OPS)
            kw = REAL_KW[op] if self.real or r.random() < .7 else r.choice(FAKE_KW)
            m = self.marker("lambda", op, [a], True, True, "keyword")
            if r.random() < .3:
                return ["r = %s.%s(\n%s%s\n%s)" % (self.dsname(), op, IND1, self.lam(m, [a], op, True, kw=kw), IND0)]
            return ["r = %s.%s(%s)" % (self.dsname(), op, self.lam(m, [a], op, False, kw=kw))]
        if k in ("kw_chain", "kw_names"):
            # keyword lambdas chained with positional ones on one line, same and different method / parameter
            # names (kw_names: keyword names that coincide with method names - the recording fake stream only)
            n = r.choice([2, 2, 3])
            same = r.random() < .5
            calls = []
            for i in range(n):
                op = "Select" if r.random() < .5 else r.choice(OPS)
                calls.append((op, [a if same else self.argname()]))
            sigs = [(op, tuple(x)) for op, x in calls]
            nk = r.randrange(n)                     # at least this one is passed by keyword
            out = "r = " + self.dsname()
            for i, (op, args) in enumerate(calls):
                kw = None
                if i == nk or r.random() < .4:
                    kw = REAL_KW[op] if k == "kw_chain" else r.choice(OPS + [o for o, _ in calls])
                m = self.marker("lambda", op, args, True, sigs.count(sigs[i]) == 1, k)
                out += "%s.%s(%s)" % (self.hop(.1) if i else "", op, self.lam(m, args, op, False, kw=kw))
            return [out]
        if k == "listed":
            m1 = self.marker("lambda", "Select", [a], False, False, "listed")
            m2 = self.marker("lambda", "Select", [a], True, False, "listed")
            return ["fs = [%s, %s]" % (self.lam(m1, [a], "Select", False), self.lam(m2, [a], "Select", False)),
                    "r = ds.Select(fs[1])"]
        if k == "cond_expr":
            b = a if r.random() < .5 else self.argname()
            op2 = r.choice(OPS)
            m1 = self.marker("lambda", "Select", [a], True, ("Select", a) != (op2, b), "cond_expr")
            m2 = self.marker("lambda", op2, [b], False, False, "cond_expr")
            return ["r = ds.Select(%s) if ds is not None else ds.%s(%s)" % (
                self.lam(m1, [a], "Select", False), op2, self.lam(m2, [b], op2, False))]
        if k == "tuple":
            m1 = self.marker("lambda", "Select", [a], True, False, "tuple")
            m2 = self.marker("lambda", "Select", [a], True, False, "tuple")
            return ["r = %s.Select(%s), %s.Select(%s)" % (self.dsname(), self.lam(m1, [a], "Select", False),
                                                          self.dsname(), self.lam(m2, [a], "Select", False))]
        if k == "concat":
            b = self.argname()
            m1 = self.marker("lambda", "Select", [a], True, a != b, "concat")
            m2 = self.marker("lambda", "Select", [b], True, a != b, "concat")
            return ["r = %s.Select(%s).Concat(%s.Select(%s))" % (self.dsname(), self.lam(m1, [a], "Select", False),
                                                                 self.dsname(), self.lam(m2, [b], "Select", False))]
        if k == "comp":
            m = self.marker("lambda", "Select", [a], True, True, "comprehension")
            return ["rs = [ds.Select(%s) for _ in range(1)]" % self.lam(m, [a], "Select", False)]
        if k == "semicolon":
            m1 = self.marker("lambda", "Select", [a], True, False, "semicolon")
            m2 = self.marker("lambda", "Where", [a], True, False, "semicolon")
            return ["r = %s.Select(%s); %s = %s.Where(%s)" % (self.dsname(), self.lam(m1, [a], "Select", False),
                                                              r.choice(["r2", "lam_", "de_"]), self.dsname(),
                                                              self.lam(m2, [a], "Where", False))]
        if k == "helper":
            m = self.marker("lambda", "Select", [a], True, False, "helper")
            return ["r = ds.Select(ident(%s))" % self.lam(m, [a], "Select", False)]
        if k == "default_arg":
            m = self.marker("lambda", "Select", [a], True, True, "default_arg")
            return ["def dflt_%d(s=ds.Select(%s)): return s" % (m, self.lam(m, [a], "Select", False))]
        m1 = self.marker("lambda", "Select", [a], False, False, "subscript")
        m2 = self.marker("lambda", "Select", [a], True, False, "subscript")
        return ["r = {0: %s}[0], ds.Select(%s)" % (self.lam(m1, [a], "Select", False), self.lam(m2, [a], "Select", False))]

    def defs(self) -> List[str]:
        """functions passed instead of lambdas (`def` branch), and lambdas written inside one-line functions"""
        r = self.r
        k = r.choice(["one", "one", "two", "doc", "two_stmts", "decorated", "decorated_lambda", "static", "contains",
                      "contains", "default_lambda", "no_return", "lead_stmt", "lead_stmt", "lead_stmt", "lead_noop",
                      "mlstring", "mlstring", "under", "under", "wrapped", "wrapped"])
        a = self.argname()
        op = r.choice(OPS)
        ret = "%s.v + %%d" % a if not (op == "Where" and self.real) else "%s.v != %%d" % a
        if k == "lead_noop":
            # statements that do nothing before the single return: docstring, `...`, a bare constant (all dropped
            # by rewrite_func_as_lambda)
            lead = r.choice([["..."], ['"doc"', "..."], ["...", '"lambda e: ("'], ["1"]])
            m = self.marker("def", op, [a], True, True, "def_noop_lead")
            return ["%s%d%sdef g_%d(%s):" % (TAG_A, m, TAG_B, m, a)] + ["    " + x for x in lead] + \
                   ["    return %s" % (ret % m), "r = ds.%s(g_%d)" % (op, m)]
        if k == "lead_stmt":
            # a statement that is NOT a no-op before the return: the def must be refused (ValueError) or recorded as a
            # lambda that behaves like it - never as its bare return expression when that differs
            self.next += 1
            m = self.next                      # marker taken first so that the helper names carry it
            kn = "k_%d" % m
            scaled = (ret % m).replace("%s.v" % a, "(%s.v * %s)" % (a, kn))
            plain = ret % m
            form = r.choice(["ann_value", "ann_value", "ann_value_global", "ann_value_global", "ann_bare", "assign",
                             "assign_global", "aug", "call_expr", "pass", "nested_def", "if_return", "global_stmt",
                             "tuple_assign", "assert", "walrus_expr", "del_stmt", "import_stmt", "with_stmt", "for_stmt",
                             "try_stmt"])
            pre: List[str] = []
            if form in ("ann_value_global", "assign_global", "global_stmt"):
                pre = ["%s = 10" % kn]         # a same-named variable of the enclosing scope with another value
            cmp_tail = " != 7" if op == "Where" and self.real else ""
            body = {
                "ann_value": ["%s: float = 2" % kn, "return " + scaled],
                "ann_value_global": ["%s: float = 2" % kn, "return " + scaled],
                "ann_bare": ["%s: int" % kn, "return " + plain],
                "assign": ["%s = 2" % kn, "return " + scaled],
                "assign_global": ["%s = 2" % kn, "return " + scaled],
                "aug": ["%s = 1" % kn, "%s += 1" % kn, "return " + scaled],
                "call_expr": ["str(%s)" % a, "return " + plain],
                "pass": ["pass", "return " + plain],
                "nested_def": ["def %s(): return 2" % kn, "return " + scaled.replace(kn, kn + "()")],
                "if_return": ["if %s is None: return 0" % a, "return " + plain],
                "global_stmt": ["global %s" % kn, "return " + scaled],
                "tuple_assign": ["%s, _u = 2, 3" % kn, "return " + scaled],
                "assert": ["assert %s is not None" % a, "return " + plain],
                "walrus_expr": ["(%s := 2)" % kn, "return " + scaled],
                "del_stmt": ["%s = 2" % kn, "_v = (%s)" % scaled, "del %s" % kn, "return _v"],
                "import_stmt": ["import math", "return " + plain],
                "with_stmt": ["with ctx():", "    return " + plain],
                "for_stmt": ["for %s in (2,):" % kn, "    return " + scaled],
                "try_stmt": ["try:", "    return " + plain, "finally:", "    pass"],
            }[form]
            self.cases[m] = Case(m, "def", op, [a], True, False, "def_lead_" + form)
            return pre + ["%s%d%sdef g_%d(%s):" % (TAG_A, m, TAG_B, m, a)] + ["    " + x for x in body] + \
                   ["r = ds.%s(g_%d)" % (op, m)]
        if k == "mlstring":
            # F40: the body holds a multi-line string literal; inside an enclosing block its continuation lines are indented with
            # the def (they are part of the string), so re-indenting the def's source must not touch them
            m = self.marker("def", op, [a], True, True, "def_multiline_string")
            head = "%s%d%sdef g_%d(%s):" % (TAG_A, m, TAG_B, m, a)
            expr = '%s + len("""' % (ret % m)
            if r.random() < .5:
                return [head + " return " + expr, "ab cd", '  ef""")', "r = ds.%s(g_%d)" % (op, m)]
            return [head, "    return " + expr, "ab cd", '  ef""")', "r = ds.%s(g_%d)" % (op, m)]
        if k == "under":
            # F51: inside brackets a continuation line may start LEFT of the `def` (here: a def under `if`, its second line at the
            # `if`'s column): only blanks are indentation, the characters of that line are code
            m = self.marker("def", op, [a], True, True, "def_continuation_left_of_def")
            body = (ret % m)
            if r.random() < .5:
                return ["if ds is not None:", "    %s%d%sdef g_%d(%s): return (0 +" % (TAG_A, m, TAG_B, m, a), "%s)" % body,
                        "    r = ds.%s(g_%d)" % (op, m)]
            return ["if ds is not None:", "    %s%d%sdef g_%d(%s):" % (TAG_A, m, TAG_B, m, a), "        return (1 -", "1 + %s)" % body,
                    "    r = ds.%s(g_%d)" % (op, m)]
        if k == "wrapped":
            # F53: a function under a functools.wraps decorator that changes the result: inspect finds the undecorated source, which
            # is not the callable that is passed - only raising is right (not a documented layout)
            m = self.marker("def", op, [a], True, False, "def_under_wraps_decorator")
            if r.random() < .5:
                return ["@twice", "%s%d%sdef g_%d(%s): return %s" % (TAG_A, m, TAG_B, m, a, ret % m), "r = ds.%s(g_%d)" % (op, m)]
            return ["@twice", "%s%d%sdef g_%d(%s):" % (TAG_A, m, TAG_B, m, a), "    return %s" % (ret % m), "r = ds.%s(g_%d)" % (op, m)]
        if k == "one":
            m = self.marker("def", op, [a], True, True, "def_one_line")
            return ["%s%d%sdef g_%d(%s): return %s" % (TAG_A, m, TAG_B, m, a, ret % m), "r = ds.%s(g_%d)" % (op, m)]
        if k == "two":
            m = self.marker("def", op, [a], True, True, "def_two_lines")
            return ["%s%d%sdef g_%d(%s):" % (TAG_A, m, TAG_B, m, a), "    return %s" % (ret % m), "r = ds.%s(g_%d)" % (op, m)]
        if k == "doc":
            m = self.marker("def", op, [a], True, True, "def_docstring")
            return ["%s%d%sdef g_%d(%s):" % (TAG_A, m, TAG_B, m, a), '    "lambda e: e ("', "    return %s" % (ret % m),
                    "r = ds.%s(g_%d)" % (op, m)]
        if k == "two_stmts":
            m = self.marker("def", op, [a], True, False, "def_two_stmts")
            return ["%s%d%sdef g_%d(%s):" % (TAG_A, m, TAG_B, m, a), "    q = %s" % (ret % m), "    return q",
                    "r = ds.%s(g_%d)" % (op, m)]
        if k == "no_return":
            m = self.marker("def", op, [a], True, False, "def_no_return")
            return ["%s%d%sdef g_%d(%s): %s" % (TAG_A, m, TAG_B, m, a, ret % m), "r = ds.%s(g_%d)" % (op, m)]
        if k == "decorated":
            m = self.marker("def", op, [a], True, True, "def_decorated")
            return ["@ident", "%s%d%sdef g_%d(%s): return %s" % (TAG_A, m, TAG_B, m, a, ret % m), "r = ds.%s(g_%d)" % (op, m)]
        if k == "decorated_lambda":
            b = a if r.random() < .6 else self.argname()
            m2 = self.marker("lambda", op, [b], False, False, "decorator_lambda")
            m = self.marker("def", op, [a], True, False, "def_under_lambda_decorator")
            return ["@deco(%s)" % self.lam(m2, [b], op, False),
                    "%s%d%sdef g_%d(%s): return %s" % (TAG_A, m, TAG_B, m, a, ret % m), "r = ds.%s(g_%d)" % (op, m)]
        if k == "static":
            m = self.marker("def", op, [a], True, True, "def_static")
            return ["class K_%d:" % m, "    @staticmethod",
                    "    %s%d%sdef g(%s): return %s" % (TAG_A, m, TAG_B, a, ret % m), "r = ds.%s(K_%d.g)" % (op, m)]
        if k == "contains":
            p = r.choice(["d", a, "d", "self_"])
            nargs = r.choice([1, 1, 0, 2])
            params = {0: "", 1: p, 2: p + ", k=1"}[nargs]
            recv = p if nargs else "ds"
            m0 = self.marker("def", None, [], False, False, "def_containing")
            m = self.marker("lambda", op, [a], True, False, "lambda_in_one_line_def")
            return ["%s%d%sdef h_%d(%s): return %s.%s(%s)" % (TAG_A, m0, TAG_B, m, params, recv, op, self.lam(m, [a], op, False)),
                    "r = h_%d(%s)" % (m, "ds" if nargs else "")]
        if k == "default_lambda":
            m2 = self.marker("lambda", op, [a], False, False, "default_lambda")
            m = self.marker("def", op, [a], True, False, "def_with_lambda_default")
            return ["%s%d%sdef g_%d(%s, k=%s): return %s" % (TAG_A, m, TAG_B, m, a, self.lam(m2, [a], op, False), ret % m),
                    "r = ds.%s(g_%d)" % (op, m)]
        raise AssertionError(k)

    # -- contexts
    def block(self, stmts: List[str]) -> List[str]:
        """wrap statements in an enclosing construct; returns lines at indent 0 relative"""
        r = self.r
        c = r.choice(["module", "module", "def", "def", "method", "if", "for", "try", "with", "nested_def", "class_body"])
        ind = lambda ls, n=1: [("    " * n) + l if l else l for l in ls]
        if c == "module":
            return stmts
        if c == "def":
            n = len(self.lines) + r.randrange(1000)
            self.trailer.append("fn_%d()" % n)
            return ["def fn_%d():" % n] + ind(stmts) + ["    return None"]
        if c == "method":
            n = len(self.lines) + r.randrange(1000)
            self.trailer.append("C_%d().m()" % n)
            return ["class C_%d:" % n, "    def m(self):"] + ind(stmts, 2)
        if c == "nested_def":
            n = len(self.lines) + r.randrange(1000)
            self.trailer.append("fo_%d()" % n)
            return ["def fo_%d():" % n, "    def inner():"] + ind(stmts, 2) + ["    inner()"]
        if c == "class_body":
            n = len(self.lines) + r.randrange(1000)
            return ["class B_%d:" % n] + ind(stmts)
        if c == "if":
            return ["if ds is not None:"] + ind(stmts) + ["else:", "    pass"]
        if c == "for":
            return ["for _i in range(1):"] + ind(stmts)
        if c == "try":
            return ["try:"] + ind(stmts) + ["finally:", "    pass"]
        return ["with ctx():"] + ind(stmts)

    def statement_lines(self, text: str) -> List[str]:
        """a statement with IND placeholders -> lines at indent 0 (placeholders resolved later per line)"""
        return text.split("\n")

    def build(self, n_stmts: int) -> str:
        r = self.r
        body: List[str] = []
        if r.random() < .15:
            body += ["# header comment lambda e: e", ""]
        for _ in range(n_stmts):
            x = r.random()
            if x < .62:
                stmts = self.statement_lines(self.chain())
            elif x < .8:
                stmts = []
                for s in self.special():
                    stmts += self.statement_lines(s)
            else:
                stmts = self.defs()
            lines = self.block(stmts)
            if r.random() < .3:
                lines = lines + [""]
            body += lines
        body += self.trailer
        # resolve indent placeholders: IND0 = indent of the line that started the statement
        out = []
        base = ""
        for ln in body:
            stripped = ln.lstrip(" ")
            lead = ln[: len(ln) - len(stripped)]
            if stripped.startswith(IND1) or stripped.startswith(IND0):
                # continuation line of a statement: the placeholder comes first
                tagc = stripped[0]
                rest = stripped[1:]
                out.append(base + ("    " if tagc == IND1 else "") + rest.replace(IND1, base + "    ").replace(IND0, base))
            else:
                base = lead
                out.append(ln.replace(IND1, base + "    ").replace(IND0, base))
        return "\n".join(out) + "\n"


def strip_tags(text: str, cases: Dict[int, Case]) -> str:
    """remove the marker tags, recording (row, col) of the keyword that follows each"""
    out_lines = []
    for row, ln in enumerate(text.split("\n"), start=1):
        res = ""
        i = 0
        while i < len(ln):
            if ln[i] == TAG_A:
                j = ln.index(TAG_B, i)
                m = int(ln[i + 1:j])
                cases[m].pos = (row, len(res))
                i = j + 1
            else:
                res += ln[i]
                i += 1
        out_lines.append(res)
    return "\n".join(out_lines)


PRELUDE = '''\
import functools
def ident(f): return f
def deco(f): return ident
def twice(f):
    @functools.wraps(f)
    def doubled(*a, **k): return f(*a, **k) * 2
    return doubled
def compare(*xs, **kw): return xs[0]
lam = lambd = lambda_ = de = ef = define = defs = compare
class ctx:
    def __enter__(self): return self
    def __exit__(self, *a): return False
'''


def generate(rng, real: bool, n_stmts: int) -> Tuple[str, Dict[int, Case]]:
    g = LayoutGen(rng, real)
    text = g.build(n_stmts)
    pre = PRELUDE if rng.random() < .9 else PRELUDE.replace("def ident(f): return f", "ident = lambda f: f")
    full = pre + text
    src = strip_tags(full, g.cases)
    label_row_groups(g.cases)
    return src, g.cases


def label_row_groups(cases: Dict[int, Case]):
    """backslash continuations and chains that continue on the last row of a multi-line argument: reading
    starts at the callable's own row, so a call is told apart from the other calls *on its row*; documented
    when its (method, parameter names) is unique there and no call of the chain has several parameters
    (those never parse and take the whole logical line with them)"""
    groups: Dict[int, List[Case]] = {}
    for c in cases.values():
        if c.row_group is not None:
            groups.setdefault(c.row_group, []).append(c)
    for cs in groups.values():
        if any(len(c.args) != 1 for c in cs):
            continue
        for c in cs:
            same = [d for d in cs if d.pos and c.pos and d.pos[0] == c.pos[0] and (d.op, d.args) == (c.op, c.args)]
            c.supported = len(same) == 1


# ---------------------------------------------------------------------------------- runtime objects

class S:
    """sample object the real callable and the recovered lambda are applied to"""

    def __init__(self, seed=1):
        self.seed = seed
        self.v = seed * 3
        for n in ATTR_NAMES:
            setattr(self, n, self.v)
        self.w = seed % 2
        self.b = seed * 5 + 1           # `e.b` of the keyword-lambda witnesses (differs from every other attribute)
        self.lst = [seed, seed + 1]

    @property
    def jets(self):
        return S(self.seed + 1)

    def Select(self, f):
        return ("sel", f(S(self.seed + 2)))

    def Where(self, f):
        return ("whr", f(S(self.seed + 3)))

    def pt(self, *a):
        return [self.v + len(a)]


def passed_callable(a, k):
    """the callable handed to an operator: its first positional argument, else its first keyword argument that
    is a function (`.Select(f=lambda ...)`, `.Where(filter=lambda ...)`, `.SelectMany(func=lambda ...)`)"""
    if a:
        return a[0]
    for v in k.values():
        if callable(v) and hasattr(v, "__code__"):
            return v
    return None


class Fake:
    """records what is passed to Select/Where/SelectMany (by position or by any keyword); never parses"""

    def __init__(self, log):
        self.log = log

    def _rec(self, op, f):
        self.log.append((op, f))
        return self

    def Select(self, *a, **k):
        return self._rec("Select", passed_callable(a, k))

    def Where(self, *a, **k):
        return self._rec("Where", passed_callable(a, k))

    def SelectMany(self, *a, **k):
        return self._rec("SelectMany", passed_callable(a, k))

    def Concat(self, other):
        return self

    def __getattr__(self, name):
        if name in HOP_NAMES:
            return self
        raise AttributeError(name)


class Eager(Fake):
    """also executes the callable (as LINQ-to-objects would), so lambdas inside its body get passed"""

    def Select(self, *a, **k):
        f = passed_callable(a, k)
        self._rec("Select", f)
        try:
            f(S(1))
        except Exception:  # noqa
            pass
        return self


class RealProbe:
    """the real ObjectStream on an untyped dataset; each operator call is recorded with its outcome"""

    def __init__(self, stream, log):
        self.stream, self.log = stream, log

    def _op(self, op, a, k):
        f = passed_callable(a, k)
        try:
            new = getattr(self.stream, op)(*a, **k)      # positional or by the real parameter name
            self.log.append((op, f, "ok", new.query_ast.args[1]))
            return RealProbe(new, self.log)
        except Exception as e:  # noqa
            self.log.append((op, f, "exc", type(e).__name__))
            return self

    def Select(self, *a, **k):
        return self._op("Select", a, k)

    def Where(self, *a, **k):
        return self._op("Where", a, k)

    def SelectMany(self, *a, **k):
        return self._op("SelectMany", a, k)

    def __getattr__(self, name):
        if name in HOP_NAMES:
            return self
        raise AttributeError(name)


def real_dataset():
    from func_adl import EventDataset

    class DS(EventDataset):
        async def execute_result_async(self, a, title=None):
            return a

    return DS()


def load_module(path: str, name: str, ds) -> Optional[str]:
    """execute a generated file with the global `ds` preset; returns the exception class name if it raises"""
    linecache.checkcache(path)
    spec = importlib.util.spec_from_file_location(name, path)
    mod = importlib.util.module_from_spec(spec)
    mod.ds = ds
    for n in DS_NAMES:
        setattr(mod, n, ds)
    mod.eager = Eager(ds.log)
    sys.modules[name] = mod
    try:
        spec.loader.exec_module(mod)
        return None
    except Exception as e:  # noqa
        return type(e).__name__
    finally:
        sys.modules.pop(name, None)


# ---------------------------------------------------------------------------------- markers

def code_markers(f) -> List[int]:
    """marker constants of the callable's own code object (not of nested lambdas)"""
    out = []

    def walk(c):
        if isinstance(c, int) and not isinstance(c, bool) and c >= MARK0:
            out.append(c)
        elif isinstance(c, (tuple, frozenset)):
            for x in c:
                walk(x)

    code = getattr(f, "__code__", None)
    if code is None:
        return out
    for c in code.co_consts:
        walk(c)
    return out


def ast_markers(node: ast.AST) -> List[int]:
    """marker constants of a recovered lambda, not descending into nested lambdas"""
    out = []

    def walk(n, top):
        if isinstance(n, ast.Lambda) and not top:
            return
        if isinstance(n, ast.Constant) and isinstance(n.value, int) and not isinstance(n.value, bool) and n.value >= MARK0:
            out.append(n.value)
        for c in ast.iter_child_nodes(n):
            walk(c, False)

    walk(node, True)
    return out


def primary(ms: List[int], cases: Dict[int, Case]) -> Optional[int]:
    """the marker that names the lambda"""
    for m in ms:
        if m in cases:
            return m
    return None


# ---------------------------------------------------------------------------------- CPython inputs of the model

KIND = {tokenize.NAME: "n", tokenize.OP: "o", tokenize.NEWLINE: "l", tokenize.NL: "j", tokenize.COMMENT: "c"}


class Stream:
    """tokens `tokenize.generate_tokens` yields when reading starts at (0-based) line `first`, with the
    reading rule of util_ast._line_string_reader; a tokenizer exception is the last entry"""

    def __init__(self, lines: List[str], first: int):
        self.first = first
        self.infos: List[Optional[tokenize.TokenInfo]] = []
        self.rows: List[Tuple[int, str, str]] = []
        cur = [first]

        def readline():
            if cur[0] >= len(lines):
                return ""
            cur[0] += 1
            return lines[cur[0] - 1]

        try:
            for t in tokenize.generate_tokens(readline):
                self.infos.append(t)
                self.rows.append((first + t.start[0], KIND.get(t.type, "x"), t.string))
        except Exception as e:  # noqa
            self.infos.append(None)
            # the exception is raised while reading the text after the last token: next row
            self.rows.append((self.rows[-1][0] + 1 if self.rows else first + 1, "e", type(e).__name__))
        self.enc = ";".join("%d,%s,%s" % (r, k, hx(s)) for r, k, s in self.rows)

    def index_of(self, row: int, col: int) -> Optional[int]:
        for i, t in enumerate(self.infos):
            if t is not None and self.first + t.start[0] == row and t.start[1] == col:
                if t.type not in (tokenize.INDENT, tokenize.DEDENT):
                    return i
        return None

    def pos_of(self, k: int) -> Optional[Tuple[int, int]]:
        if 0 <= k < len(self.infos) and self.infos[k] is not None:
            t = self.infos[k]
            return (self.first + t.start[0], t.start[1])
        return None

    def parse_extent(self, a: int, b: int) -> str:
        """CPython's untokenize + ast.parse + first Lambda of the extent [a, b) (comments dropped):
        the function P of the model"""
        toks = [self.infos[a]] + [t for t in self.infos[a + 1:b] if t is not None and t.type != tokenize.COMMENT]
        try:
            src = "(" + tokenize.untokenize(toks).lstrip() + ")"
            mod = ast.parse(src)
            lda = next((n for n in ast.walk(mod) if isinstance(n, ast.Lambda)), None)
            if lda is None:
                return "N"
            return "A" + ",".join(hx(x.arg) for x in lda.args.args)
        except Exception as e:  # noqa
            return "X" + hx(type(e).__name__)


_stream_cache: Dict[Tuple[str, int], Stream] = {}
_ends_cache: Dict[str, Dict[Tuple[int, int], Tuple[int, int]]] = {}


def ast_lambda_ends(path: str, lines: List[str]) -> Dict[Tuple[int, int], Tuple[int, int]]:
    """CPython's own parser on the whole file: where every lambda expression starts and ends"""
    if path not in _ends_cache:
        out = {}
        try:
            for n in ast.walk(ast.parse("".join(lines))):
                if isinstance(n, ast.Lambda):
                    out[(n.lineno, n.col_offset)] = (n.end_lineno, n.end_col_offset)
        except Exception:  # noqa
            pass
        _ends_cache[path] = out
    return _ends_cache[path]


def ast_chain(st: "Stream", ends: Dict[Tuple[int, int], Tuple[int, int]]) -> Optional[List[Tuple[int, int]]]:
    """the call segments of the logical line a stream starts with, cut where CPython's parser says each
    lambda expression ends (independent of the model's scan): list of (index of `lambda`, index of the
    `,`/`)` that follows the lambda expression); None if the line does not have that shape"""
    out: List[Tuple[int, int]] = []
    i, n = 0, len(st.infos)
    while i < n:
        t = st.infos[i]
        if t is None:
            return None if not out else out
        if t.type == tokenize.NEWLINE and out:
            break
        if t.type == tokenize.NAME and t.string == "lambda":
            pos = (st.first + t.start[0], t.start[1])
            if pos not in ends:
                return None
            er, ec = ends[pos]
            b = i + 1
            while b < n and st.infos[b] is not None and (st.first + st.infos[b].start[0], st.infos[b].start[1]) < (er, ec):
                b += 1
            while b < n and st.infos[b] is not None and st.infos[b].type in (tokenize.COMMENT, tokenize.NL):
                b += 1
            if b >= n or st.infos[b] is None or st.infos[b].type != tokenize.OP or st.infos[b].string not in (",", ")"):
                return None
            out.append((i, b))
            if any(x is not None and x.type != tokenize.COMMENT and (x.type == tokenize.NEWLINE or x.string == "\n")
                   for x in st.infos[i + 1:b]):
                break
            i = b + 1
            continue
        i += 1
    return out


def stream_for(path: str, lines: List[str], first: int) -> Stream:
    key = (path, first)
    if key not in _stream_cache:
        _stream_cache[key] = Stream(lines, first)
    return _stream_cache[key]


def realign_indent(s: str) -> str:
    """what util_ast._realign_indent does since F40 / F51: the first line's indentation is taken off every line - blanks only,
    and not off the continuation lines of a multi-line string"""
    import io
    import tokenize
    lines = s.split("\n")
    spaces = len(lines[0]) - len(lines[0].lstrip())
    in_string = set()
    try:
        for t in tokenize.generate_tokens(io.StringIO(s).readline):
            if t.end[0] > t.start[0] and t.type not in (tokenize.NEWLINE, tokenize.NL):
                in_string.update(range(t.start[0], t.end[0]))
    except (tokenize.TokenError, IndentationError):
        pass
    out = [ln if i in in_string else ln[min(spaces, len(ln) - len(ln.lstrip(" \t"))):] for i, ln in enumerate(lines)]
    while out and out[-1].strip() == "":
        out.pop()
    return "\n".join(out)


def def_source(f) -> str:
    """inspect.getsource + ast.parse of a function: the statement kinds of its body (input `dsrc`)"""
    if hasattr(f, "__wrapped__"):
        # F53: decided on the live object, before any source is read: a decorated function is refused
        return "X" + hx("ValueError")
    try:
        mod = ast.parse(realign_indent(inspect.getsource(f)))
        fd = mod.body[0]
        if not isinstance(fd, (ast.FunctionDef, ast.AsyncFunctionDef)):
            return "X" + hx("NotAFunctionDef")
        out = ""
        for b in fd.body:
            if isinstance(b, ast.Expr) and isinstance(b.value, ast.Constant):
                out += "d"
            elif isinstance(b, ast.Return):
                out += "r"
            else:
                out += "o"
        return out or "-"
    except Exception as e:  # noqa
        return "X" + hx(type(e).__name__)


class Probe:
    """everything the model needs about one passed callable"""

    def __init__(self, path: str, op: str, f):
        self.path, self.op, self.f = path, op, f
        self.ok = True
        try:
            self.lines, self.l0 = inspect.findsource(f)
            self.args = list(inspect.getfullargspec(f).args)
        except Exception as e:  # noqa
            self.ok = False
            self.why = type(e).__name__
            return
        self.is_lam = getattr(f, "__name__", None) == "<lambda>"
        self.dsrc = "-" if self.is_lam else def_source(f)
        self.nstreams = 0
        self.streams: List[Stream] = []
        self.more(4)

    def more(self, n: int):
        for _ in range(n):
            first = self.l0 - len(self.streams)
            if first < -len(self.lines):
                break
            self.streams.append(stream_for(self.path, self.lines, first))

    def enc_streams(self) -> str:
        return "|".join(s.enc for s in self.streams)


def impl_parse(f, op: str):
    """the implementation: (status, lambda-ast | exception class)"""
    from func_adl.util_ast import parse_as_ast

    try:
        return ("ok", parse_as_ast(f, op))
    except Exception as e:  # noqa
        return ("exc", type(e).__name__)


def impl_source_only(f, op: str):
    """the selection step alone (no captured-variable rewriting), when the function is still there"""
    try:
        from func_adl.util_ast import _parse_source_for_lambda
    except Exception:  # noqa
        return None
    try:
        r = _parse_source_for_lambda(f, op)
        return ("ok", r) if r is not None else ("exc", "ValueError")
    except Exception as e:  # noqa
        return ("exc", type(e).__name__)


def behaves_like(f, lam: ast.AST) -> Tuple[bool, str]:
    """apply the real callable and the recovered lambda to the same sample objects"""
    try:
        # captured objects are recorded by value (a Constant holding the object): bind them by a private name
        lam = copy.deepcopy(lam)
        ns = dict(getattr(f, "__globals__", {}))
        for i, n in enumerate([n for n in ast.walk(lam) if isinstance(n, ast.Constant)]):
            if n.value is not None and n.value is not Ellipsis and not isinstance(n.value, (str, bytes, int, float, complex, bool)):
                ns["__captured_%d" % i] = n.value
                n.__class__ = ast.Name
                n.__dict__.clear()
                n.__dict__.update(ast.Name(id="__captured_%d" % i, ctx=ast.Load()).__dict__)
        g = eval(compile(ast.fix_missing_locations(ast.Expression(body=lam)), "<recovered>", "eval"), ns)
    except Exception as e:  # noqa
        return False, "recorded lambda cannot be evaluated: %s" % type(e).__name__
    nargs = f.__code__.co_argcount
    for seed in (1, 2, 5):
        args = [S(seed + i) for i in range(nargs)]

        def run(h):
            try:
                return ("v", repr(h(*[S(seed + i) for i in range(nargs)])))
            except Exception as e:  # noqa
                return ("x", type(e).__name__)
        a, b = run(f), run(g)
        if a != b:
            return False, "on sample %d: callable gives %s, recorded lambda gives %s" % (seed, a, b)
    return True, ""

"""C02 - chained-call simplification preserves query results."""
from __future__ import annotations

import ast
import copy

import bridge
import core
import gen
import simp_common as sc
from gen import A, C, N, call, fcall, lam, mcall

ID = "C02"
TAG, EXTRACT, DRIVER = sc.TAG, sc.EXTRACT, sc.DRIVER
COQ_FILES = ["FA/Proofs/SimplifyFacts.v", "FA/Proofs/EvalAgree.v", "FA/Proofs/SimplifySem.v", "FA/Proofs/RenameSem.v", "FA/Proofs/EvalRel.v",
             "FA/Proofs/SimplifyTotal.v", "FA/Proofs/SimplifyInv.v", "FA/Proofs/BindArgs.v", "FA/Proofs/SimplifyRules.v",
             "FA/Proofs/SimplifySound.v", "FA/Proofs/SimplifySession.v", "FA/Properties/C02.v"]

LEVEL = ("Coq theorems about the executable model `simp` of simplify_chained_calls (Model/Simplify.v): whole-algorithm semantic preservation "
         "(simplifier_preserves_query_results: every fuel, stack, counter, backend, dataset; queries not mentioning First), every rewrite rule "
         "semantically sound for all lambdas, all backends and all datasets (fusion rules, First push-through in the direction that holds, literal "
         "projection), alpha-renaming; the model is tied to the code by the correspondence, First queries by the CPython oracle "
         "(see level_claimed in MANIFEST.json).")
TRUSTED = ["Coq 8.16.1 kernel (coqc); no axioms (Print Assumptions: closed under the global context)",
           "harness/tables/simp.py (dispatch surface of simplify_chained_calls read from source)",
           "extraction: ExtrOcamlBasic + ExtrOcamlNativeString; ocaml/driver_simp.ml + ocaml/sx.ml",
           "harness/bridge.py ast<->expr encoding (ctx fields dropped); harness/props/simp_common.py generator and CPython-based reference evaluation"]
ASSUME = ["reference semantics = Base/Eval.v (first-order values; lambdas only as operator arguments or immediately called); the Python oracle uses "
          "CPython itself with lazy LINQ sequences",
          "model and implementation are compared modulo the names of lambda parameters (the implementation edits shared nodes in place, "
          "which changes how often it draws fresh names); binding structure must be identical",
          "termination of the simplifier is not proved (fuel); OutOfFuel is excluded in every statement"]
RULE = ("corpus of defect witnesses; all trees of a small grammar up to size N (well-formed and malformed operator calls, called lambdas "
        "with positional/keyword arguments, literal projections); seeded random well-scoped type-correct queries in three binder-naming "
        "schemes (hygienic / any re-use incl. shadowing of live names / all identical), each evaluated on 6 datasets incl. empty "
        "collections. Non-trivial = the implementation's output differs from its input; distinct by ast.dump")

CORPUS = [
    # F29: starred arguments of called lambdas are left as calls
    "(lambda a, b: a - b)(*(5, 2))", "Select(ds, lambda e: (lambda a, b: a - b)(e.a, *(e.b,)))", "(lambda a: Select(ds, lambda e: e.a + a))(*(3,))",
    # a definition used twice, one use re-visited by a fusion rule: the implementation's in-place edit shows in the other use
    # too (correspondence kind "resimplified"; minimised from a thorough-tier disagreement)
    "(lambda e: Select(Where(e, lambda t: t > 0), lambda t: len(e)))(Select(Select(ds, lambda e: First(ds)), lambda t: Count(Select(t.trk, lambda j: j.met))))",
    "(lambda t: (lambda e, v52: Select(Where(e, lambda t: t > 0), lambda t: len(e)))(Select(Select(Select(ds, lambda y: (y, t < 2)), lambda e: First(ds)), lambda t: Count(Select(t.trk, lambda j: j.met))), t))(t=First(Select(ds, lambda y: y)).m(First(Select(ds, lambda e: e.pt)), k=First(ds).pt))",
    # F04 keywords / arity
    "(lambda x, y: x - y)(y=1, x=2)", "(lambda x, y: x - y)(1)", "(lambda x, y: x - y)(1, 2, 3)", "(lambda x: x)(1, x=2)",
    "(lambda x, y: x - y)(1, z=2)", "(lambda x, y=3: x - y)(1)", "(lambda *a: a)(1)", "(lambda x, y: x - y)(1, **k)",
    # F05 shadowing, capture, double substitution, SelectMany rules
    "(lambda x: Select(seq, lambda x: x + 1))(5)",
    "Select(ds, lambda x: Select(Select(x.jets, lambda j: (j, x.met)), lambda p: Select(p[0].trk, lambda x: x.pt + p[1])))",
    "(lambda y: Select(Select(s, lambda t: y), lambda u: u))(y + 1)",
    "Select(ds, lambda p: (lambda q: Select(seq, lambda p: Select(Select(p.trk, lambda t: t.x + q.y), lambda u: u + 1)))(p.jets))",
    "SelectMany(SelectMany(ds, lambda ds: ds.b), lambda y: y.c + ds.k)",
    "Select(ds, lambda e: SelectMany(SelectMany(e.jets, lambda e: e.trk), lambda t: Select(e.trk, lambda q: q.pt + t.pt)))",
    "Where(SelectMany(ds, lambda e: e.jets), lambda j: j.pt > e)",
    "Select(SelectMany(ds, lambda e: e.jets), lambda j: j.pt + e)",
    "(lambda e: Where(SelectMany(s, lambda y: e), lambda y: 1))(lambda e: e)",
    # zero-parameter lambdas inside lambdas that get renamed
    "Select(Select(ds, lambda e: e.met), lambda m: (lambda: 100)() + m)",
    "Select(ds, lambda e: Select(Select(e.jets, lambda j: (j, e)), lambda e: (lambda: 1000)() + e[0].pt + e[1].met))",
    # F18
    "{'a': 1, 'a': 2}.a", "{'a': 1, 'a': 2}['a']", "{1: 'x', True: 'y'}[1]",
    # a spread mapping hides every entry written before it
    "Select(ds, lambda e: {'a': e.a, **e.d}['a'])", "Select(ds, lambda e: {**e.d, 'a': e.a}['a'])", "Select(ds, lambda e: {'a': e.b, **e.d}.a)",
    "Select(Select(ds, lambda e: {'a': e.b, **e.d}), lambda t: t['a'] + t.a)", "Where(Select(ds, lambda e: {'a': e.b, **e.d}), lambda t: t.a > 0)",
    "Select(Select(ds, lambda e: ({'a': e.b, **e.d}, e.met)), lambda t: t[0]['a'] + t[1])",
    # a computed key hides every entry written before it (it may be the same key at run time)
    "{'a': 1, k: 2}['a']", "{k: 2, 'a': 1}['a']", "{'a': 1, k: 2}.a", "Select(ds, lambda e: {'a': e.a, ('a' if e.b > 0 else 'z'): e.b}['a'])",
    "Select(Select(ds, lambda e: {'a': e.a, ('a' if e.b > 0 else 'z'): e.met}), lambda d: d.a + d['a'])",
    "Select(Select(ds, lambda e: {('a' if e.b > 0 else 'z'): e.met, 'a': e.a}), lambda d: d.a)",
    # F20 SelectMany of SelectMany
    "(lambda z: SelectMany(SelectMany(ds, lambda x: x.jets), lambda y: Select(y.trk, lambda t: t.a + z)))(5)",
    "SelectMany(SelectMany(ds, lambda x: x.jets), lambda y: Select(Select(y.trk, lambda t: (t.a, t.b)), lambda u: u[0]))",
    # all rules at least once
    "Select(Select(ds, lambda e: e.a), lambda v: v + 1)", "Select(SelectMany(ds, lambda e: e.jets), lambda j: j.pt)",
    "SelectMany(Select(ds, lambda e: e.jets), lambda js: js)", "SelectMany(SelectMany(ds, lambda e: e.jets), lambda j: j.trk)",
    "Where(Where(ds, lambda e: e.a > 0), lambda e: e.b > 0)", "Where(Select(ds, lambda e: e.a), lambda v: v > 1)",
    "Where(SelectMany(ds, lambda e: e.jets), lambda j: j.pt > 1)", "Where(ds, lambda e: True)", "Select(ds, lambda e: e)",
    "First(ds).m(1, k=2)", "First(ds)[0]", "First(ds).a", "First(Select(ds, lambda e: (e.a, e.b)))[1]",
    "Select(ds, lambda e: e.jets.Select(lambda j: j.pt))",
    "Select(Where(Select(Where(Select(ds, lambda e: (e.a, e.b)), lambda t: t[0] > 1), lambda t: {'k': t[1]}), lambda d: d.k < 5), lambda d: d.k)",
]


def small_grammar(size: int):
    def leaves():
        return [N("ds"), N("x"), C(0), C("a")]

    un = [lambda a: A(a, "a"), lambda a: fcall("First", a), lambda a: mcall(a, "First"), lambda a: gen.sub(a, C(0)),
          lambda a: gen.sub(a, C("a")), lambda a: gen.tup(a), lambda a: lam("x", a), lambda a: call(lam("x", a), []), lambda a: call(lam([], a), []),
          lambda a: fcall("Select", a), lambda a: mcall(a, "m"), lambda a: gen.dct([(C("a"), a)]),
          lambda a: call(lam(["x", "y"], a), [N("ds")])]
    bi = [lambda a, b: fcall("Select", a, lam("x", b)), lambda a, b: fcall("Where", a, lam("x", b)),
          lambda a, b: fcall("SelectMany", a, lam("x", b)), lambda a, b: fcall("Select", a, lam("y", b)),
          lambda a, b: fcall("Select", a, b), lambda a, b: mcall(a, "Select", lam("x", b)),
          lambda a, b: gen.sub(a, b), lambda a, b: gen.tup(a, b), lambda a, b: gen.dct([(C("a"), a), (C("b"), b)]),
          lambda a, b: call(lam("x", a), [b]), lambda a, b: call(lam("x", a), [], [("x", b)]),
          lambda a, b: call(lam("y", a), [b]), lambda a, b: gen.binop(ast.Add, a, b), lambda a, b: mcall(fcall("First", a), "m", b)]
    te = [lambda a, b, c: call(lam(["x", "y"], a), [b, c]), lambda a, b, c: call(lam(["x", "y"], a), [b], [("y", c)]),
          lambda a, b, c: fcall("Select", a, lam("x", b), c)]
    return gen.enum_trees(leaves, {1: un, 2: bi, 3: te}, size)


def hygiene_family():
    """Pending definitions at every depth of the argument stack that mention a free name X, and an un-called lambda further in
    that binds X and uses the defined parameter: the definition must not be captured by the inner binder, whichever frame of
    the stack holds it (argument_stack.mentions looks at all frames)."""
    out = []
    for wrap in (False, True):
        for depth in (1, 2, 3):
            for istar in range(1, depth + 1):
                for argsrc in ("Count(X)", "First(X).a", "X"):
                    for op in ("Select", "Where", "SelectMany"):
                        X = "ds"
                        src = "e.jets" if wrap else "ds"
                        fld = "pt" if wrap else "a"
                        p = "n%d" % istar
                        if op == "Select":
                            body = "Select(%s, lambda %s: (%s.%s, %s))" % (src, X, X, fld, p)
                        elif op == "Where":
                            body = "Where(%s, lambda %s: %s.%s > %s)" % (src, X, X, fld, p)
                        else:
                            inner = "trk" if wrap else "jets"
                            body = "SelectMany(%s, lambda %s: Select(%s.%s, lambda j: j.pt + %s))" % (src, X, X, inner, p)
                        q = body
                        for i in range(depth, 0, -1):
                            arg = argsrc.replace("X", X) if i == istar else str(i)
                            q = "(lambda n%d: %s)(%s)" % (i, q, arg)
                        if wrap:
                            q = "Select(ds, lambda e: %s)" % q
                        out.append(q)
    return out


def multi_param_family():
    """Un-called lambdas with several parameters of which exactly some re-use a live outer name that a pending definition
    or a fused stage mentions: the rename test of visit_Lambda must fire when ANY parameter collides, not only when all do."""
    out = []
    for X in ("e", "t"):
        for params, acc, x in (("acc, %s" % X, "acc", X), ("%s, acc" % X, X, "acc"), ("acc, %s, z=0" % X, "acc", X)):
            if "z=0" in params:
                continue        # lambdas with defaults are outside the modelled grammar
            use = "%s + %s.pt" % (acc, x) if x == X else "%s.pt + %s" % (x, acc) if False else "%s + %s.pt" % (x, acc)
            # X names the fold's element in one layout and the accumulator in the other
            elem = x if x == X else acc
            accn = acc if x == X else x
            body = "%s + %s.pt" % (accn, elem)
            O = "e" if X == "e" else "t"
            out.append("Select(ds, lambda %s: (lambda n1: n1.jets.fold(0, lambda %s: %s + n1.met))(%s))" % (O, params, body, O))
            out.append("Select(Select(ds, lambda e: (e, e.met)), lambda %s: %s[0].jets.fold(0, lambda %s: %s + %s[1]))" % (O, O, params, body, O))
            out.append("Select(Select(ds, lambda e: {'j': e.jets, 'm': e.met}), lambda %s: %s.j.fold(0, lambda %s: %s + %s.m))" % (O, O, params, body, O))
            out.append("Where(Select(ds, lambda e: (e, e.met)), lambda %s: %s[0].jets.fold(0, lambda %s: %s + %s[1]) > 0)" % (O, O, params, body, O))
            out.append("SelectMany(Select(ds, lambda e: (e.jets, e)), lambda %s: Select(%s[0], lambda j: %s[1].trk.fold(j.pt, lambda %s: %s + %s[1].met)))"
                       % (O, O, O, params, body, O))
            out.append("Select(ds, lambda %s: (lambda n1, n2: n2.fold(n1, lambda %s: %s + n1))(%s.met, %s.jets))" % (O, params, body, O, O))
    return out


def check_case(ctx, q: ast.expr, model_ln: str, datasets, label: str, semantic: bool = True):
    """correspondence + oracle for one query; returns True if the implementation changed the tree"""
    impl_ln = sc.impl_line(q)
    ctx.evaluations += 1
    ctx.corr_cases += 1
    kind = sc.same_result(impl_ln, model_ln)
    ctx.count("correspondence", kind)
    ctx.count("impl_result", impl_ln.split()[0])
    st, out, _ = sc.impl(q)
    oracle_failed = False
    if st == "ok" and semantic:
        # scoping: no name may become free that was not free before
        extra = (sc.free_names(out) - sc.free_names(q) - {"Select", "Where", "SelectMany", "First"}) if not sc.has_raw(out) else set()
        if extra:
            oracle_failed = True
            ctx.fail("failing-input", "simplify(%s) introduces/leaves unbound name(s) %s: %s" % (
                bridge.dump(q), sorted(extra), bridge.dump(out)),
                {"oracle": "scoping", "query": ast.unparse(q), "query_dump": ast.dump(q)}, key=key(q))
        else:
            for i, ds in enumerate(datasets):
                a = sc.pyeval(q, ds)
                if a[0] != "ok":
                    ctx.count("oracle_eval", "original-raises")
                    continue
                b = sc.pyeval(out, ds)
                ctx.count("oracle_eval", "compared")
                if a != b:
                    oracle_failed = True
                    ctx.fail("failing-input", "simplify(%s) = %s evaluates to %r, the original to %r on dataset #%d" % (
                        bridge.dump(q), bridge.dump(out), b, a, i),
                        {"oracle": "semantic", "query": ast.unparse(q), "query_dump": ast.dump(q), "dataset": i}, key=key(q))
                    break
    if kind == "differ" and not oracle_failed:
        ctx.corr_disagreements += 1
        ctx.fail("no-failing-input-found",
                 "correspondence simp (Model/Simplify.v) vs simplify_chained_calls broke on %s: model %s, code %s" % (
                     bridge.dump(q), model_ln[:300], impl_ln[:300]),
                 {"correspondence": "simp", "query": ast.unparse(q) if not sc.has_raw(q) else ast.dump(q), "query_dump": ast.dump(q),
                  "model": model_ln[:2000], "impl": impl_ln[:2000]})
    changed = st == "ok" and ast.dump(out) != ast.dump(q)
    if changed:
        ctx.distinct.add(ast.dump(q))
    return changed


def key(q):
    return core.digest({"p": "simp", "q": ast.dump(q)})


# ---------------------------------------------------------------- histories: a simplified query extended and simplified again
# The names arg_N are fresh because the counter never goes back within a process (hypothesis `below c q` of the theorem: no
# arg_N with N >= c occurs in q).  A backend that simplifies a query, puts a further operator on the result and simplifies
# again - with a new simplify_chained_calls object, in the same process - relies on exactly that.  The model is run with the
# counter the first run left behind.

HISTORY_WRAPPERS = ["Select(Q, lambda w_: (w_, 1))", "Where(Q, lambda w_: 2 > 1)", "Select(Q, lambda e: (e, 2))",
                    "Select(Select(Q, lambda w_: (w_, 1)), lambda v_: v_[0])"]


def impl_history(q1: ast.expr, wrapper: str):
    """-> (status, q2, r2, c1): q2 = wrapper[Q := simplify(q1)], r2 = simplify(q2), the counter NOT reset in between"""
    import func_adl.ast.function_simplifier as fs

    fs.argument_var_counter = 0
    try:
        r1 = fs.simplify_chained_calls().visit(copy.deepcopy(q1))
    except Exception:  # noqa
        return "first-raises", None, None, None
    c1 = fs.argument_var_counter

    class Put(ast.NodeTransformer):
        def visit_Name(self, n):
            return copy.deepcopy(r1) if n.id == "Q" else n

    q2 = Put().visit(sc.parse(wrapper))
    try:
        r2 = fs.simplify_chained_calls().visit(copy.deepcopy(q2))
    except fs.FuncADLIndexError:
        return "indexerr", q2, None, c1
    except RecursionError:
        return "recursion", q2, None, c1
    except Exception as ex:  # noqa
        return "crash:" + type(ex).__name__, q2, None, c1
    return "ok", q2, r2, c1


def check_histories(ctx, qs, datasets, only=None):
    import func_adl.ast.function_simplifier as fs

    todo = []
    for q in qs:
        for w in HISTORY_WRAPPERS:
            if only is not None and w != only:
                continue
            st, q2, r2, c1 = impl_history(q, w)
            if st == "first-raises" or sc.has_raw(q2):
                continue
            todo.append((q, w, st, q2, r2, c1, fs.argument_var_counter))
    rows = [[str(max(sc.FUEL_MIN, sc.FUEL_PER_NODE * sc.node_count(q2))), str(c1), bridge.to_sx(q2)] for (_, _, _, q2, _, c1, _) in todo]
    answers = ctx.driver.call("simp", rows)
    for (q, w, st, q2, r2, c1, c2), m in zip(todo, answers):
        ctx.evaluations += 1
        ctx.corr_cases += 1
        ctx.count("history", "fresh names in the first result" if any(
            isinstance(n, ast.arg) and sc._ARG.match(n.arg) for n in ast.walk(q2)) else "no fresh name in the first result")
        wit = {"oracle": "history", "query": ast.unparse(q), "query_dump": ast.dump(q), "wrapper": w}
        k = core.digest({"p": "simp-history", "q": ast.dump(q), "w": w})
        failed = False
        if st == "ok":
            extra = sc.free_names(r2) - sc.free_names(q2) - {"Select", "Where", "SelectMany", "First"}
            if extra:
                failed = True
                ctx.fail("failing-input", "simplify(%s), then %s on the result simplified again in the same process: unbound name(s) %s in %s"
                         % (bridge.dump(q), w, sorted(extra), bridge.dump(r2)), wit, key=k)
            else:
                for i, ds in enumerate(datasets):
                    a = sc.pyeval(q2, ds)
                    if a[0] != "ok":
                        ctx.count("history_eval", "extended query raises")
                        continue
                    b = sc.pyeval(r2, ds)
                    ctx.count("history_eval", "compared")
                    if a != b:
                        failed = True
                        ctx.fail("failing-input", "simplify(%s) = Q, then simplify(%s) in the same process = %s evaluates to %r, the "
                                 "query it was given to %r on dataset #%d" % (bridge.dump(q), w, bridge.dump(r2), b, a, i),
                                 dict(wit, dataset=i), key=k)
                        break
        impl_ln = ("OK %d %s" % (c2, bridge.to_sx(r2))) if st == "ok" else {"indexerr": "INDEXERR", "recursion": "RECURSION"}.get(st, "CRASH")
        model_ln = "CRASH" if m.startswith("CRASH") else m
        kind = sc.same_result(impl_ln, model_ln)
        ctx.count("history_correspondence", kind)
        if kind == "differ" and not failed and model_ln != "OUTOFFUEL":
            ctx.corr_disagreements += 1
            ctx.fail("no-failing-input-found", "correspondence simp (counter %d, Model/Simplify.v) vs a second simplify_chained_calls in the "
                     "same process broke on %s: model %s, code %s" % (c1, bridge.dump(q2), model_ln[:300], impl_ln[:300]),
                     dict(wit, correspondence="simp-history", model=model_ln[:2000], impl=impl_ln[:2000]), key=k + "c")


def run(ctx):
    datasets = sc.make_datasets(__import__("random").Random(20260927))
    # 1. corpus
    qs = [sc.parse(s) for s in CORPUS]
    labels = ["corpus"] * len(qs)
    hf = [sc.parse(x) for x in hygiene_family() + multi_param_family()]
    qs += hf
    labels += ["hygiene"] * len(hf)
    # 2. enumeration (correspondence incl. malformed shapes; these are mostly not evaluable)
    size = ctx.budget(4, 5)
    by = small_grammar(size)
    allt = [t for s in sorted(by) for t in by[s]]
    cap = ctx.budget(2500, 60000)
    if len(allt) > cap:
        ctx.notes.append("enumeration to size %d has %d trees; seeded sample of %d" % (size, len(allt), cap))
        allt = ctx.rng.sample(allt, cap)
    else:
        ctx.notes.append("enumeration to size %d exhaustive: %d trees" % (size, len(allt)))
    n_enum = len(allt)
    qs += allt
    labels += ["enum"] * n_enum
    # 3. random typed queries, three naming schemes
    for naming, n in (("hygienic", ctx.budget(500, 8000)), ("any", ctx.budget(900, 16000)), ("same", ctx.budget(400, 8000))):
        g = sc.QueryGen(ctx.rng, naming=naming, kw_calls=True)
        for _ in range(n):
            qs.append(g.query(ctx.rng.randrange(2, 6)))
            labels.append("random-" + naming)
    ml = sc.model_lines(ctx, qs)
    for q, m, lab in zip(qs, ml, labels):
        ctx.count("source", lab)
        ctx.count("size", str(min(200, 10 * (sc.node_count(q) // 10))))
        check_case(ctx, q, m, datasets, lab)
        if m == "OUTOFFUEL":
            ctx.count("model", "OUTOFFUEL")
    # 4. histories: simplified, extended, simplified again without resetting the counter
    base = len(CORPUS) + len(hf) + n_enum
    hq = qs[:len(CORPUS) + len(hf)] + qs[base: base + ctx.budget(250, 4000)]
    hq = [q for q in hq if not sc.has_raw(q)]
    check_histories(ctx, hq, datasets)
    ctx.notes.append("histories: %d queries x %d wrappers simplified, extended, simplified again in the same process" % (len(hq), len(HISTORY_WRAPPERS)))
    for q in qs[8:11] + qs[len(CORPUS) + len(hf) + n_enum: len(CORPUS) + len(hf) + n_enum + 3]:
        st, out, _ = sc.impl(q)
        ctx.sample({"query": bridge.dump(q), "simplified": bridge.dump(out) if st == "ok" else st})


def replay(ctx, w):
    q = eval(w["query_dump"], dict(vars(ast)))
    datasets = sc.make_datasets(__import__("random").Random(20260927))
    if w.get("oracle") == "history" or w.get("correspondence") == "simp-history":
        check_histories(ctx, [q], datasets, only=w["wrapper"])
        return
    m = sc.model_lines(ctx, [q])[0]
    check_case(ctx, q, m, datasets, "replay")

"""C19 - aggregate shortcuts lower to equivalent folds."""
from __future__ import annotations

import ast
import copy
import functools

import bridge
import gen
from gen import A, C, N, call, fcall, lam, mcall

ID = "C19"
COQ_FILES = ["FA/Proofs/AggregateProofs.v", "FA/Proofs/AggregateSem.v", "FA/Properties/C19.v"]
NAMES = ["len", "Count", "Sum", "Max", "Min"]
NEAR = ["n", "e", "l", "C", "t", "le", "en", "Co", "nt", "ount", "lenC", "lenCount", "Len", "LEN", "count", "Counts", "length", "sum", "SUM", "Sums",
        "Su", "um", "S", "M", "Ma", "ax", "in", "Mi", "MaxMin", "SumMax", "max", "min", "Minimum", "_len", "len_", "Count_"]

LEVEL = ("Coq theorems over the executable model `agg` whose rule table is regenerated from the source on every run: "
         "agg_sem (fold = len/sum for every sequence, every backend), agg_max/min (fold = max/min with 0 added), "
         "agg_exact (relational spec: only 1-argument keyword-free name calls are rewritten, congruence elsewhere incl. "
         "all other node classes), agg_complete, agg_total; model tied to the code by exact differential comparison.")
TRUSTED = ["Coq 8.16.1 kernel (coqc); no axioms (Print Assumptions: closed under the global context)",
           "harness/sync_tables.py (reads agg_rules/agg_seed from aggregate_shortcuts.py source)",
           "extraction: ExtrOcamlBasic + ExtrOcamlNativeString; ocaml/driver.ml S-expression codec",
           "harness/bridge.py ast<->expr encoding; harness/props/c19.py generators and oracles"]
ASSUME = ["Python semantics of the emitted fold is the reference semantics Base/Eval.v (Aggregate = left fold)",
          "sequences hold integers (as the property states)"]
RULE = ("all expressions of the C19 grammar up to size N (five shortcut names in call/method/bare/nested positions, 0-3 "
        "positional arguments, keywords, same-named methods) plus seeded random expressions; a case is non-trivial when "
        "it contains one of the five names; distinct by ast.dump")


def impl(e: ast.AST):
    from func_adl.ast.aggregate_shortcuts import aggregate_node_transformer

    try:
        return ("ok", aggregate_node_transformer().visit(copy.deepcopy(e)))
    except Exception as ex:  # noqa
        return ("exc", type(ex).__name__)


def spec(e):
    """Independent statement of the property: which tree must come out."""
    if isinstance(e, ast.Call) and isinstance(e.func, ast.Name) and e.func.id in NAMES \
            and len(e.args) == 1 and not e.keywords:
        lam_s = {"len": "lambda acc,v: acc+1", "Count": "lambda acc,v: acc+1", "Sum": "lambda acc,v: acc + v",
                 "Max": "lambda acc,v: acc if acc > v else v", "Min": "lambda acc,v: acc if acc < v else v"}[e.func.id]
        return fcall("Aggregate", spec(e.args[0]), C(0), ast.parse(lam_s).body[0].value)
    if isinstance(e, ast.AST):
        n = copy.copy(e)
        for f, v in ast.iter_fields(e):
            if isinstance(v, list):
                setattr(n, f, [spec(x) for x in v])
            elif isinstance(v, ast.AST):
                setattr(n, f, spec(v))
        return n
    return e


def _leaves():
    return [N("s"), N("Sum"), N("len"), C(1)]


def _builders():
    un = []
    for nm in NAMES:
        un.append(lambda a, nm=nm: fcall(nm, a))
        un.append(lambda a, nm=nm: mcall(a, nm))
        un.append(lambda a, nm=nm: call(N(nm), [a], [("key", C(1))]))
    un.append(lambda a: fcall("f", a))
    un.append(lambda a: A(a, "Sum"))
    un.append(lambda a: lam("v", a))
    un.append(lambda a: call(N("Sum"), [], [("seq", a)]))
    bi = []
    for nm in ("Sum", "Max", "len", "Count"):
        bi.append(lambda a, b, nm=nm: fcall(nm, a, b))
        bi.append(lambda a, b, nm=nm: mcall(a, nm, b))
    bi.append(lambda a, b: gen.binop(ast.Add, a, b))
    bi.append(lambda a, b: fcall("Select", a, lam("x", b)))
    bi.append(lambda a, b: gen.tup(a, b))
    te = [lambda a, b, c: fcall("Min", a, b, c), lambda a, b, c: ast.IfExp(test=a, body=b, orelse=c)]
    return {1: un, 2: bi, 3: te}


def cases(ctx):
    out = []
    # corpus first: the witnesses of finding F02
    for src in ["Sum(a, b)", "Max(a, b)", "Sum(s, key=1)", "Sum()", "Min()", "len()", "len(a, b)", "Count(s, 1)",
                "Sum(Sum(s))", "Select(s, lambda x: len(x.jets))", "s.Sum()", "Sum", "len(s).Sum(1)",
                "Max(s, default=0)", "f(len=1)", "Sum(*a)", "Sum(**k)", "[len(j) for j in Sum(s)]"]:
        out.append(ast.parse(src, mode="eval").body)
    out.append(call(N("Sum"), []))
    # near misses of the five names: pieces, concatenations and case variants are ordinary functions
    for nm in NEAR:
        out.append(fcall(nm, N("s")))
        out.append(fcall("Sum", fcall("Select", N("s"), lam("j", fcall(nm, N("j"))))))
    size = ctx.budget(4, 5)
    by = gen.enum_trees(_leaves, _builders(), size)
    allt = [t for s in sorted(by) for t in by[s]]
    cap = ctx.budget(6000, 120000)
    if len(allt) > cap:
        ctx.notes.append("enumeration to size %d has %d trees; seeded sample of %d" % (size, len(allt), cap))
        allt = ctx.rng.sample(allt, cap)
    else:
        ctx.notes.append("enumeration to size %d exhaustive: %d trees" % (size, len(allt)))
    out += allt
    rg = gen.RandomExpr(ctx.rng, names=["s", "Sum", "len"], attrs=["jets", "Sum", "Count"],
                        funcs=NAMES + ["f", "n", "e", "le", "Co", "lenCount", "sum", "Len"], methods=NAMES + ["m"])
    for _ in range(ctx.budget(1500, 30000)):
        out.append(rg.expr(ctx.rng.randrange(2, 6)))
    return out


def _has_name(e):
    for n in ast.walk(e):
        if isinstance(n, ast.Name) and n.id in NAMES:
            return True
        if isinstance(n, ast.Attribute) and n.attr in NAMES:
            return True
    return False


def fold_env():
    def Aggregate(seq, init, f):
        return functools.reduce(f, seq, init)
    return {"Aggregate": Aggregate}


def semantic_oracle(ctx):
    """len/Count/Sum fold == Python's len/sum; Max/Min fold == max/min with 0 added; on the implementation."""
    r = ctx.rng
    seqs = [[], [0], [5], [-3], [1, 2, 3], [-1, -2], [3, 3], [10 ** 20, -10 ** 20, 7]]
    for _ in range(ctx.budget(20, 400)):
        seqs.append([r.randrange(-50, 50) for _ in range(r.randrange(0, 8))])
    expect = {"len": len, "Count": len, "Sum": sum, "Max": lambda l: max(l + [0]), "Min": lambda l: min(l + [0])}
    for nm in NAMES:
        for form in ("plain", "nested", "in_lambda"):
            if form == "plain":
                e = fcall(nm, N("s"))
            elif form == "nested":
                e = fcall(nm, gen.lst(fcall(nm, N("s")), C(2)))
            else:
                e = call(lam("q", fcall(nm, N("q"))), [N("s")])
            st, out = impl(e)
            for s in seqs:
                ctx.evaluations += 1
                want = expect[nm](s) if form != "nested" else expect[nm]([expect[nm](s), 2])
                try:
                    if st != "ok":
                        raise RuntimeError(out)
                    got = eval(compile(ast.fix_missing_locations(ast.Expression(body=copy.deepcopy(out))), "<agg>", "eval"),
                               dict(fold_env(), s=list(s)))
                except Exception as ex:  # noqa
                    got = "raised " + type(ex).__name__
                if got != want:
                    ctx.fail("failing-input", "%s over %r: emitted fold gives %r, Python gives %r" % (ast.unparse(e), s, got, want),
                             {"oracle": "semantic", "expr": ast.unparse(e), "seq": s, "got": repr(got), "want": repr(want)})
                    return


def run(ctx):
    cs = cases(ctx)
    sx = [bridge.to_sx(e) for e in cs]
    answers = ctx.driver.call("agg", [[s] for s in sx])
    # extraction cross-check: a sample of the driver's answers re-evaluated inside Coq
    import core
    pairs = []
    for e, a in list(zip(cs, answers))[::max(1, len(cs) // 40)]:
        if sum(1 for _ in ast.walk(e)) <= 25 and len(pairs) < 12:
            rhs = "Some %s" % bridge.sx_to_coq(bridge.parse_sx(a[3:])) if a.startswith("OK ") else "None"
            pairs.append(("agg %s" % bridge.to_coq(e), rhs))
    core.coq_crosscheck(ctx, ID, "From FA.Base Require Import PyAst Value Traverse.\nFrom FA.Model Require Import Aggregate.", pairs)
    for e, s, ans in zip(cs, sx, answers):
        ctx.evaluations += 1
        d = ast.dump(e)
        if _has_name(e):
            ctx.distinct.add(d)
        st, out = impl(e)
        got = "OK " + bridge.to_sx(out) if st == "ok" else "NONE"
        ctx.count("impl_result", st if st == "ok" else out)
        ctx.corr_cases += 1
        # direct oracle on the implementation
        want = spec(e)
        ok_oracle = st == "ok" and ast.dump(out) == ast.dump(want)
        if not ok_oracle:
            ctx.fail("failing-input",
                     "aggregate_node_transformer(%s) -> %s ; the property requires %s" % (
                         bridge.dump(e), bridge.dump(out) if st == "ok" else "raises " + out, bridge.dump(want)),
                     {"oracle": "structural", "expr_dump": d, "expr": bridge.dump(e)}, key=bridge_key(e))
        if ans != got:
            ctx.corr_disagreements += 1
            if ok_oracle:
                ctx.fail("no-failing-input-found",
                         "correspondence agg (Model/Aggregate.v) vs aggregate_node_transformer broke on %s: model %s, code %s"
                         % (bridge.dump(e), ans[:200], got[:200]),
                         {"correspondence": "agg", "expr_dump": d, "model": ans, "impl": got})
    semantic_oracle(ctx)
    for e in cs[:3] + cs[20:23]:
        ctx.sample({"input": bridge.dump(e), "output": bridge.dump(impl(e)[1])})


def bridge_key(e):
    import core

    return core.digest({"p": ID, "e": ast.dump(e)})


def replay(ctx, w):
    if w.get("oracle") == "semantic":
        semantic_oracle(ctx)
        return
    e = eval(w["expr_dump"], dict(vars(ast)))
    st, out = impl(e)
    want = spec(e)
    if not (st == "ok" and ast.dump(out) == ast.dump(want)):
        ctx.fail("failing-input", "still fails: %s" % bridge.dump(e), w, key=bridge_key(e))

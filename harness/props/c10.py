"""C10 - untyped queries pass through unchanged; refusals are explicit."""
from __future__ import annotations

import ast
import atexit
import copy
import importlib.util
import os
import re
import shutil
import warnings

import bridge
import core
import gen
import types_common as tc
from gen import A, C, N, call, lam

ID = "C10"
TAG = "types"
EXTRACT = "FA/Extract/ExtractTypes.v"
DRIVER = "driver_types.ml"
COQ_FILES = ["FA/Proofs/TypeFollowFacts.v", "FA/Proofs/TypeFollowUntyped.v", "FA/Properties/C10.v"]

LEVEL = ("Coq theorems over the executable model `follow` of remap_by_types.type_transformer (as fixed by F11, F12, F21): "
         "untyped_passthrough (for every class table and callback table, every expression of the stated grammar followed with "
         "the lambda parameter typed Any is returned structurally unchanged with no events, or refused with a designed reason; "
         "never an internal error), untyped_stream_ops (the same through Select/SelectMany/Where incl. check_ast and the Where "
         "gate), where_bool_shapes (comparison / and-or bodies are typed bool, so the Where gate cannot refuse them); model tied "
         "to the code by exact differential comparison and by table flags read from the source (unary_uses_lookup, "
         "param_call_guarded).")
TRUSTED = ["Coq 8.16.1 kernel (coqc); no axioms (Print Assumptions: closed under the global context)",
           "harness/tables/types_tbl.py (reads the shape of visit_UnaryOp / visit_Call / _fill_in_default_arguments and the "
           "default functions from type_based_replacement.py source; python keyword list from CPython)",
           "extraction: ExtrOcamlBasic + ExtrOcamlNativeString; ocaml/driver_types.ml codecs",
           "harness/bridge.py ast<->expr encoding; harness/props/types_common.py, c10.py generators and oracles",
           "CPython's ast.literal_eval, str.isidentifier, keyword.iskeyword, dataclasses.make_dataclass are represented "
           "(hand-written literal_eval/is_identifier in the model, ASCII only), not modelled"]
ASSUME = ["resolve_syntatic_sugar is the identity on the grammar (no comprehensions, no dataclass constructors)",
          "dictionary keys that are identifiers are ASCII (str.isidentifier is modelled on ASCII only)",
          "lambdas are supplied to the model as source strings or ast objects; capture-free Python callables (written in a generated "
          "module whose globals are named like the lambda parameters, so every parameter hides one) are run on the implementation "
          "only and judged by the same pass-through oracle - the capture pass in front of the follower is C04's model; a directly "
          "called lambda `(lambda y: ..)(a)` is outside the callable form (the callable path resolves it, util_ast.parse_as_ast)",
          "attribute / method names are not attributes of Python's builtin constant classes (str, int, float, ...), which "
          "the follower treats as typed classes; the function name MetaData is not used inside lambdas",
          "a call whose callee is a subscript of an attribute is in the grammar only when the attribute's object is untyped "
          "(residual of F21: `{'a': e.x}.a[0](1)` and `(1).x[0](2)` still raise AttributeError, pinned for user classes by "
          "test_index_callback_bad_prop)"]
RULE = ("[two passes: fresh process state, and again after typed queries over the same parameter-name pool ran through every operator in the same process, with bodies whose free names are those parameter names] " +
        "corpus of probe expressions; all expressions of the C10 grammar up to size N over a pool with ast-meaningful names "
        "(seeded sample in the quick tier); seeded random expressions to depth 5; each through Select, SelectMany and Where, "
        "as source string and as ast object; a corpus of shadowing patterns plus a seeded sample of the generated lambdas also as "
        "Python callables (nested lambdas re-using the outer parameter name with the outer parameter used afterwards, module "
        "globals of that name); non-trivial = not a bare name/constant; distinct by ast.dump")

POOL = ["value", "elts", "keys", "args", "func", "attr", "id", "slice", "body", "_fields", "x", "pt", "kw", "zip", "ZIP",
        "Select", "Where", "First", "Count", "SelectMany", "a", "b"]
PARAMS = ["e", "value", "args", "id", "j"]
FUNCS = ["abs", "len", "f", "Select", "func", "id"]
KEYS = ["a", "b", "a b", "class", "1a", "value", "", "é b", "_x", "None", "lambda"]
CONSTS = [0, 1, 2, -1, True, False, 1.5, "a", "b", "", b"y", 2j, None, Ellipsis]
BUILTIN_ATTRS = set()
for _t in (str, int, float, bool, bytes, complex, type(None), type(Ellipsis)):
    BUILTIN_ATTRS |= set(dir(_t))
assert not (set(POOL) & BUILTIN_ATTRS), set(POOL) & BUILTIN_ATTRS

CORPUS = [
    "lambda e: -e.x", "lambda e: not e.x", "lambda e: -e.f()", "lambda e: -e", "lambda e: -(e.x+1)", "lambda e: -e[0]",
    "lambda e: ~e.x", "lambda e: -(1 if e.a else 2)", "lambda e: -(lambda y: y)", "lambda e: -(e.x, e.y)", "lambda e: -[1]",
    "lambda e: -{'a':1}.a", "lambda e: -{'a':1}", "lambda e: e.x if e.a else e.y", "lambda e: 1 if e.a else 'a'",
    "lambda e: 1 if e.a else 2.0", "lambda e: e.x if e.a else 1", "lambda e: (1,2) if e.a else (3,4)",
    "lambda e: (e.a, e.b)[1]", "lambda e: (e.a, e.b)[e.i]", "lambda e: (e.a, e.b)[2]", "lambda e: (e.a, e.b)[-1]",
    "lambda e: (e.a, e.b)[0:1]", "lambda e: (e.a,e.b)['x']", "lambda e: (e.a,e.b)[True]", "lambda e: (e.a,e.b)[1.0]",
    "lambda e: {'a': e.x}.a", "lambda e: {'a': e.x}.b", "lambda e: {'a': e.x}['a']", "lambda e: {'a': e.x}['b']",
    "lambda e: {'a b': e.x}['a b']", "lambda e: {'class': 1}", "lambda e: {'1a': e.x}", "lambda e: {'a': 1, 'a': 2}",
    "lambda e: {'a': e.x}.zip", "lambda e: {'a':1}[e.k]", "lambda e: {'a': e.x}[['a']]", "lambda e: {'a': e.x}[1]",
    "lambda e: e.value", "lambda e: e.value.attr", "lambda e: e.keys", "lambda e: e.elts[0]", "lambda e: e._fields",
    "lambda e: e.args", "lambda value: value.value", "lambda e: e[0]", "lambda e: e[0:2]", "lambda e: e[e.i]", "lambda e: e['a']",
    "lambda e: e.f(1, k=2)", "lambda e: f(e)", "lambda e: e.f(*e.a)", "lambda e: e.f(**e.k)", "lambda e: [1, e.a]",
    "lambda e: [e.a][0]", "lambda e: abs(e.x)", "lambda e: abs()", "lambda e: len(e.x)", "lambda e: len()", "lambda e: abs",
    "lambda e: abs(e.x, 2)", "lambda e: 1 < e.x < 3", "lambda e: e.a and e.b", "lambda e: e.a + 1.5", "lambda e: e.a / 2",
    "lambda e: 1/2", "lambda e: 1+True", "lambda e: 'a'+'b'", "lambda e: 'a'*2", "lambda e: lambda y: y", "lambda e: (lambda y: y)(e)",
    "lambda e: e.Select(lambda y: y.a)", "lambda e: e.Where(lambda y: y.a)", "lambda e: e.First()", "lambda e: e.Count()",
    "lambda e: None", "lambda e: ...", "lambda e: 1j", "lambda e: b'a'", "lambda e: e.x is None", "lambda e: e.a if e.b else None",
    "lambda e: e.x[0](1)", "lambda e: e.x[0]()", "lambda e: e[0](1)", "lambda e: e.f(1)(2)", "lambda e: {'a': {'b': e.x}}.a.b",
    "lambda e: {'a': {'b': e.x}}.a.c", "lambda e: {'a': e.x}.zip()", "lambda e: {'a': e.x}.ZIP", "lambda e: {'a': 1}.a.b",
    "lambda e: e.x > 1", "lambda e: not (e.x > 1)", "lambda e: e.x in [1,2]", "lambda e: (e.x > 1) or e.b", "lambda e: True",
    "lambda e: (e.x>1) if e.a else (e.y>1)", "lambda e: abs(e.x) > 1 and len(e.y) == 2", "lambda e: {'a': 1}.a > 0",
    "lambda e: e.Select(lambda e: -e.x)", "lambda e: e.Select(lambda y: (y.a, y.b)[5])",
]

DESIGNED = [r"Where filter must return a boolean", r"IfExp branches have different types", r"Invalid constant type",
            r"Slices must be indexable constants", r"out of range", r"Tuple index must be an integer",
            r"not found in dict expression", r"not found in dataclass/dictionary", r"Argument \w+ is required",
            r"malformed node or string"]


def designed(msg: str) -> bool:
    return any(re.search(p, msg) for p in DESIGNED)


def is_bool_shape(b: ast.expr) -> bool:
    """a comparison or a boolean combination (and / or / not)"""
    return isinstance(b, (ast.Compare, ast.BoolOp)) or (isinstance(b, ast.UnaryOp) and isinstance(b.op, ast.Not))


# ------------------------------------------------------------------ generators

def untyped_shape(e, bound=()):
    """receivers whose type the follower cannot know (see ASSUME: residual of F21)"""
    if isinstance(e, ast.Name):
        # registered functions are typed Callable; a parameter of an immediately called lambda has its argument's type
        return e.id not in ("abs", "len") and e.id not in bound
    if isinstance(e, (ast.Attribute, ast.Subscript)):
        return untyped_shape(e.value, bound)
    if isinstance(e, ast.Call):
        return not isinstance(e.func, ast.Name)
    return False


def in_grammar(e) -> bool:
    # parameters of immediately called lambdas (Properties/C10.v: inside such a body a parameter is not an untyped
    # receiver; taken for the whole expression here, which only narrows the set the oracle is applied to)
    bound = {a.arg for n in ast.walk(e) if isinstance(n, ast.Call) and isinstance(n.func, ast.Lambda)
             for a in n.func.args.args}
    for n in ast.walk(e):
        if isinstance(n, ast.Call):
            f = n.func
            if isinstance(f, ast.Subscript) and isinstance(f.value, ast.Attribute) and not untyped_shape(f.value.value, bound):
                return False
            if isinstance(f, ast.Name) and f.id in ("abs", "len") and not n.args and any(k.arg == "x" for k in n.keywords):
                return False
            if isinstance(f, ast.Name) and f.id == "MetaData":
                return False
        if isinstance(n, ast.Dict) and any(not (isinstance(k, ast.Constant) and isinstance(k.value, str)) for k in n.keys):
            return False
    return True


class Rand:
    def __init__(self, r):
        self.r = r

    def leaf(self, scope):
        r = self.r
        k = r.random()
        if k < 0.45:
            return N(r.choice(scope))
        if k < 0.6:
            return N(r.choice(POOL + FUNCS))
        return C(r.choice(CONSTS))

    def expr(self, d, scope):
        r = self.r
        if d <= 0 or r.random() < 0.12:
            return self.leaf(scope)
        k = r.randrange(17)
        d -= 1
        E = lambda: self.expr(d, scope)  # noqa
        if k in (0, 1):
            return A(E(), r.choice(POOL))
        if k == 2:
            return call(N(r.choice(FUNCS)), [E() for _ in range(r.randrange(0, 3))],
                        [(r.choice(POOL), E())] if r.random() < 0.25 else [])
        if k in (3, 4):
            return call(A(E(), r.choice(POOL)), [E() for _ in range(r.randrange(0, 3))],
                        [(r.choice(POOL), E())] if r.random() < 0.25 else [])
        if k == 5:
            return call(E(), [E() for _ in range(r.randrange(0, 2))])
        if k == 6:
            return gen.sub(E(), r.choice([C(0), C(1), C(2), C("a"), C("b"), C(True), C(1.0), E(), ast.Slice(lower=C(0), upper=C(1))]))
        if k == 7:
            return ast.UnaryOp(op=r.choice([ast.Not, ast.USub, ast.UAdd, ast.Invert])(), operand=E())
        if k == 8:
            return gen.binop(r.choice([ast.Add, ast.Sub, ast.Mult, ast.Div, ast.FloorDiv, ast.Mod, ast.Pow, ast.BitAnd]), E(), E())
        if k == 9:
            return ast.BoolOp(op=r.choice([ast.And, ast.Or])(), values=[E() for _ in range(r.randrange(2, 4))])
        if k == 10:
            n = r.randrange(1, 3)
            return ast.Compare(left=E(), ops=[r.choice([ast.Lt, ast.Gt, ast.Eq, ast.NotEq, ast.In, ast.Is])() for _ in range(n)],
                               comparators=[E() for _ in range(n)])
        if k == 11:
            return ast.IfExp(test=E(), body=E(), orelse=E())
        if k == 12:
            return gen.tup(*[E() for _ in range(r.randrange(0, 4))])
        if k == 13:
            return gen.lst(*[E() for _ in range(r.randrange(0, 3))])
        if k == 14:
            return gen.dct([(C(r.choice(KEYS)), E()) for _ in range(r.randrange(0, 3))])
        if k == 15:
            p = r.choice(PARAMS)
            return lam(p, self.expr(d, scope + [p]))
        # method call with a lambda argument (operators on untyped objects keep their arguments)
        p = r.choice(PARAMS)
        return call(A(E(), r.choice(["Select", "Where", "SelectMany", "f"])), [lam(p, self.expr(d, scope + [p]))])


def enum_cases(ctx):
    leaves = lambda: [N("e"), N("value"), C(1), C("a"), C(1.5), N("abs")]  # noqa
    un = [lambda a: A(a, "value"), lambda a: A(a, "a"), lambda a: A(a, "zip"),
          lambda a: call(A(a, "func"), []), lambda a: call(N("abs"), [a]), lambda a: call(N("f"), [], [("kw", a)]),
          lambda a: ast.UnaryOp(op=ast.USub(), operand=a), lambda a: ast.UnaryOp(op=ast.Not(), operand=a),
          lambda a: gen.sub(a, C(0)), lambda a: gen.sub(a, C("a")), lambda a: gen.tup(a), lambda a: gen.lst(a),
          lambda a: gen.dct([(C("a"), a)]), lambda a: gen.dct([(C("a b"), a)]), lambda a: lam("value", a), lambda a: call(a, [])]
    bi = [lambda a, b: gen.binop(ast.Add, a, b), lambda a, b: gen.binop(ast.Div, a, b), lambda a, b: gen.cmp(ast.Lt, a, b),
          lambda a, b: ast.BoolOp(op=ast.And(), values=[a, b]), lambda a, b: gen.sub(a, b), lambda a, b: gen.tup(a, b),
          lambda a, b: gen.dct([(C("a"), a), (C("b"), b)]), lambda a, b: gen.dct([(C("a"), a), (C("a"), b)]),
          lambda a, b: call(A(a, "pt"), [b]), lambda a, b: call(A(a, "Select"), [lam("e", b)]),
          lambda a, b: call(gen.sub(A(a, "x"), C(0)), [b])]
    te = [lambda a, b, c: ast.IfExp(test=a, body=b, orelse=c), lambda a, b, c: call(A(a, "f"), [b], [("k", c)])]
    size = ctx.budget(4, 5)
    by = gen.enum_trees(leaves, {1: un, 2: bi, 3: te}, size)
    allt = [t for s in sorted(by) for t in by[s] if in_grammar(t)]
    cap = ctx.budget(2500, 60000)
    if len(allt) > cap:
        ctx.notes.append("enumeration to size %d has %d trees; seeded sample of %d" % (size, len(allt), cap))
        allt = ctx.rng.sample(allt, cap)
    else:
        ctx.notes.append("enumeration to size %d exhaustive: %d trees" % (size, len(allt)))
    return allt


def cases(ctx):
    out = []
    for s in CORPUS:
        l = ast.parse(s).body[0].value
        for op in ("Select", "Where", "SelectMany"):
            out.append((op, l, "str"))
        out.append(("Select", l, "ast"))
    ops = ["Select", "Select", "Where", "SelectMany"]
    for i, b in enumerate(enum_cases(ctx)):
        out.append((ops[i % 4], lam("e", b), "ast" if i % 3 else "str"))
    rg = Rand(ctx.rng)
    for i in range(ctx.budget(2500, 60000)):
        p = ctx.rng.choice(PARAMS)
        b = rg.expr(ctx.rng.randrange(2, 6), [p])
        if not in_grammar(b):
            continue
        out.append((ctx.rng.choice(ops), lam(p, b), "ast" if i % 2 else "str"))
    return out


def normalise(case):
    """-> (op, lambda ast handed to the model and used as reference, what the implementation gets)"""
    op, l, form = case
    if form == "str":
        s = ast.unparse(l)
        ref = ast.parse(s).body[0].value
        return op, ref, s
    return op, l, None


def passthrough(op, ref, d, impl):
    """the property on one outcome of the implementation -> (holds, what is wrong)"""
    if impl[0] == "ok":
        if impl[6] != d:
            return False, "emitted lambda differs from the input: %s" % ast.unparse(bridge.from_sx(impl[1]))
        if impl[3] or impl[4]:
            return False, "events on an untyped stream"
    elif impl[0] == "refuse":
        if not designed(impl[1]):
            return False, "ValueError that is not a designed refusal: %s" % impl[1][:120]
        if op == "Where" and is_bool_shape(ref.body) and re.search(DESIGNED[0], impl[1]):
            return False, "Where refuses a comparison / boolean combination"
        if op != "Where" and re.search(DESIGNED[0], impl[1]):
            return False, "Where gate outside Where"
    else:
        return False, "internal error %s" % impl[1]
    return True, ""


# ------------------------------------------------------------------ the callable form (implementation + oracle only)

CALLABLE_GLOBALS = {p: 2.5 + i for i, p in enumerate(PARAMS)}      # module globals named like the lambda parameters
CALLABLE_CORPUS = [
    ("Select", "lambda e: e.x + 1"), ("Where", "lambda e: e.x > 10 and not e.b"),
    ("Select", "lambda e: (e.a.Select(lambda j: j.pt * e.x), e.b)"), ("SelectMany", "lambda e: e.a.Select(lambda j: (j.pt, e.x))"),
    # nested lambda re-uses the outer parameter name; outer parameter used before / after / both sides of it
    ("Select", "lambda e: (e.b, e.a.Select(lambda e: e.pt))"), ("Select", "lambda e: (e.a.Select(lambda e: e.pt), e.b)"),
    ("SelectMany", "lambda j: j.a.Where(lambda j: j.pt > 1).Select(lambda value: value.x / j.pt)"),
    ("Where", "lambda e: e.a.Where(lambda e: e.pt > 30).Count() > 1 and e.x > 20"),
    ("Where", "lambda value: value.Where(lambda value: value.a).Count() > value.b"),
    ("Select", "lambda args: args.f(lambda args: args.x, args.pt)"), ("Select", "lambda id: [id.a.Select(lambda id: id), id]"),
    ("Select", "lambda e: e.f(lambda j: j.Select(lambda e: e + j), e)"),
    ("Select", "lambda e: e.a.Select(lambda j: j.b.Select(lambda e: e.x).Count() + e.x)"),
    ("Select", "lambda e: {'a': e.a.Select(lambda e: e.pt), 'b': e}"), ("Select", "lambda e: e.x if e.a.Where(lambda e: e.b).Count() > 0 else e.pt"),
]
_CALL_DIR = os.path.join(core.WORK, "types-c10-%d" % os.getpid())
atexit.register(lambda: shutil.rmtree(_CALL_DIR, ignore_errors=True))


def free_names(n, bound=frozenset()):
    if isinstance(n, ast.Name):
        return set() if n.id in bound else {n.id}
    if isinstance(n, ast.Lambda):
        a = n.args
        bound = bound | {x.arg for x in a.posonlyargs + a.args + a.kwonlyargs}
        return free_names(n.body, bound)
    out = set()
    for c in ast.iter_child_nodes(n):
        out |= free_names(c, bound)
    return out


def callable_form_ok(l: ast.Lambda) -> bool:
    """capture-free in the generated module (no free name is one of its globals) and no directly called lambda"""
    if free_names(l) & set(CALLABLE_GLOBALS):
        return False
    return not any(isinstance(n, ast.Call) and isinstance(n.func, ast.Lambda) for n in ast.walk(l))


def shadows(l: ast.Lambda) -> bool:
    "an inner lambda re-uses the name of a parameter of an enclosing lambda"
    def rec(n, bound):
        if isinstance(n, ast.Lambda):
            ps = {x.arg for x in n.args.args}
            if ps & bound:
                return True
            bound = bound | ps
        return any(rec(c, bound) for c in ast.iter_child_nodes(n))
    return rec(l, frozenset())


def run_callables(ctx, m, todo, record=True):
    """todo: [(op, source of the lambda)].  Every lambda is written as the argument of its operator on its own line of a
    generated module, so that the library recovers its text from the file as it does for user code."""
    if not todo:
        return
    os.makedirs(_CALL_DIR, exist_ok=True)
    name = "c10_callables_%d" % ctx.rng.randrange(10 ** 9)
    lines = ["# generated by harness/props/c10.py"]
    lines += ["%s = %r" % kv for kv in CALLABLE_GLOBALS.items()]
    for i, (op, src) in enumerate(todo):
        lines += ["", "", "def case_%d(ds):" % i, "    return ds.%s(%s)" % (op, src)]
    path = os.path.join(_CALL_DIR, name + ".py")
    with open(path, "w") as f:
        f.write("\n".join(lines) + "\n")
    spec = importlib.util.spec_from_file_location(name, path)
    mod = importlib.util.module_from_spec(spec)
    with warnings.catch_warnings():
        warnings.simplefilter("ignore", SyntaxWarning)     # generated grammar: `1()`, `'a'['b']` ...
        spec.loader.exec_module(mod)
    OS = m.ObjectStream
    for i, (op, src) in enumerate(todo):
        ref = ast.parse(src).body[0].value
        d = ast.dump(ref)
        m.log.clear()
        ds = OS(ast.Name(id="ds", ctx=ast.Load()), m.ev("Any"))
        fn = getattr(mod, "case_%d" % i)
        impl = tc._finish_impl(m, lambda: fn(ds))
        ctx.evaluations += 1
        if not isinstance(ref.body, (ast.Name, ast.Constant)):
            ctx.distinct.add("callable:" + d)
        if record:
            ctx.count("form", "callable")
            ctx.count("callable_shape", "inner lambda re-uses an outer parameter name" if shadows(ref) else "no re-use")
            ctx.count("callable_result", impl[0] if impl[0] != "crash" else "crash:" + impl[1])
        ok, what = passthrough(op, ref, d, impl)
        if not ok:
            ctx.fail("failing-input", "%s(<python callable> %s) [module globals %s]: %s" % (op, src, ", ".join(sorted(CALLABLE_GLOBALS)), what),
                     {"op": op, "lambda_dump": d, "lambda": src, "form": "callable", "oracle": "passthrough"},
                     key=core.digest({"p": ID, "op": op, "e": d, "form": "callable"}))


def callable_cases(ctx, cs):
    todo = list(CALLABLE_CORPUS)
    pool = [(op, ast.unparse(ref)) for op, ref, _s in cs if isinstance(ref, ast.Lambda) and callable_form_ok(ref)]
    keep = [x for x in pool if shadows(ast.parse(x[1]).body[0].value)]
    cap = ctx.budget(700, 8000)
    rest = [x for x in pool if x not in set(keep)]
    keep = keep[:cap]
    todo += keep + ctx.rng.sample(rest, min(len(rest), max(0, cap - len(keep))))
    ctx.notes.append("callable form: %d lambdas (%d with an inner lambda re-using an outer parameter name) of %d eligible"
                     % (len(todo), sum(1 for _o, s_ in todo if shadows(ast.parse(s_).body[0].value)), len(pool) + len(CALLABLE_CORPUS)))
    return todo


def check_case(ctx, m, w, case, ans, record=True, history=None):
    op, ref, s = case
    item = m.ev("Any")
    if s is None:
        impl = tc.run_impl(m, op, item, ref)
    else:
        impl = tc.run_impl_str(m, op, item, s)
    mod = tc.parse_model_answer(ans)
    ctx.evaluations += 1
    ctx.corr_cases += 1
    d = ast.dump(ref)
    if not isinstance(ref.body, (ast.Name, ast.Constant)):
        ctx.distinct.add(d)
    ctx.count("impl_result", impl[0] if impl[0] != "crash" else "crash:" + impl[1])
    ctx.count("operator", op)
    ctx.count("form", "string" if s is not None else "ast")
    # --- oracle: the property, on the implementation's output
    ok, what = passthrough(op, ref, d, impl)
    wit = {"op": op, "lambda_dump": d, "lambda": ast.unparse(ref), "form": "str" if s is not None else "ast"}
    if history:
        wit["history"] = history
        ctx.count("history", history)
        what = what + " [after typed queries with the same parameter names ran in this process]" if not ok else what
    if not ok:
        ctx.fail("failing-input", "%s(%s): %s" % (op, ast.unparse(ref), what), dict(wit, oracle="passthrough"),
                 key=core.digest({"p": ID, "op": op, "e": d, "h": history or ""}))
    if not tc.same_outcome(impl, mod):
        ctx.corr_disagreements += 1
        if ok:
            ctx.fail("no-failing-input-found",
                     "correspondence follow/stream_op (Model/TypeFollow.v) vs ObjectStream.%s broke on %s: model %s, code %s"
                     % (op, ast.unparse(ref), tc.show(mod)[:200], tc.show(impl)[:200]),
                     dict(wit, correspondence="stream_op", model=ans[:300], impl=tc.show(impl)[:300]))
    return impl, mod



# ------------------------------------------------------------------ histories: typed queries first

POLLUTE_NAMES = [n for n in dict.fromkeys(PARAMS + POOL + FUNCS + ["evt", "ev", "jet"]) if n.isidentifier()]
POLLUTE = {"classes": [{"name": "Pol",
                        "methods": [{"name": n, "params": [("d", "7")], "ret": "float"} for n in POOL if n.isidentifier()]
                        + [{"name": "items", "params": [("k", "'all'")], "ret": "Iterable[Pol]"}]}],
           "functions": [], "callbacks": {}}


def typed_prelude(ctx):
    """Typed queries through every operator, with every name of the generator's pool as the lambda parameter, in this
    process: whatever they leave behind must not reach a later untyped query (the property quantifies over all
    programs, and a program can build typed and untyped queries one after the other)."""
    pm = tc.Model(POLLUTE)
    item = pm.ev("Pol")
    n = 0
    for name in POLLUTE_NAMES:
        for op, body in (("Select", "%s.pt()"), ("Where", "%s.pt() > 1"), ("SelectMany", "%s.items()"),
                         ("Select", "%s.items().Select(lambda q: q.x())")):
            src = "lambda %s: %s" % (name, body % name)
            for form in ("str", "ast"):
                r = tc.run_impl_str(pm, op, item, src) if form == "str" else tc.run_impl(pm, op, item, ast.parse(src).body[0].value)
                n += 1
                if r[0] != "ok":
                    raise core.MachineryError("typed prelude query failed: %s -> %s" % (src, tc.show(r)[:200]))
    ctx.notes.append("history family: %d typed queries over %d parameter names ran before the second untyped pass" % (n, len(POLLUTE_NAMES)))


def history_cases(ctx, fresh):
    """untyped lambdas whose free names are the typed queries' parameter names, plus a re-run of fresh cases"""
    out = []
    for name in POLLUTE_NAMES:
        for op, src in (("Select", "lambda e: %s.pt()"), ("Select", "lambda e: (e.pt, %s.value(), {'a b': %s.x()})"),
                        ("Where", "lambda e: e.pt > %s.pt()"), ("Where", "lambda e: e.a and not %s.x() < e.b"),
                        ("SelectMany", "lambda e: %s.items()"),
                        ("Select", "lambda e: e.jets.Select(lambda q: q.pt() + %s.pt())")):
            src = src.replace("%s", name)
            if name == "e":
                continue
            l = ast.parse(src).body[0].value
            out.append(normalise((op, l, "str")))
            out.append(normalise((op, l, "ast")))
    k = ctx.budget(1200, 20000)
    pool = [c for c in fresh if not isinstance(c[1].body, (ast.Name, ast.Constant))]
    out += pool if len(pool) <= k else ctx.rng.sample(pool, k)
    return out


# ------------------------------------------------------------------ dictionary literals with the same keys, one after the other
# What a dictionary literal's fields are typed as is decided by its own values, not by an earlier literal with the same keys in
# the same process: {'v': 2}['v'] if c else 3 is accepted and emitted unchanged, {'v': 's'}['v'] if c else 3 is the designed
# refusal - in either order.  Expected outcomes are known by construction.

RECORD_COMBOS = [("2", "3", True), ("'s'", "3", False), ("'s'", "'t'", True), ("2.5", "'t'", False), ("True", "'t'", False)]


def record_order_oracle(ctx, m, only=None):
    n = 0
    for i, x in enumerate(RECORD_COMBOS):
        for j, y in enumerate(RECORD_COMBOS):
            if x[2] == y[2]:
                continue
            for op in ("Select", "Where"):
                n += 1
                keys = ("ro%d_%d_%s_k" % (i, j, op[0]), "ro%d_%d_%s_v" % (i, j, op[0]))
                if only is not None and only != [i, j, op]:
                    continue
                for step, (val, other, accepted) in enumerate((x, y)):
                    body = "{'%s': 1, '%s': %s}['%s'] if e.c else %s" % (keys[0], keys[1], val, keys[1], other)
                    src = "lambda e: %s" % (body if op == "Select" else "(%s) == e.z" % body)
                    r = tc.run_impl_str(m, op, m.ev("Any"), src)
                    ctx.evaluations += 1
                    good = (r[0] == "ok") if accepted else (r[0] == "refuse")
                    ctx.count("record_order", "as its own values imply" if good else "NOT as its own values imply")
                    if not good:
                        ctx.fail("failing-input", "%s(%s) as query #%d of a process that lowers two dictionary literals with the same keys: %s; "
                                 "its own values imply %s" % (op, src, step + 1, tc.show(r)[:160],
                                                              "acceptance, emitted unchanged" if accepted else "the designed refusal (IfExp branches of different types)"),
                                 {"oracle": "record-order", "pair": [i, j, op]}, key=core.digest({"p": ID, "record-order": [i, j, op]}))
                        break
    ctx.notes.append("record-order oracle: %d ordered pairs of dictionary literals with equal keys and differently typed values" % n)


def run(ctx):
    m = tc.Model(tc.EMPTY)
    w = m.world_sx()
    record_order_oracle(ctx, m)
    cs = [normalise(c) for c in cases(ctx)]
    any_sx = m.ty_sx(m.ev("Any"))
    answers = ctx.driver.call("op", [tc.model_requests(w, op, any_sx, ref) for op, ref, s in cs])
    for c, ans in zip(cs, answers):
        impl, mod = check_case(ctx, m, w, c, ans)
        if len(ctx.samples) < 6 and impl[0] != "ok":
            ctx.sample({"op": c[0], "input": ast.unparse(c[1]), "impl": tc.show(impl)[:160], "model": tc.show(mod)[:160]})
    run_callables(ctx, m, callable_cases(ctx, cs))
    # second pass, after typed queries that used the same names ran in this process
    typed_prelude(ctx)
    m = tc.Model(tc.EMPTY)
    hs = history_cases(ctx, cs)
    hanswers = ctx.driver.call("op", [tc.model_requests(w, op, any_sx, ref) for op, ref, s in hs])
    for c, ans in zip(hs, hanswers):
        check_case(ctx, m, w, c, ans, history="after-typed-queries")
    # default functions of the model's table == the live registry
    got = ctx.driver.call("ftdefault", [[]])[0]
    from func_adl import type_based_replacement as tbr
    import inspect
    import typing
    want = " ".join(bridge.hx(n) + ":" + ",".join(bridge.hx(p) for p in inspect.signature(i.function).parameters) + ":" +
                    (m.ty_sx(typing.get_type_hints(i.function)["return"]) if "return" in typing.get_type_hints(i.function) else "-")
                    for n, i in tbr._global_functions.items())
    if got != want:
        ctx.fail("no-failing-input-found", "generated table ft_default differs from the live _global_functions: %s vs %s" % (got, want),
                 {"table": "ft_default", "model": got, "impl": want})
    # residual of F23 (open, listed in KNOWN_FINDINGS.txt by these exact witnesses): a subscripted attribute call on a
    # receiver typed by a literal still raises AttributeError (pinned for user classes by test_index_callback_bad_prop)
    for s in ["lambda e: {'a': e.x}.a[0](1)", "lambda e: (1).x[0](2)"]:
        impl = tc.run_impl(m, "Select", m.ev("Any"), ast.parse(s).body[0].value)
        ctx.notes.append("known residual (outside the stated grammar restriction): %s -> %s" % (s, tc.show(impl)[:80]))
        if impl[0] != "ok" and "ValueError" not in tc.show(impl):
            ctx.fail("failing-input", "Select(%s) on an untyped stream: %s (an internal error, not a designed ValueError)" % (s, tc.show(impl)[:120]),
                     {"oracle": "passthrough-residual", "lambda": s}, key=core.digest({"p": ID, "residual": s}))


def replay(ctx, wit):
    m = tc.Model(tc.EMPTY)
    w = m.world_sx()
    if wit.get("oracle") == "record-order":
        record_order_oracle(ctx, m, only=wit["pair"])
        return
    if wit.get("form") == "callable":
        run_callables(ctx, m, [(wit["op"], wit["lambda"])], record=False)
        return
    ref = eval(wit["lambda_dump"], dict(vars(ast)))
    s = ast.unparse(ref) if wit.get("form") == "str" else None
    c = (wit["op"], ref, s)
    ans = ctx.driver.call("op", [tc.model_requests(w, c[0], m.ty_sx(m.ev("Any")), ref)])[0]
    if wit.get("history"):
        typed_prelude(ctx)
        m = tc.Model(tc.EMPTY)
    check_case(ctx, m, w, c, ans, history=wit.get("history"))

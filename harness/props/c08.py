"""C08 - type following yields the declared types."""
from __future__ import annotations

import ast

import bridge
import core
import gen
import types_common as tc
from bridge import hx
from gen import A, C, N, call, lam

ID = "C08"
TAG = "types"
EXTRACT = "FA/Extract/ExtractTypes.v"
DRIVER = "driver_types.ml"
COQ_FILES = ["FA/Proofs/TypeFollowFacts.v", "FA/Proofs/TypeFollowTypes.v", "FA/Proofs/TypeFollowResolve.v",
             "FA/Proofs/TypeFollowTyping.v", "FA/Properties/C08.v"]

LEVEL = ("Coq theorems over the executable model: stream_item_types (Select -> result type, SelectMany -> element type, Where "
         "keeps the item type and accepts only bool), where_refuses_non_bool, binop_promotion, where_bool_shapes (C10); the "
         "whole-expression statement follow_types_agree is NOT proved - it is checked by exact differential comparison of the "
         "model (incl. the model of util_types.py over the class-table abstraction) with the code on generated class models, "
         "against expected types computed independently from the annotations.")
TRUSTED = ["Coq 8.16.1 kernel (coqc); no axioms (Print Assumptions: closed under the global context)",
           "extraction: ExtrOcamlBasic + ExtrOcamlNativeString; ocaml/driver_types.ml codecs",
           "harness/bridge.py; harness/props/types_common.py (class models -> Python classes; class table read back from the "
           "live classes with inspect / typing), c08.py generators and the independent expected-type computation",
           "CPython typing / inspect / get_type_hints / MRO are represented by the class table, not modelled"]
ASSUME = ["single inheritance; a generic class's first base is a generic alias or Generic[...]; registered collection classes "
          "have one type parameter and annotated, lambda-free methods", "lambdas supplied as strings or ast objects"]
RULE = ("random class models (inheritance depth <= 3, 1-2 type parameters renamed and reordered along the chain, type variables "
        "at nesting depth 0-3 in return annotations, in base-class arguments and in an Iterable base, classes named like typing "
        "exports (Container, Sequence, Collection, Reversible), class- and method-level callbacks that return a new call node "
        "(renamed / wrapped) on classes whose method results are used as sub-expressions, a dataclass whose fields carry string "
        "annotations (forward references; whole models under `from __future__ import annotations`), plain non-generic subclasses "
        "two and three levels below a parameterised base (also of an Iterable[...] base), lambda parameters named like registered "
        "functions (len, abs), fixed "
        "non-generic subclasses, Iterable subclasses with extra parameters, a registered custom collection, unannotated "
        "methods) and well-typed expressions generated with their expected type (method chains, Select/SelectMany/Where/"
        "First/Count/len/subscript at depth <= 3, comparisons, and/or, int/float arithmetic, dict fields, conditionals); "
        "non-trivial = uses a generic or collection class; distinct by ast.dump")

PRIM = {"int": "Int", "float": "Float", "bool": "Bool", "str": "Str"}


# types of the generator: ("p", "int") | ("c", name, [args]) | ("it", t) | ("v", "T") | ("any",)
def src(t):
    if t[0] == "p":
        return t[1]
    if t[0] == "v":
        return t[1]
    if t[0] == "it":
        # ("it", ("any",), "bare"): the annotation is a bare `Iterable` - an iterable of unknown items (F55)
        return "Iterable" if len(t) > 2 else "Iterable[%s]" % src(t[1])
    if t[0] == "any":
        return "Any"
    return t[1] + ("[%s]" % ", ".join(src(a) for a in t[2]) if t[2] else "")


def sx(t):
    if t[0] == "p":
        return PRIM[t[1]]
    if t[0] == "it":
        return "(Iter %s)" % sx(t[1])
    if t[0] == "any":
        return "Any"
    if t[0] == "v":
        return "(Var %s)" % hx(t[1])
    return "(Cls %s (%s))" % (hx(t[1]), " ".join(sx(a) for a in t[2]))


def subst(env, t):
    if t[0] == "v":
        return env[t[1]]
    if t[0] == "it":
        return ("it", subst(env, t[1]))
    if t[0] == "c":
        return ("c", t[1], [subst(env, a) for a in t[2]])
    return t


class Spec:
    """The generator's own view of the class model (what the annotations imply)."""

    def __init__(self, r):
        self.r = r
        self.classes = {}     # name -> {"params": [...], "base": type or None, "methods": {name: ret type or None}}
        self.order = []
        tvs = ["T", "U", "V"]
        E = [("c", "E0", []), ("c", "E1", [])]
        self.add("E0", [], None, {"val": ("p", "float"), "num": ("p", "int"), "flag": ("p", "bool"), "raw": None})
        self.add("E1", [], None, {"val": ("p", "float"), "name": ("p", "str")})
        n = r.choice([1, 2])
        bp = r.sample(tvs, n)
        # user classes may be named like exports of `typing` (they must not be taken for them)
        BASE = self.BASE = r.choice(["Base", "Base", "Container", "Sequence"])
        MID = self.MID = r.choice(["Mid", "Mid", "Collection", "Reversible"])
        nest = lambda t, k: t if k == 0 else ("it", nest(t, k - 1))  # noqa
        bm = {"first": ("v", bp[0]), "items": ("it", ("v", bp[0])), "raw": None,
              # type variables at nesting depth 2 and 3 inside the annotation
              "layers": nest(("v", bp[0]), 2), "deep": nest(("v", bp[-1]), 3)}
        if n == 2:
            bm["second"] = ("v", bp[1])
            bm["pairs"] = ("it", ("v", bp[1]))
        self.add(BASE, bp, None, bm)
        # Mid: own parameters (renamed / reordered), base arguments drawn from them and from concrete types
        mp = r.sample(tvs, r.choice([1, 2]))
        margs = [r.choice([("v", p) for p in mp] + [("p", "int"), E[0]]) for _ in bp]
        midm = {"mine": ("v", mp[0]), "mids": ("it", ("v", mp[-1])), "grid": nest(("v", mp[-1]), 2)}
        # overridden methods: the annotation of the most derived version wins; the base's own version stays what the
        # other subclasses (Fixed, Grouped) and the base itself answer with
        ov = lambda: r.random() < 0.7  # noqa
        if ov():
            midm["first"] = r.choice([("p", "str"), ("v", mp[-1]), ("it", ("p", "float"))])     # Mid overrides Base.first
        if ov():
            midm["raw"] = ("p", "int")                                    # un-annotated in the base, annotated here
        self.add(MID, mp, ("c", BASE, margs), midm)
        # Leaf: depth 3, fixed or generic
        if r.random() < 0.5:
            self.add("Leaf", [], ("c", MID, [r.choice([("p", "float"), E[1], ("p", "str")]) for _ in mp]),
                     dict({"leaf": ("p", "int")}, **({"mine": ("p", "bool"), "items": ("it", E[0])} if ov() else {})))
        else:
            lp = [r.choice(tvs)]
            self.add("Leaf", lp, ("c", MID, [r.choice([("v", lp[0]), ("p", "int")]) for _ in mp]), {"leaf": ("v", lp[0])})
        self.add("Fixed", [], ("c", BASE, [r.choice([("p", "int"), E[0], nest(E[1], 2)]) for _ in bp]), {})
        # base-class arguments with the subclass's variable at depth 2-3; an Iterable subclass nested 3 deep
        gp = [r.choice(tvs)]
        self.add("Grouped", gp, ("c", BASE, [nest(("v", gp[0]), r.choice([2, 3]))] + [("p", "int")] * (n - 1)),
                 {"one": nest(("v", gp[0]), 1)})
        kp = [r.choice(tvs)]
        self.add("Blocks", kp, nest(("v", kp[0]), 3), {"size": ("p", "int")})
        ip = r.sample(tvs, r.choice([1, 2]))
        self.add("MyIter", ip, ("it", ("v", ip[-1])), {"tag": ("p", "int"), "head": ("v", ip[-1])})
        # ordinary NON-generic subclasses of classes that derive from a parameterised base (two levels of inheritance):
        # they have no __orig_bases__ of their own - the base chain is reached through the inherited attribute
        self.add("SubFixed", [], ("c", "Fixed", []), {"own": ("p", "float")})
        self.add("ItE0", [], ("it", E[0]), {"size": ("p", "int")})
        self.add("GoodItE0", [], ("c", "ItE0", []), {"good": ("p", "bool")})
        self.add("BoxI", [], ("c", MID, [r.choice([("p", "int"), E[1]]) for _ in mp]), {})
        # an override in the middle of a three-level chain of plain subclasses: MyBoxI2 answers with MyBoxI's version
        self.add("MyBoxI", [], ("c", "BoxI", []), {"grid": ("p", "int"), "mine": E[0]} if ov() else {})
        self.add("MyBoxI2", [], ("c", "MyBoxI", []), {"deep3": ("p", "int")})
        self.coll_methods = {"MyFirst": ("v", "M"), "MyCount": ("p", "int")}
        inst = lambda c: ("c", c, [r.choice([("p", "int"), ("p", "float"), E[0], E[1]]) for _ in self.classes[c]["params"]])  # noqa
        ev = {"n": ("p", "int"), "x": ("p", "float"), "ok": ("p", "bool"), "raw": None,
              "base": inst(BASE), "mid": inst(MID), "leaf": inst("Leaf"), "fixed": ("c", "Fixed", []),
              "grouped": inst("Grouped"), "blocks": inst("Blocks"), "nested": nest(r.choice(E + [("p", "int")]), 2),
              "it": inst("MyIter"), "e0s": ("it", E[0]), "e1s": ("it", E[1]), "mids": ("it", inst(MID)),
              "bare": ("it", ("any",), "bare"),
              "e0": E[0], "rec": ("c", "Rec", []), "subfixed": ("c", "SubFixed", []), "gooditems": ("c", "GoodItE0", []),
              "mybox": ("c", "MyBoxI", []), "mybox2": ("c", "MyBoxI2", []), "goods": ("it", ("c", "GoodItE0", []))}
        # a dataclass whose fields are annotated with forward references (strings), as user code writes them
        self.fields = {"Rec": {"lead": E[0], "count": ("p", "int"), "subs": ("it", E[1]), "best": inst(MID)}}
        self.add("Rec", [], None, {})
        self.future = r.random() < 0.3          # the whole model under `from __future__ import annotations`
        self.add("Ev", [], None, ev)

    def add(self, name, params, base, methods):
        self.classes[name] = {"params": params, "base": base, "methods": methods}
        self.order.append(name)

    def desc(self):
        used = sorted({p for c in self.classes.values() for p in c["params"]} | {"M"})
        cl = []
        for name in self.order:
            c = self.classes[name]
            d = {"name": name, "methods": [{"name": m, "params": [], "ret": (src(t) if t else None)} for m, t in c["methods"].items()]}
            if name in self.fields:
                d["dataclass"] = [(f, repr(src(t)) if i % 2 == 0 else src(t)) for i, (f, t) in enumerate(self.fields[name].items())]
            if c["base"] is not None:
                d["base"] = src(c["base"])
                if c["params"] and c["base"][0] == "c" and [a for a in c["base"][2]] != [("v", p) for p in c["params"]]:
                    d["generic"] = c["params"]
                elif c["params"] and c["base"][0] == "it" and c["base"][1] != ("v", c["params"][0]) or (
                        c["base"][0] == "it" and len(c["params"]) > 1):
                    d["generic"] = c["params"]
            elif c["params"]:
                d["generic"] = c["params"]
            cl.append(d)
        cl.append({"name": "MyColl", "base": "ObjectStream[M]", "collection": True,
                   "methods": [{"name": m, "params": [], "ret": src(t)} for m, t in self.coll_methods.items()]})
        # callbacks that add metadata and may return a NEW call node (renamed method / wrapped call): whatever a callback
        # returns, the type of the call is the annotated one and everything computed from it follows
        r = self.r
        cbs = {}
        for d in cl:
            if r.random() < 0.55:
                cid = "c_" + d["name"]
                d["cb"] = cid
                cbs[cid] = {"md": ({cid: 1} if r.random() < 0.5 else None),
                            "rw": r.choice([("id",), ("rename", "rn_" + d["name"]), ("rename", "rn_" + d["name"]), ("wrap", "w_" + d["name"])])}
            for m in d["methods"]:
                if r.random() < 0.2:
                    cid = "m_%s_%s" % (d["name"], m["name"])
                    m["cb"] = cid
                    cbs[cid] = {"md": None, "rw": r.choice([("rename", m["name"] + "_v2"), ("wrap", "wm"), ("id",)])}
        return {"typevars": used, "classes": cl, "functions": [], "callbacks": cbs,
                "header": "from __future__ import annotations\n" if self.future else ""}

    # what the annotations imply
    def method(self, t, name):
        if t[0] != "c" or t[1] not in self.classes:
            return None
        c = self.classes[t[1]]
        env = dict(zip(c["params"], t[2]))
        if name in c["methods"]:
            rt = c["methods"][name]
            return ("any",) if rt is None else subst(env, rt)
        if c["base"] is not None:
            return self.method(subst(env, c["base"]), name)
        return None

    def elem(self, t):
        if t[0] == "it":
            return t[1]
        if t[0] == "c" and t[1] in self.classes and self.classes[t[1]]["base"] is not None:
            c = self.classes[t[1]]
            return self.elem(subst(dict(zip(c["params"], t[2])), c["base"]))
        return None

    def methods_of(self, t):
        out = []
        while t is not None and t[0] == "c" and t[1] in self.classes:
            c = self.classes[t[1]]
            out += list(c["methods"])
            t = subst(dict(zip(c["params"], t[2])), c["base"]) if c["base"] is not None else None
        return out


ROW_KEYS = ["match", "case", "type", "_", "self", "print", "x1", "a_b", "row2_", "Select", "_v"]


class G:
    def __init__(self, r, spec):
        self.r = r
        self.s = spec
        self.interesting = False
        self.refuse = False   # a nested Where was given a filter that is not a boolean: the whole query must be refused
        self.outer = []       # parameters of enclosing immediately called lambdas: (name, type, operator-lambda level)
        self.oplevel = 0      # how many operator lambdas enclose the expression being generated
        self.fresh = 0

    def inner(self, nv, el, d):
        """the body of an operator lambda over [nv : el]"""
        self.oplevel += 1
        try:
            return self.value(N(nv), el, d + 1)
        finally:
            self.oplevel -= 1

    def value(self, v, t, d):
        """an expression starting from [v : t]; -> (ast, type)"""
        r = self.r
        if r.random() < 0.12 and d < 3:
            # through an immediately called lambda: the parameter has the type of the argument, the call the type of the body
            z = r.choice(["z", "len", None, None])
            if z is None:
                self.fresh += 1
                z = "q%d" % self.fresh                      # never hidden by another parameter: usable further in
            self.outer.append((z, t, self.oplevel))
            try:
                b, bt = self.value(N(z), t, d + 1)
            finally:
                self.outer.pop()
            return call(lam(z, b), [v]), bt
        # the parameter of an enclosing called lambda, used one or more operator lambdas further in: it keeps the type
        # of the argument it was bound to
        avail = [o for o in self.outer if o[0].startswith("q") and o[2] < self.oplevel]
        if avail and r.random() < 0.35:
            z, t, _ = r.choice(avail)
            v = N(z)
            self.interesting = True
        for _ in range(r.randrange(1, 5)):
            if r.random() < 0.12 and t[0] in ("c", "it"):
                # a conditional with the same object / collection type on both branches keeps that type as a receiver
                v = ast.IfExp(test=gen.cmp(ast.Gt, C(1), C(0)), body=v, orelse=gen.clone(v))
                self.interesting = True
            if t[0] == "c" and t[1] in self.s.fields:
                f = r.choice(sorted(self.s.fields[t[1]]))
                self.interesting = True
                v, t = A(v, f), self.s.fields[t[1]][f]
                continue
            if t[0] == "c" and t[1] in self.s.classes:
                el = self.s.elem(t)
                ms = self.s.methods_of(t)
                if el is not None and r.random() < 0.4:
                    v, t = self.coll(v, t, el, d)
                    continue
                m = r.choice(ms)
                if t[2] or t[1] in ("Fixed", "Leaf", "MyIter", "Grouped", "Blocks", "SubFixed", "GoodItE0", "MyBoxI", "MyBoxI2"):
                    self.interesting = True
                v, t = call(A(v, m), []), self.s.method(t, m)
            elif t[0] == "it":
                v, t = self.coll(v, t, t[1], d)
            else:
                break
        return v, t

    def coll(self, v, t, el, d):
        r = self.r
        self.interesting = True
        k = r.choice(["First", "sub", "Count", "len", "Select", "Where", "SelectMany", "MyFirst", "MyCount", "Row"] if d < 3 else
                     ["First", "sub", "Count", "len", "MyFirst"])
        if k == "First":
            return call(A(v, "First"), []), el
        if k == "MyFirst":
            return call(A(v, "MyFirst"), []), el
        if k == "sub":
            return gen.sub(v, C(0)), el
        if k in ("Count", "MyCount"):
            return call(A(v, k), []), ("p", "int")
        if k == "len":
            return call(N("len"), [v]), ("p", "int")
        nv = r.choice(["a", "b", "e", "len", "abs"])
        if k == "Select":
            b, bt = self.inner(nv, el, d)
            b, bt = self.scalarise(b, bt)
            return tc.op_call(r, v, "Select", lam(nv, b)), ("it", bt)
        if k == "Row":
            # a dictionary row between two operators: the second lambda's parameter is a record whose fields - whatever
            # legal identifier names them, soft keywords included - keep the types of the values
            key = r.choice(ROW_KEYS)
            rows = tc.op_call(r, v, "Select", lam(nv, gen.dct([(C(key), N(nv)), (C("o"), C(1))])))
            rv = r.choice(["r", "row", nv])
            acc = A(N(rv), key) if r.random() < 0.6 else gen.sub(N(rv), C(key))
            self.oplevel += 1
            try:
                b, bt = self.value(acc, el, d + 1)
            finally:
                self.oplevel -= 1
            return tc.op_call(r, rows, "Select", lam(rv, b)), ("it", bt)
        if k == "Where":
            b, bt = self.inner(nv, el, d)
            if bt != ("p", "bool") and r.random() < 0.08:
                # a filter that is not a boolean is refused at any depth, not only on the stream itself
                self.refuse = True
                return tc.op_call(r, v, "Where", lam(nv, b), 0.5), ("it", el)
            return tc.op_call(r, v, "Where", lam(nv, self.boolean(b, bt)), 0.5), ("it", el)
        # SelectMany: the body must be iterable
        if self.s.elem(el) is not None and r.random() < 0.5:
            return tc.op_call(r, v, "SelectMany", lam(nv, N(nv))), ("it", self.s.elem(el))       # flatten one level
        b, bt = self.inner(nv, el, d)
        be = self.s.elem(bt) if bt[0] in ("c", "it") else None
        if be is None:
            return tc.op_call(r, v, "Select", lam(nv, b)), ("it", bt)
        return tc.op_call(r, v, "SelectMany", lam(nv, b)), ("it", be)

    def boolean(self, b, bt):
        if bt == ("p", "bool"):
            return b
        k = self.r.randrange(4)
        if k == 0:
            return gen.cmp(ast.Gt, b, C(1))
        if k == 1:
            return ast.UnaryOp(op=ast.Not(), operand=b)                 # `not x` is a boolean whatever x is
        if k == 2:
            return ast.UnaryOp(op=ast.Not(), operand=gen.cmp(ast.Gt, b, C(1)))
        return ast.BoolOp(op=ast.And(), values=[gen.cmp(ast.Lt, b, C(2)), C(True)])

    def scalarise(self, b, bt):
        r = self.r
        k = r.randrange(6)
        if bt in (("p", "int"), ("p", "float")) and k == 0:
            o = r.choice([ast.Add, ast.Mult, ast.Div, ast.FloorDiv])
            c = r.choice([2, 2.5])
            rt = ("p", "float") if (bt[1] == "float" or isinstance(c, float) or o is ast.Div) else ("p", "int")
            return gen.binop(o, b, C(c)), rt
        if k == 1:
            if r.random() < 0.4:        # a key given twice: the last one is the value
                return A(gen.dct([(C("f"), C("s")), (C("g"), C(1)), (C("f"), b)]), "f"), bt
            return A(gen.dct([(C("f"), b), (C("g"), C(1))]), "f"), bt
        if k == 2:
            if r.random() < 0.4:
                return gen.sub(gen.dct([(C("f"), C(1)), (C("f"), b)]), C("f")), bt
            return gen.sub(gen.dct([(C("f"), b)]), C("f")), bt
        if k == 4 and bt[0] != "any":
            return ast.UnaryOp(op=ast.Not(), operand=b), ("p", "bool")
        if k == 3 and bt[0] != "any":
            return ast.IfExp(test=gen.cmp(ast.Gt, C(1), C(0)), body=b, orelse=gen.clone(b)), bt
        return b, bt


def run(ctx):
    for mi in range(ctx.budget(25, 300)):
        spec = Spec(ctx.rng)
        desc = spec.desc()
        try:
            model = tc.Model(desc)
        except Exception as e:  # noqa
            ctx.count("model_build", "skipped:" + type(e).__name__)
            continue
        ctx.count("model_build", "ok")
        w = model.world_sx()
        item = model.ev("Ev")
        item_sx = model.ty_sx(item)
        cases = []
        for qi in range(ctx.budget(60, 200)):
            g = G(ctx.rng, spec)
            rv = ctx.rng.choice(["e", "e", "len", "abs"])      # also parameters named like registered functions
            b, bt = g.value(N(rv), ("c", "Ev", []), 0)
            op = ctx.rng.choice(["Select", "Select", "SelectMany", "Where"])
            want = None
            if op == "Select":
                want = bt
            elif op == "SelectMany":
                el = spec.elem(bt) if bt[0] in ("c", "it") else None
                if el is None:
                    op, want = "Select", bt
                else:
                    want = el
            else:
                b = g.boolean(b, bt) if ctx.rng.random() < 0.8 else b
                want = ("c", "Ev", []) if isinstance(b, (ast.Compare, ast.BoolOp, ast.UnaryOp)) or bt == ("p", "bool") else "refuse"
            if g.refuse:
                want = "refuse"
            cases.append((op, lam(rv, b), want, g.interesting))
        answers = ctx.driver.call("op", [tc.model_requests(w, op, item_sx, q) for op, q, _, _ in cases])
        for (op, q, want, interesting), ans in zip(cases, answers):
            ctx.evaluations += 1
            ctx.corr_cases += 1
            if interesting:
                ctx.distinct.add(ast.dump(q))
            impl = tc.run_impl(model, op, item, q)
            mod = tc.parse_model_answer(ans)
            ctx.count("operator", op)
            ctx.count("impl_result", impl[0] if impl[0] != "crash" else "crash:" + impl[1])
            ok, what = True, ""
            if want == "refuse":
                if impl[0] != "refuse" or "Where filter must return a boolean" not in impl[1]:
                    ok, what = False, "non-boolean Where filter not refused: %s" % tc.show(impl)[:160]
            elif impl[0] != "ok":
                ok, what = False, "well-typed query refused/crashed: %s" % tc.show(impl)[:200]
            elif want[0] != "any" and impl[2] != sx(want):
                ok, what = False, "item type %s, the annotations imply %s" % (impl[2], src(want))
            wit = {"desc": desc, "op": op, "query_dump": ast.dump(q), "query": ast.unparse(q),
                   "want": want if want == "refuse" else sx(want), "want_src": want if want == "refuse" else src(want)}
            if not ok:
                ctx.fail("failing-input", "%s(%s): %s" % (op, ast.unparse(q), what), dict(wit, oracle="declared-type"),
                         key=core.digest({"p": ID, "d": desc, "q": ast.dump(q), "op": op}))
            if not tc.same_outcome(impl, mod):
                ctx.corr_disagreements += 1
                if ok:
                    ctx.fail("no-failing-input-found", "correspondence stream_op vs ObjectStream.%s broke on %s: model %s, code %s" % (
                        op, ast.unparse(q), tc.show(mod)[:200], tc.show(impl)[:200]),
                        dict(wit, correspondence="stream_op", model=ans[:300], impl=tc.show(impl)[:300]))
            if len(ctx.samples) < 5 and interesting and impl[0] == "ok" and ctx.rng.random() < 0.05:
                ctx.sample({"classes": model.source[:400], "input": ast.unparse(q), "type": impl[2]})


def replay(ctx, wit):
    model = tc.Model(wit["desc"])
    q = eval(wit["query_dump"], dict(vars(ast)))
    impl = tc.run_impl(model, wit["op"], model.ev("Ev"), q)
    if wit["want"] == "refuse":
        bad = impl[0] != "refuse"
    else:
        bad = impl[0] != "ok" or (wit["want"] != "Any" and impl[2] != wit["want"])
    if bad:
        ctx.fail("failing-input", "still fails: %s(%s) -> %s, expected %s" % (wit["op"], wit["query"], tc.show(impl)[:200], wit["want_src"]),
                 wit, key=core.digest({"p": ID, "d": wit["desc"], "q": wit["query_dump"], "op": wit["op"]}))

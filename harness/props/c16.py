"""C16 - query-level metadata accumulates, is inherited, and never reaches a backend."""
from __future__ import annotations

import stream_common as sc

ID = "C16"
TAG = "stream"
EXTRACT = "FA/Extract/ExtractStream.v"
DRIVER = "driver_stream.ml"
COQ_FILES = ["FA/Proofs/HeapFacts.v", "FA/Proofs/StreamFrame.v", "FA/Proofs/StreamWalk.v", "FA/Proofs/StreamQmd.v",
             "FA/Proofs/StreamParam.v", "FA/Proofs/StreamErase.v", "FA/Properties/C16.v"]

LEVEL = ("Coq theorems over Model/Stream.v: qmd_last_writer (for every history whose supplied trees embed no other stream's AST: "
         "lookup_query_metadata = dictionary replay along the stream's own derivation path - last writer wins, earlier keys stay, "
         "siblings isolated; the lookup is modelled faithfully as a walk over ALL children with later hits overwriting), "
         "qmd_invisible (for EVERY history: dumps, item types, outcomes and the whole executor log equal those of the history with "
         "QMetaData setting nothing), lookups_immutable. Model tied to the code by comparing lookups of every key on every live stream "
         "after every step, and the non-field attributes of every new node object.")
TRUSTED = sc.TRUSTED_COMMON
ASSUME = sc.ASSUME_COMMON + [
    "metadata values compare by Python == ; the generators use values on which == is structural (no 1/True/1.0 mix)",
    "a lambda that embeds another stream's AST object (a join written by hand) is outside qmd_last_writer: the walk then also sees "
    "that stream's metadata (Example embedded_stream_is_seen; the code agrees with the model there)",
]
RULE = ("corpus (F14 witnesses) + all histories of length <= N over a QMetaData-heavy alphabet + seeded random histories; "
        "non-trivial: >= 3 streams and a QMetaData or value operation; distinct by JSON")

ALPHABET = [
    {"op": "der", "kind": "Select", "lam": "lambda e: e.x"},
    {"op": "md", "val": {}},
    {"op": "qmd", "kv": [["a", 2]]},
    {"op": "qmd", "kv": [["a", 3]]},
    {"op": "qmd", "kv": [["b", 2]]},
    {"op": "qmd", "kv": [["a", 2], ["b", 3]]},
    {"op": "qmd", "kv": [["a", None]]},
    {"op": "val", "ov": None, "title": None, "res": ["R", "r1"]},
]

CORPUS = [
    # F14: consecutive QMetaData calls used to lose the earlier keys
    [{"op": "ds", "ty": "Any"}, {"op": "qmd", "s": 0, "kv": [["a", 2]]}, {"op": "qmd", "s": 1, "kv": [["b", 3]]}],
    [{"op": "ds", "ty": "Any"}, {"op": "der", "s": 0, "kind": "Select", "lam": "lambda e: e.x"},
     {"op": "qmd", "s": 1, "kv": [["a", 2], ["b", 2]]}, {"op": "qmd", "s": 2, "kv": [["a", 3]]}, {"op": "qmd", "s": 3, "kv": [["c", "x"]]},
     {"op": "qmd", "s": 1, "kv": [["a", "sib"]]}, {"op": "val", "s": 4, "ov": None, "title": "t", "res": ["R", "r1"]}],
    # equal value: nothing stored; None value; overwriting with None and back
    [{"op": "ds", "ty": "Evt"}, {"op": "qmd", "s": 0, "kv": [["a", 2]]}, {"op": "qmd", "s": 1, "kv": [["a", 2]]},
     {"op": "qmd", "s": 2, "kv": [["a", None]]}, {"op": "qmd", "s": 3, "kv": [["a", 3], ["b", None]]},
     {"op": "der", "s": 4, "kind": "Select", "lam": "lambda e: e.jets_md()"}, {"op": "qmd", "s": 5, "kv": [["b", "y"]]}],
    # a join: the lambda embeds another stream's AST object (model and code agree; outside the replay oracle)
    [{"op": "ds", "ty": "Any"}, {"op": "ds", "ty": "Any"}, {"op": "qmd", "s": 1, "kv": [["a", 2]]}, {"op": "qmd", "s": 0, "kv": [["a", 3]]},
     {"op": "der", "s": 3, "kind": "Select", "lam": "lambda e: S2", "prebuilt": True}],
]


def histories(ctx):
    hs = list(CORPUS)
    n = ctx.budget(4, 5)
    ex = sc.exhaustive_histories(ALPHABET, n)
    ctx.notes.append("exhaustive: %d histories of length <= %d over %d operation templates" % (len(ex), n, len(ALPHABET)))
    hs += ex
    for _ in range(ctx.budget(120, 700)):
        hs.append(sc.random_history(ctx.rng, ctx.rng.randrange(4, 41)))
    return hs


def run(ctx):
    sc.check_histories(ctx, ID, histories(ctx), "history")


def replay(ctx, w):
    sc.replay_history(ctx, ID, w)

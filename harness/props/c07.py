"""C07 - typed call sites are normalised to full positional form."""
from __future__ import annotations

import ast
import copy
import inspect
import itertools

import bridge
import core
import gen
import types_common as tc
from gen import A, C, N, call, lam

ID = "C07"
TAG = "types"
EXTRACT = "FA/Extract/ExtractTypes.v"
DRIVER = "driver_types.ml"
COQ_FILES = ["FA/Proofs/TypeFollowFacts.v", "FA/Proofs/TypeFollowFill.v", "FA/Proofs/TypeFollowNormalised.v",
             "FA/Properties/C07.v"]

LEVEL = ("Coq theorems over the executable model of _fill_in_default_arguments/_find_keyword (`fill`, whose parameter filter "
         "and index increment are read from the source on every run) and of the method-call path of the type follower: "
         "fill_is_bind (fill = an independently written specification of inspect.Signature.bind + apply_defaults for every "
         "signature and every call), fill_accepts / fill_missing (accepted call shapes give the full positional list and no "
         "keyword; a missing required parameter is refused), own_operators_untouched, method_call_normalised; model tied to "
         "the code by exact differential comparison, oracle inspect.Signature.bind().apply_defaults().")
TRUSTED = ["Coq 8.16.1 kernel (coqc); no axioms (Print Assumptions: closed under the global context)",
           "harness/tables/types_tbl.py (parameter filter and `i_arg += 1` of _fill_in_default_arguments read from source)",
           "extraction: ExtrOcamlBasic + ExtrOcamlNativeString; ocaml/driver_types.ml codecs",
           "harness/bridge.py; harness/props/types_common.py (class models -> Python classes; class table read back from the "
           "live classes with inspect.signature / get_type_hints / __orig_bases__ / MRO), c07.py generators and oracles",
           "CPython typing / inspect are represented by the class table, not modelled"]
ASSUME = ["parameters are positional-or-keyword (no *args/**kwargs/keyword-only), as in every class model of the test-suite",
          "defaults are transportable constants (a default of None is filled in and then refused by check_ast: a designed refusal)",
          "lambdas supplied as strings or ast objects"]
RULE = ("(a) _fill_in_default_arguments directly: all signatures with <= 4 parameters x all default masks x all call shapes "
        "Signature.bind accepts plus those missing a required parameter, plus surplus/unknown/duplicate shapes for correspondence "
        "only; (b) generated 4-level class models (method name shared between classes with different signatures, lambda "
        "parameter names re-used across levels) and queries reaching depth 0-3 through method chains, Select/Where/SelectMany, "
        "dictionary fields and tuple literals, operator lambdas given positionally or by keyword (f= / func= / filter=), registered functions at every depth; non-trivial = at least one typed call "
        "site; distinct by ast.dump of the query")

PNAMES = ["a", "b", "c", "d"]
DEFAULTS = ["11", "'dflt'", "2.5", "True"]


# ------------------------------------------------------------------ (a) the signature walk on its own

def signatures(maxn=4):
    for n in range(maxn + 1):
        for k in range(n + 1):          # k trailing parameters have defaults
            yield [(PNAMES[i], DEFAULTS[i] if i >= n - k else None) for i in range(n)]


def call_shapes(sig, extra=False):
    """(npos, [keyword names in order]).  All shapes over the signature's own names; with ``extra`` also shapes Python rejects."""
    n = len(sig)
    names = [p for p, _ in sig]
    for npos in range(n + 1 + (1 if extra else 0)):
        rest = names[npos:] if npos <= n else []
        pool = rest + (["zz"] if extra else []) + (names[:1] if extra and npos >= 1 else [])
        for r in range(len(pool) + 1):
            for kws in itertools.permutations(pool, r):
                if r > 2 and list(kws) != sorted(kws) and list(kws) != sorted(kws, reverse=True):
                    continue       # all orders for <= 2 keywords, ascending and descending beyond
                yield npos, list(kws)


def make_func(sig, method=False):
    ps = (["self"] if method else []) + [p if d is None else "%s=%s" % (p, d) for p, d in sig]
    ns = {}
    exec("def f(%s) -> float: ..." % ", ".join(ps), ns)
    return ns["f"]


def mk_call(npos, kws, method):
    args = [C(100 + i) for i in range(npos)]
    keywords = [(k, A(N("e"), "k_" + k)) for k in kws]
    f = A(N("obj"), "f") if method else N("f")
    return call(f, args, keywords)


def bind_oracle(func, node: ast.Call, method: bool):
    """inspect.Signature.bind + apply_defaults -> list of expected positional nodes, or None if Python rejects the call"""
    sig = inspect.signature(func)
    pos = ([object()] if method else []) + list(node.args)
    kw = {k.arg: k.value for k in node.keywords}
    if len(kw) != len(node.keywords):
        return None
    try:
        ba = sig.bind(*pos, **kw)
    except TypeError:
        return None
    ba.apply_defaults()
    out = []
    for name, p in sig.parameters.items():
        if name == "self":
            continue
        v = ba.arguments[name]
        out.append(v if isinstance(v, ast.AST) else ast.Constant(value=v))
    return out


def fill_direct(ctx):
    from func_adl.type_based_replacement import _fill_in_default_arguments

    rows, metas = [], []
    for sig in signatures(4):
        # "static": called through an attribute but without a receiver parameter (staticmethod / classmethod as
        # getattr(cls, name) hands them over): every parameter is the caller's
        for method in (False, True, "static"):
            func = make_func(sig, method is True)
            psx = "(" + " ".join(tc._param_sx(p) for p in inspect.signature(func).parameters.values()) + ")"
            for npos, kws in call_shapes(sig, extra=True):
                node = mk_call(npos, kws, bool(method))
                rows.append([psx, "(" + " ".join(bridge.to_sx(a) for a in node.args) + ")",
                             "(" + " ".join(bridge.hx(k.arg) for k in node.keywords) + ")",
                             "(" + " ".join(bridge.to_sx(k.value) for k in node.keywords) + ")"])
                metas.append((sig, method, func, node))
    answers = ctx.driver.call("fill", rows)
    ctx.notes.append("direct _fill_in_default_arguments cases: %d" % len(rows))
    for (sig, method, func, node), ans in zip(metas, answers):
        ctx.evaluations += 1
        ctx.corr_cases += 1
        want = bind_oracle(func, node, method is True)
        try:
            out, _ = _fill_in_default_arguments(func, copy.deepcopy(node))
            got = "OK (%s) (%s) (%s)" % (" ".join(bridge.to_sx(a) for a in out.args),
                                         " ".join(bridge.hx(k.arg) for k in out.keywords),
                                         " ".join(bridge.to_sx(k.value) for k in out.keywords))
            res = ("ok", out)
        except ValueError as e:
            got = "MISSING"
            res = ("refuse", str(e))
        except Exception as e:  # noqa
            got = "CRASH " + type(e).__name__
            res = ("crash", type(e).__name__)
        ctx.count("fill_direct", res[0])
        desc = "def f(%s); call %s" % (", ".join(p if d is None else "%s=%s" % (p, d) for p, d in sig), ast.unparse(node))
        wit = {"kind": "fill", "sig": sig, "method": method, "call": ast.unparse(node)}
        ok = True
        pos_only_kw = set(k.arg for k in node.keywords) <= set(p for p, _ in sig) and len(node.args) <= len(sig) \
            and len(set(k.arg for k in node.keywords)) == len(node.keywords) \
            and not (set(k.arg for k in node.keywords) & set(p for p, _ in sig[:len(node.args)]))
        if want is not None:
            if res[0] != "ok" or [ast.dump(a) for a in res[1].args] != [ast.dump(a) for a in want] or res[1].keywords:
                ok = False
                what = "%s -> %s; Signature.bind().apply_defaults() gives f(%s)" % (
                    desc, ast.unparse(res[1]) if res[0] == "ok" else res[0] + " " + str(res[1])[:60],
                    ", ".join(ast.unparse(a) for a in want))
        elif pos_only_kw:
            # Python rejects only because a required parameter is missing
            if res[0] != "refuse":
                ok = False
                what = "%s is missing a required parameter but is accepted: %s" % (
                    desc, ast.unparse(res[1]) if res[0] == "ok" else res[1])
        if not ok:
            ctx.fail("failing-input", what, dict(wit, oracle="bind"), key=core.digest({"p": ID, "fill": desc}))
        if ans.split(" ")[0] != got.split(" ")[0] or (got.startswith("OK") and ans != got):
            ctx.corr_disagreements += 1
            if ok:
                ctx.fail("no-failing-input-found", "correspondence fill vs _fill_in_default_arguments broke on %s: model %s, code %s"
                         % (desc, ans[:160], got[:160]), dict(wit, correspondence="fill", model=ans[:300], impl=got[:300]))


# ------------------------------------------------------------------ (b) whole queries over generated class models

LEVELS = 4
SHARED = "m"


def gen_model(r):
    """4 classes L0..L3; every level has the shared method `m` (own signature), `items` (to the next level, own
    signature), `val`; a registered function `fn`."""
    sigs = list(signatures(4))
    classes = []
    info = {}
    cbs = {}
    extra = []
    for i in reversed(range(LEVELS)):
        msig = r.choice(sigs)
        isig = r.choice([s for s in sigs if len(s) <= 2])
        ms = [{"name": SHARED, "params": msig, "ret": r.choice(["float", "int", "float", None, "Any"])},
              {"name": "val", "params": [], "ret": "float"}]
        items_out = "items"
        if i + 1 < LEVELS:
            im = {"name": "items", "params": isig, "ret": "Iterable[L%d]" % (i + 1)}
            if r.random() < 0.5:
                # a method callback that returns a NEW call node: the collection it yields is still typed, and the
                # call sites in the lambdas applied to it are still normalised
                im["cb"] = "items_cb%d" % i
                cbs["items_cb%d" % i] = {"md": None, "rw": ("rename", "items_v%d" % i)}
                items_out = "items_v%d" % i
            ms.append(im)
        if i + 1 < LEVELS:
            # a user collection class: an Iterable subclass that declares, with its own signatures, methods that the
            # library's collection classes also have (Count, First) - its own declaration is the one that binds
            ms.append({"name": "jc", "params": [], "ret": "JC[L%d]" % (i + 1)})
            # a plain subclass of an Iterable[...] subclass: still a collection of the next level
            ms.append({"name": "glc", "params": [], "ret": "GLC%d" % (i + 1)})
            extra.append({"name": "LC%d" % (i + 1), "base": "Iterable[L%d]" % (i + 1), "methods": []})
            extra.append({"name": "GLC%d" % (i + 1), "base": "LC%d" % (i + 1), "methods": []})
        classes += extra
        extra = []
        classes.append({"name": "L%d" % i, "methods": ms})
        info[i] = {"m": msig, "items": isig, "items_out": items_out}
    jc_sigs = {"Count": r.choice([[("min_pt", None)], [("min_pt", None), ("eta", "2.5")], [("a", None), ("b", None)]]),
               "First": r.choice([[("n", None)], [("n", "1")], [("n", None), ("strict", "True")]])}
    classes.insert(0, {"name": "JC", "base": "Iterable[T]",
                    "methods": [{"name": "Count", "params": jc_sigs["Count"], "ret": "int"},
                                {"name": "First", "params": jc_sigs["First"], "ret": "T"}]})
    info["jc"] = jc_sigs
    fsig = r.choice([s for s in sigs if len(s) >= 1])
    desc = {"typevars": ["T"], "classes": classes, "functions": [{"name": "fn", "params": fsig, "ret": "float"}], "callbacks": cbs}
    info["fn"] = fsig
    return desc, info


class QueryGen:
    """Builds a query and, independently, the tree the property requires (every typed call site replaced by the
    Signature.bind/apply_defaults argument list); or marks the query as one that must be refused."""

    def __init__(self, r, model, info, reuse_names):
        self.r = r
        self.model = model
        self.info = info
        self.reuse = reuse_names
        self.must_refuse = False
        self.sites = 0
        self.maxdepth = 0
        self.outer = []       # parameters of enclosing immediately called lambdas: (name, level, lambda depth)
        self.fresh = 0

    def var(self, depth):
        return "x" if self.reuse else "v%d" % depth

    def shape(self, sig, allow_missing):
        shapes = list(call_shapes(sig))
        npos, kws = self.r.choice(shapes)
        return npos, kws

    def typed_call(self, func_obj, sig, callee, callee_x, scope_var, method):
        """-> (written call, expected call)"""
        npos, kws = self.shape(sig, True)
        args = [self.arg_expr(scope_var) for _ in range(npos)]
        keywords = [(k, self.arg_expr(scope_var)) for k in kws]
        node = call(callee, [a for a, _ in args], [(k, v[0]) for k, v in keywords])
        onode = call(callee_x, [a for _, a in args], [(k, v[1]) for k, v in keywords])
        want = bind_oracle(func_obj, onode, method)
        self.sites += 1
        if want is None:
            self.must_refuse = True
            return node, onode
        return node, call(callee_x, want, [])

    def arg_expr(self, v):
        k = self.r.randrange(4)
        if k == 0:
            c = C(self.r.choice([1, 2.5, "s", True]))
            return c, gen.clone(c)
        if k == 1:
            e = A(N(v), "attr_" + self.r.choice("pq"))
            return e, gen.clone(e)
        c = C(self.r.randrange(100, 200))
        return c, gen.clone(c)

    def body(self, level, depth, v):
        """expression over variable v : L<level>; returns (written, expected)"""
        self.maxdepth = max(self.maxdepth, depth)
        r = self.r
        cls = self.model.ns["L%d" % level]
        choices = ["m", "val", "fn", "tuple", "binop", "called"]
        if level + 1 < LEVELS:
            choices += ["nest", "nest", "nest", "dictnest", "tupnest", "where", "where", "wherecount", "many", "count", "jc", "jc"]
        # the parameter of an enclosing called lambda used one or more operator lambdas further in: still typed, its call
        # sites are normalised (and refused when a required argument is missing) like any other
        avail = [o for o in self.outer if o[2] < depth]
        if avail:
            choices += ["outer", "outer", "outer"]
        k = r.choice(choices)
        if k == "outer":
            zo, lo, _ = r.choice(avail)
            clso = self.model.ns["L%d" % lo]
            return self.typed_call(clso.m, self.info[lo]["m"], A(N(zo), SHARED), A(N(zo), SHARED), zo, True)
        if k == "m":
            return self.typed_call(cls.m, self.info[level]["m"], A(N(v), SHARED), A(N(v), SHARED), v, True)
        if k == "called":
            # an immediately called lambda: the typed call sites of its body are normalised like any other
            z = r.choice(["z", v, None, None])
            if z is None:
                self.fresh += 1
                z = "c%d" % self.fresh                  # never hidden by another parameter: usable further in
                self.outer.append((z, level, depth))
                try:
                    w, x = self.body(level, depth, z)
                finally:
                    self.outer.pop()
            else:
                w, x = self.body(level, depth, z)
            return call(lam(z, w), [N(v)]), call(lam(z, x), [N(v)])
        if k == "val":
            e = call(A(N(v), "val"), [])
            return e, gen.clone(e)
        if k == "jc":
            recv = call(A(N(v), "jc"), [])
            name = r.choice(["Count", "Count", "First"])
            JC = self.model.ns["JC"]
            w, x = self.typed_call(getattr(JC, name), self.info["jc"][name], A(recv, name), A(gen.clone(recv), name), v, True)
            if name == "First" and r.random() < 0.5 and not self.must_refuse:
                # the element it returns is typed: its methods are normalised too
                cls2 = self.model.ns["L%d" % (level + 1)]
                return self.typed_call(cls2.m, self.info[level + 1]["m"], A(w, SHARED), A(x, SHARED), v, True)
            return w, x
        if k == "fn":
            return self.typed_call(self.model.ns["fn"], self.info["fn"], N("fn"), N("fn"), v, False)
        if k == "tuple":
            a, b = self.body(level, depth, v), self.body(level, depth, v)
            return gen.tup(a[0], b[0]), gen.tup(a[1], b[1])
        if k == "binop":
            a, b = self.body(level, depth, v), self.body(level, depth, v)
            return gen.binop(ast.Add, a[0], b[0]), gen.binop(ast.Add, a[1], b[1])
        # the collection of the next level
        if r.random() < 0.25:
            it, it_x = call(A(N(v), "glc"), []), call(A(N(v), "glc"), [])
            self.sites += 1
        else:
            it, it_x = self.typed_call(cls.items, self.info[level]["items"], A(N(v), "items"), A(N(v), self.info[level]["items_out"]), v, True)
        if r.random() < 0.15:
            # a conditional with the same collection type on both branches is a typed receiver like any other
            it = ast.IfExp(test=gen.cmp(ast.Gt, C(1), C(0)), body=it, orelse=gen.clone(it))
            it_x = ast.IfExp(test=gen.cmp(ast.Gt, C(1), C(0)), body=it_x, orelse=gen.clone(it_x))
        if k == "count":
            return call(A(it, "Count"), []), call(A(it_x, "Count"), [])
        if k == "dictnest":
            it, it_x = A(gen.dct([(C("k"), it), (C("o"), C(1))]), "k"), A(gen.dct([(C("k"), it_x), (C("o"), C(1))]), "k")
        elif k == "tupnest":
            it, it_x = gen.sub(gen.tup(C(0), it), C(1)), gen.sub(gen.tup(C(0), it_x), C(1))
        nv = self.var(depth + 1)
        if k == "many" and level + 2 < LEVELS:
            cls2 = self.model.ns["L%d" % (level + 1)]
            self.maxdepth = max(self.maxdepth, depth + 1)
            it2 = self.typed_call(cls2.items, self.info[level + 1]["items"], A(N(nv), "items"), A(N(nv), self.info[level + 1]["items_out"]), nv, True)
            return tc.op_call(self.r, it, "SelectMany", lam(nv, it2[0])), call(A(it_x, "SelectMany"), [lam(nv, it2[1])])
        inner = self.body(level + 1, depth + 1, nv)
        if k == "wherecount":
            cond = gen.cmp(ast.Gt, inner[0], C(0)), gen.cmp(ast.Gt, inner[1], C(0))
            return (call(A(tc.op_call(self.r, it, "Where", lam(nv, cond[0]), 0.6), "Count"), []),
                    call(A(call(A(it_x, "Where"), [lam(nv, cond[1])]), "Count"), []))
        if k == "where":
            cond = gen.cmp(ast.Gt, inner[0], C(0)), gen.cmp(ast.Gt, inner[1], C(0))
            it, it_x = tc.op_call(self.r, it, "Where", lam(nv, cond[0]), 0.5), call(A(it_x, "Where"), [lam(nv, cond[1])])
            nv2 = self.var(depth + 1)
            inner = self.body(level + 1, depth + 1, nv2)
            return tc.op_call(self.r, it, "Select", lam(nv2, inner[0])), call(A(it_x, "Select"), [lam(nv2, inner[1])])
        return tc.op_call(self.r, it, "Select", lam(nv, inner[0])), call(A(it_x, "Select"), [lam(nv, inner[1])])


def whole_queries(ctx):
    n_models = ctx.budget(10, 120)
    per = ctx.budget(120, 400)
    for mi in range(n_models):
        desc, info = gen_model(ctx.rng)
        model = tc.Model(desc)
        w = model.world_sx()
        item = model.ev("L0")
        item_sx = model.ty_sx(item)
        qs = []
        for qi in range(per):
            g = QueryGen(ctx.rng, model, info, reuse_names=(qi % 2 == 0))
            v = g.var(0)
            b, bx = g.body(0, 0, v)
            if g.sites == 0:
                continue
            qs.append((lam(v, b), lam(v, bx), g))
        answers = ctx.driver.call("op", [tc.model_requests(w, "Select", item_sx, q) for q, _, _ in qs])
        # the queries that call the registered function, again as Python callables written in a generated module in which
        # that function has a real body: a registered function is a backend function, the call stays by name and is
        # normalised like any other (F54)
        body = {"fn": "%s * 2.0" % info["fn"][0][0]}
        cqs, seen = [], set()
        for q, qx, g in qs:
            if tc.callable_form_ok(q, body) and ast.dump(q) not in seen and len(cqs) < ctx.budget(10, 40):
                seen.add(ast.dump(q))
                cqs.append((q, qx, g))
        todo = [(q, qx, g, ans, "ast") for (q, qx, g), ans in zip(qs, answers)]
        if cqs:
            crun = tc.callable_runner(ctx.rng, model, desc, [("Select", q) for q, _, _ in cqs], body)
            amap = {ast.dump(q): ans for (q, _, _), ans in zip(qs, answers)}
            todo += [(q, qx, g, amap[ast.dump(q)], "callable") for q, qx, g in cqs]
        for q, qx, g, ans, form in todo:
            ctx.evaluations += 1
            ctx.corr_cases += 1
            ctx.distinct.add(ast.dump(q))
            ctx.count("depth_reached", str(g.maxdepth))
            ctx.count("typed_call_sites", str(min(g.sites, 8)))
            ctx.count("form", form)
            impl = tc.run_impl(model, "Select", item, q) if form == "ast" else crun(model, "Select", item, q)
            mod = tc.parse_model_answer(ans)
            ctx.count("whole_query", impl[0])
            ok, what = True, ""
            if g.must_refuse:
                if impl[0] != "refuse":
                    ok, what = False, "a required parameter is missing but the query is accepted: %s" % tc.show(impl)[:200]
            else:
                if impl[0] != "ok":
                    ok, what = False, "query refused/crashed: %s" % tc.show(impl)[:200]
                elif impl[6] != ast.dump(qx):
                    ok, what = False, "emitted %s ; Signature.bind().apply_defaults() at every typed call site gives %s" % (
                        ast.unparse(bridge.from_sx(impl[1])), ast.unparse(qx))
            wit = {"kind": "query", "desc": desc, "query_dump": ast.dump(q), "expect_dump": ast.dump(qx),
                   "must_refuse": g.must_refuse, "query": ast.unparse(q), "form": form, "body": body}
            if not ok:
                tag = "" if form == "ast" else "<python callable; registered function with the real body %s> " % body
                ctx.fail("failing-input", "%s%s: %s" % (tag, ast.unparse(q), what), dict(wit, oracle="bind"),
                         key=core.digest({"p": ID, "d": desc, "q": ast.dump(q), "form": form}))
            if not tc.same_outcome(impl, mod):
                ctx.corr_disagreements += 1
                if ok:
                    ctx.fail("no-failing-input-found", "correspondence stream_op vs ObjectStream.Select broke on %s: model %s, code %s"
                             % (ast.unparse(q), tc.show(mod)[:200], tc.show(impl)[:200]),
                             dict(wit, correspondence="stream_op", model=ans[:300], impl=tc.show(impl)[:300]))
            if len(ctx.samples) < 5 and g.maxdepth >= 2 and impl[0] == "ok":
                ctx.sample({"input": ast.unparse(q), "output": ast.unparse(bridge.from_sx(impl[1]))})


CORPUS = [  # witnesses of F09, F10, F20 over the hand-written model
    ("Event", "lambda e: e.Jets()", "lambda e: e.Jets('default', True)"),
    ("Event", "lambda e: e.Jets(calib=False)", "lambda e: e.Jets('default', False)"),
    ("Event", "lambda e: e.Jets().Select(lambda j: j.two(1))", None),
    ("Event", "lambda e: e.Jets().Select(lambda j: j.pt(scale=2.0))", "lambda e: e.Jets('default', True).Select(lambda j: j.pt(2.0, 'GeV', 7))"),
    ("Event", "lambda e: e.Jets().Select(lambda j: j.pt(unit='MeV'))", "lambda e: e.Jets('default', True).Select(lambda j: j.pt(1.0, 'MeV', 7))"),
    ("Event", "lambda e: e.Jets().Select(lambda j: j.trks().Select(lambda j: j.pt()))",
     "lambda e: e.Jets('default', True).Select(lambda j: j.trks('all').Select(lambda j: j.pt_new(1)))"),
    ("Event", "lambda e: e.Jets().Select(lambda e: e.pt())", "lambda e: e.Jets('default', True).Select(lambda e: e.pt(1.0, 'GeV', 7))"),
    ("Event", "lambda e: myf(c=5, a=e.met())", "lambda e: myf(e.met(), 10.0, 5)"),
    ("Event", "lambda e: g2(1)", None),
    ("Event", "lambda e: e.Jets().Select(lambda j: j.noann())", "lambda e: e.Jets('default', True).Select(lambda j: j.noann(1))"),
    ("Event", "lambda e: e.Jets().Where(filter=lambda j: j.pt(unit='MeV') > 5)",
     "lambda e: e.Jets('default', True).Where(lambda j: j.pt(1.0, 'MeV', 7) > 5)"),
    ("Event", "lambda e: e.Jets().Where(filter=lambda j: j.two(1) > 5)", None),
    ("Event", "lambda e: e.Jets().Where(filter=lambda j: j.pt() > 5).Select(f=lambda j: j.two(b=2, a=1))",
     "lambda e: e.Jets('default', True).Where(lambda j: j.pt(1.0, 'GeV', 7) > 5).Select(lambda j: j.two(1, 2))"),
    ("Event", "lambda e: e.Jets().SelectMany(func=lambda j: j.trks())",
     "lambda e: e.Jets('default', True).SelectMany(lambda j: j.trks('all'))"),
    ("Event", "lambda e: e.Jets().Select(lambda j: j.trks().Where(filter=lambda t: t.pt() > 1).Count())",
     "lambda e: e.Jets('default', True).Select(lambda j: j.trks('all').Where(lambda t: t.pt_new(1) > 1).Count())"),
    ("Event", "lambda e: e.Jets().Where(lambda j: j.pt(unit='x') > 1).Select(lambda j: j.two(b=2, a=1))",
     "lambda e: e.Jets('default', True).Where(lambda j: j.pt(1.0, 'x', 7) > 1).Select(lambda j: j.two(1, 2))"),
]


def corpus(ctx):
    model = tc.Model(tc.BASIC)
    w = model.world_sx()
    rows = []
    for it, src, want in CORPUS:
        rows.append(tc.model_requests(w, "Select", model.ty_sx(model.ev(it)), tc.as_lambda(src)))
    answers = ctx.driver.call("op", rows)
    for (it, src, want), ans in zip(CORPUS, answers):
        ctx.evaluations += 1
        ctx.corr_cases += 1
        impl = tc.run_impl(model, "Select", model.ev(it), tc.as_lambda(src))
        mod = tc.parse_model_answer(ans)
        ok = True
        if want is None:
            if impl[0] != "refuse":
                ok, what = False, "missing required parameter accepted: %s" % tc.show(impl)[:200]
        elif impl[0] != "ok" or impl[6] != ast.dump(tc.as_lambda(want)):
            ok, what = False, "got %s, the property requires %s" % (tc.show(impl)[:200], want)
        wit = {"kind": "corpus", "src": src}
        if not ok:
            ctx.fail("failing-input", "%s: %s" % (src, what), dict(wit, oracle="bind"), key=core.digest({"p": ID, "src": src}))
        if not tc.same_outcome(impl, mod):
            ctx.corr_disagreements += 1
            if ok:
                ctx.fail("no-failing-input-found", "correspondence broke on corpus case %s: model %s, code %s" % (
                    src, tc.show(mod)[:200], tc.show(impl)[:200]), dict(wit, correspondence="stream_op"))


def run(ctx):
    corpus(ctx)
    fill_direct(ctx)
    whole_queries(ctx)


def replay(ctx, wit):
    if wit.get("kind") == "fill":
        fill_direct(ctx)
    elif wit.get("kind") == "corpus":
        corpus(ctx)
    else:
        model = tc.Model(wit["desc"])
        w = model.world_sx()
        q = eval(wit["query_dump"], dict(vars(ast)))
        qx = eval(wit["expect_dump"], dict(vars(ast)))
        item = model.ev("L0")
        if wit.get("form", "ast") == "callable":
            impl = tc.callable_runner(ctx.rng, model, wit["desc"], [("Select", q)], wit["body"])(model, "Select", item, q)
        else:
            impl = tc.run_impl(model, "Select", item, q)
        bad = (impl[0] != "refuse") if wit["must_refuse"] else (impl[0] != "ok" or impl[6] != ast.dump(qx))
        if bad:
            ctx.fail("failing-input", "still fails: %s -> %s" % (wit["query"], tc.show(impl)[:200]), wit,
                     key=core.digest({"p": ID, "d": wit["desc"], "q": wit["query_dump"]}))

"""Reference evaluation for C06 (shared with nobody).

* the *original* expression (comprehensions, constructor calls) is evaluated by CPython itself:
  the tree is unparsed to source, re-parsed and ``eval``-ed, so scoping of comprehension targets,
  order and short circuit of ``if`` clauses and argument binding are CPython's;
* the *lowered* query is evaluated by ``Interp`` below, a small tree-walking interpreter of the
  query language written for this purpose (environments are explicit chains, lambdas are closures
  over the environment in which they are met, ``Select``/``Where`` are list map / filter both as
  functions and as methods of ``Seq``).  It shares no code with the library or with CPython's
  comprehension machinery: it does not know what a comprehension is.

Opaque classes (dataclass / NamedTuple constants) cannot be written as source; they are replaced by
fresh global names bound in the evaluation environment (``lift_constants``).
"""
from __future__ import annotations

import ast
import copy
import dataclasses
import operator
import types
from typing import Any, Dict


class Seq(list):
    """A sequence with the two LINQ operators the lowering emits (method form)."""

    def Select(self, f):
        return Seq([f(v) for v in self])

    def Where(self, f):
        return Seq([v for v in self if f(v)])


def Select(seq, f):
    return Seq([f(v) for v in seq])


def Where(seq, f):
    return Seq([v for v in seq if f(v)])


class Rec:
    """A record with attributes (an event / a jet)."""

    def __init__(self, **kw):
        self.__dict__.update(kw)

    def __repr__(self):
        return "Rec(%s)" % ", ".join("%s=%r" % kv for kv in sorted(self.__dict__.items()))


def norm(v: Any) -> Any:
    """Comparable form: every sequence (list, Seq, tuple is kept apart, generator) becomes a list;
    dataclass / NamedTuple instances and dicts become ('rec', sorted items)."""
    if isinstance(v, types.GeneratorType):
        return [norm(x) for x in v]
    if dataclasses.is_dataclass(v) and not isinstance(v, type):
        return ("rec", {f.name: norm(getattr(v, f.name)) for f in dataclasses.fields(v)})
    if isinstance(v, tuple) and hasattr(v, "_fields"):
        return ("rec", {k: norm(getattr(v, k)) for k in v._fields})
    if isinstance(v, dict):
        return ("rec", {k: norm(x) for k, x in v.items()})
    if isinstance(v, tuple):
        return ("tuple", [norm(x) for x in v])
    if isinstance(v, list):
        return [norm(x) for x in v]
    if isinstance(v, Rec):
        return ("Rec", {k: norm(x) for k, x in sorted(v.__dict__.items())})
    return v


def rec_leq(low: Any, orig: Any) -> bool:
    """``low`` (lowered result) agrees with ``orig`` (CPython result): equal, except that a record
    coming from a lowered dictionary may lack the fields the call did not give (defaults are not
    materialised by the lowering; the property speaks of the arguments given)."""
    if isinstance(low, tuple) and isinstance(orig, tuple) and len(low) == 2 and len(orig) == 2 \
            and low[0] == orig[0] and isinstance(low[1], dict) and isinstance(orig[1], dict):
        if low[0] == "rec":
            return all(k in orig[1] and rec_leq(v, orig[1][k]) for k, v in low[1].items())
        return low[1].keys() == orig[1].keys() and all(rec_leq(low[1][k], orig[1][k]) for k in low[1])
    if isinstance(low, tuple) and isinstance(orig, tuple) and len(low) == 2 and low[0] == orig[0] == "tuple":
        return len(low[1]) == len(orig[1]) and all(rec_leq(a, b) for a, b in zip(low[1], orig[1]))
    if isinstance(low, list) and isinstance(orig, list):
        return len(low) == len(orig) and all(rec_leq(a, b) for a, b in zip(low, orig))
    return type(low) is type(orig) and low == orig


def lift_constants(e: ast.AST):
    """Replace Constant nodes holding non-literal values by global names; returns (tree, bindings)."""
    binds: Dict[str, Any] = {}

    class L(ast.NodeTransformer):
        def visit_Constant(self, n):
            v = n.value
            if v is None or v is Ellipsis or isinstance(v, (bool, int, float, complex, str, bytes)):
                return n
            name = "__const_%d" % len(binds)
            binds[name] = v
            return ast.Name(id=name, ctx=ast.Load())

    return L().visit(copy.deepcopy(e)), binds


class _Force(ast.NodeTransformer):
    """Force every generator expression where it is created: ``(g)`` -> ``__force((g))``.
    The generator is still CPython's own; only its consumption is immediate, because the query
    language has no lazy values (a lazy generator consumed after its enclosing loop has ended would
    see the *last* value of the enclosing target - late binding, outside the property)."""

    def visit_GeneratorExp(self, n):
        n = self.generic_visit(n)
        return ast.Call(func=ast.Name(id="__force", ctx=ast.Load()), args=[n], keywords=[])


def cpython_eval(e: ast.AST, env: Dict[str, Any]) -> Any:
    """Evaluate with CPython, going through source text."""
    t, binds = lift_constants(e)
    t = _Force().visit(t)
    src = ast.unparse(ast.fix_missing_locations(t))
    code = compile(ast.parse(src, mode="eval"), "<original>", "eval")
    g = {"__force": lambda it: Seq(it), "Select": Select, "Where": Where, "len": len, "sum": sum, "any": any, "all": all, "abs": abs,
         "__builtins__": {}}
    g.update(binds)
    g.update(env)
    return eval(code, g)


# ---------------------------------------------------------------- the small interpreter

class Env:
    def __init__(self, frame: Dict[str, Any], parent: "Env" = None):
        self.frame = frame
        self.parent = parent

    def get(self, k: str):
        e = self
        while e is not None:
            if k in e.frame:
                return e.frame[k]
            e = e.parent
        raise NameError(k)


class NotInLanguage(Exception):
    pass


_BIN = {ast.Add: operator.add, ast.Sub: operator.sub, ast.Mult: operator.mul, ast.FloorDiv: operator.floordiv,
        ast.Mod: operator.mod}
_CMP = {ast.Eq: operator.eq, ast.NotEq: operator.ne, ast.Lt: operator.lt, ast.LtE: operator.le,
        ast.Gt: operator.gt, ast.GtE: operator.ge}
_FUNS = {"len": len, "sum": sum, "any": any, "all": all, "abs": abs}


class Interp:
    """Evaluates lowered queries.  Comprehension nodes are *not* in its language."""

    def ev(self, n: ast.AST, E: Env) -> Any:
        t = type(n)
        if t is ast.Name:
            if n.id in _FUNS:
                try:
                    return E.get(n.id)
                except NameError:
                    return _FUNS[n.id]
            return E.get(n.id)
        if t is ast.Constant:
            return n.value
        if t is ast.Attribute:
            v = self.ev(n.value, E)
            if isinstance(v, dict):
                return v[n.attr]
            return getattr(v, n.attr)
        if t is ast.Lambda:
            ps = [a.arg for a in n.args.args]

            def closure(*vals, _n=n, _E=E, _ps=ps):
                if len(vals) != len(_ps):
                    raise TypeError("arity")
                return self.ev(_n.body, Env(dict(zip(_ps, vals)), _E))
            return closure
        if t is ast.Call:
            if n.keywords:
                raise NotInLanguage("keyword call")
            f = n.func
            if isinstance(f, ast.Attribute) and f.attr in ("Select", "Where"):
                seq = self.ev(f.value, E)
                (fn,) = [self.ev(a, E) for a in n.args]
                if f.attr == "Select":
                    return Seq([fn(v) for v in seq])
                return Seq([v for v in seq if fn(v)])
            if isinstance(f, ast.Name) and f.id in ("Select", "Where"):
                seq, fn = [self.ev(a, E) for a in n.args]
                if f.id == "Select":
                    return Seq([fn(v) for v in seq])
                return Seq([v for v in seq if fn(v)])
            fv = self.ev(f, E)
            return fv(*[self.ev(a, E) for a in n.args])
        if t is ast.BinOp:
            return _BIN[type(n.op)](self.ev(n.left, E), self.ev(n.right, E))
        if t is ast.UnaryOp:
            v = self.ev(n.operand, E)
            if isinstance(n.op, ast.Not):
                return not v
            if isinstance(n.op, ast.USub):
                return -v
            raise NotInLanguage("unary")
        if t is ast.BoolOp:
            v = None
            for x in n.values:
                v = self.ev(x, E)
                if isinstance(n.op, ast.And) and not v:
                    return v
                if isinstance(n.op, ast.Or) and v:
                    return v
            return v
        if t is ast.Compare:
            left = self.ev(n.left, E)
            for op, r in zip(n.ops, n.comparators):
                right = self.ev(r, E)
                if not _CMP[type(op)](left, right):
                    return False
                left = right
            return True
        if t is ast.IfExp:
            return self.ev(n.body, E) if self.ev(n.test, E) else self.ev(n.orelse, E)
        if t is ast.Tuple:
            return tuple(self.ev(x, E) for x in n.elts)
        if t is ast.List:
            return [self.ev(x, E) for x in n.elts]
        if t is ast.Dict:
            d = {}
            for k, v in zip(n.keys, n.values):
                d[self.ev(k, E)] = self.ev(v, E)
            return d
        if t is ast.Subscript:
            return self.ev(n.value, E)[self.ev(n.slice, E)]
        raise NotInLanguage(t.__name__)


def lowered_eval(e: ast.AST, env: Dict[str, Any]) -> Any:
    return Interp().ev(e, Env(dict(env)))

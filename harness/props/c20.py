"""C20 - the query hash identifies structure and nothing else (func_adl/ast/ast_hash.py: calc_ast_hash)."""
from __future__ import annotations

import ast
import base64
import copy
import io
import json
import os
import pickle
import shutil
import subprocess
import sys
import tokenize

import bridge
import core
import hash_common as hc

ID = "C20"
TAG = "hash"
EXTRACT = "FA/Extract/ExtractHash.v"
DRIVER = "driver_hash.ml"
COQ_FILES = ["FA/Proofs/HashLex.v", "FA/Proofs/HashProofs.v", "FA/Properties/C20.v"]

LEVEL = ("Coq theorems over an executable transcription of CPython 3.12 ast.dump (default options) and calc_ast_hash: "
         "dump_injective (character level: the dump string determines the field-level structure, for all well-formed trees, "
         "any depth, any strings incl. quotes/escapes/non-ASCII), dump_raw_iff (ast.dump of two raw nodes is equal exactly "
         "when their erasures - fields present and not None-by-default, no attributes - are equal), hash_complete, "
         "hash_sound_if (relative to md5 being injective on the two dumps), hash_ignores_attrs, single-edit instances; "
         "the model is compared character for character with CPython's ast.dump and with the implementation's calc_ast_hash.")
TRUSTED = ["Coq 8.16.1 kernel (coqc); no axioms (Print Assumptions: closed under the global context)",
           "extraction: ExtrOcamlBasic + ExtrOcamlNativeString; ocaml/driver_hash.ml (raw-tree codec, code point <-> N, OCaml Digest as md5)",
           "harness/props/hash_common.py: ast -> raw tree codec (reads _fields, getattr, class defaults; never calls ast.dump), "
           "structural key of the oracles, generators and edits",
           "CPython's str.isprintable supplies the Unicode printable predicate for code points >= 128 (a Section variable in the theorems)"]
ASSUME = ["md5 collision freedom cannot be proved (it is false in principle): the 'only if' direction (equal hash => equal structure) "
          "is stated relative to md5 being injective on the two dump strings (hash_sound_if)",
          "float and complex constants are opaque repr tokens (well-formedness: characters of CPython's float/complex repr)",
          "ints are below CPython's int->str digit limit (4300 digits), above which ast.dump itself raises",
          "class and field names are ASCII identifiers (true of every class of the ast module)"]
RULE = ("trees: parsed source corpus (expressions, statements, lambdas, comprehensions, f-strings, slices, match, type params), "
        "adversarial str/bytes/int/float/complex atoms, nodes with missing/None optional fields and raw values in node slots, all "
        "trees of the C20 grammar to size N, seeded random query expressions, each also with executor/metadata/position attributes; "
        "pairs: formatting variants, three ways of supplying a lambda, two interpreter processes, attribute-decorated copies (must "
        "hash equal) and single edits (must hash differently); distinct = distinct structural keys")


# ---------------------------------------------------------------- implementation side

def impl_hash(t):
    from func_adl.ast.ast_hash import calc_ast_hash

    try:
        return calc_ast_hash(t)
    except Exception as ex:  # noqa
        return "exc:" + type(ex).__name__


def pk(t) -> str:
    return base64.b64encode(pickle.dumps(t)).decode()


def unpk(s: str):
    return pickle.loads(base64.b64decode(s))


def show(t) -> str:
    try:
        return ast.dump(t)[:400]
    except Exception as ex:  # noqa
        return "<undumpable %s>" % type(ex).__name__


# ---------------------------------------------------------------- attribute decoration

class _Exec:
    """Stands for an executor / dataset object hung on a node."""

    def __init__(self, tag):
        self.tag = tag

    def __reduce__(self):
        return (_Exec, (self.tag,))


def decorate(t, rng):
    c = copy.deepcopy(t)
    nodes = [n for n in ast.walk(c)]
    for n in rng.sample(nodes, min(len(nodes), 1 + rng.randrange(3))):
        k = rng.randrange(5)
        if k == 0:
            setattr(n, "_func_adl_executor", _Exec("executor%d" % rng.randrange(100)))
        elif k == 1:
            setattr(n, "_q_metadata", {"k": rng.randrange(100), "nested": {"a": [1, 2]}})
        elif k == 2:
            setattr(n, "_eds_object", _Exec("dataset"))
        elif k == 3:
            n.lineno = rng.randrange(1, 1000)
            n.col_offset = rng.randrange(0, 80)
            n.end_lineno = n.lineno + rng.randrange(3)
            n.end_col_offset = rng.randrange(0, 80)
        else:
            setattr(n, "_old_ast", "x")
            setattr(n, "_ignore", True)
    return c


# ---------------------------------------------------------------- formatting variants

def variants(src: str):
    out = ["(" + src + ")", "(\n    " + src + "  # a comment\n)", "((" + src + "\n))", src + "   \t",
           "(" + src + ")  # trailing comment"]
    if "'" not in src and '"' not in src:
        out.append(src.replace(",", " ,\t").replace("(", "( ").replace("[", "[  "))
    try:
        toks = [t.string for t in tokenize.generate_tokens(io.StringIO(src).readline)
                if t.type not in (tokenize.NEWLINE, tokenize.NL, tokenize.ENDMARKER, tokenize.INDENT, tokenize.DEDENT, tokenize.COMMENT)]
        if not any(t.type in (getattr(tokenize, "FSTRING_START", -1),) for t in tokenize.generate_tokens(io.StringIO(src).readline)):
            out.append("(\n" + "  \n ".join(toks) + "\n)")
    except Exception:  # noqa
        pass
    return out


# ---------------------------------------------------------------- three ways of supplying a lambda / two processes

LAMBDAS = [
    ("Select", "lambda e: e.jets"),
    ("Select", "lambda e: e.jets.Select(lambda j: j.pt / 1000.0)"),
    ("Where", "lambda e: e.met > 30 and e.jets.Count() >= 2"),
    ("SelectMany", "lambda e: e.jets"),
    ("Select", "lambda e: (e.met, e.jets.Where(lambda j: abs(j.eta) < 2.5).Count())"),
    ("Select", "lambda e: {'pt': e.jets.Select(lambda j: j.pt), 'n': e.jets.Count()}"),
    ("Select", "lambda e: e.Jets('AntiKt4').First().pt if e.n > 0 else -1"),
    ("Select", "lambda e: e.jets.Select(lambda j: e.tracks.Where(lambda t: t.dr(j) < 0.4).Count())"),
]

MOD_TEMPLATE = '''import ast
from func_adl import EventDataset


class DS(EventDataset):
    async def execute_result_async(self, a, title=None):
        return a


def by_callable_%(i)d():
    return DS().%(op)s(%(lam)s).query_ast


def by_callable_spread_%(i)d():
    return (
        DS()
        .%(op)s(
            %(lam)s  # trailing comment
        )
        .query_ast
    )


def by_string_%(i)d():
    return DS().%(op)s(%(lam)r).query_ast


def by_ast_%(i)d():
    return DS().%(op)s(ast.parse(%(lam)r).body[0].value).query_ast

'''

RUNNER = '''import sys, json
sys.path.insert(0, %(work)r)
import ast
from func_adl.ast.ast_hash import calc_ast_hash
out = {}
for i, src in enumerate(json.load(open(%(srcs)r))):
    try:
        out["src%%d" %% i] = calc_ast_hash(ast.parse(src))
    except Exception as ex:
        out["src%%d" %% i] = "exc:" + type(ex).__name__
for k in range(%(nmods)d):
    m = __import__("c20mod_%%d" %% k)
    for way in ("callable", "callable_spread", "string", "ast"):
        try:
            out["%%s%%d" %% (way, k)] = calc_ast_hash(getattr(m, "by_%%s_%%d" %% (way, k))())
        except Exception as ex:
            out["%%s%%d" %% (way, k)] = "exc:" + type(ex).__name__
print(json.dumps(out))
'''


def ways_and_processes(ctx):
    work = os.path.join(core.WORK, "%s-%d" % (TAG, os.getpid()))
    os.makedirs(work, exist_ok=True)
    try:
        for i, (op, lam_s) in enumerate(LAMBDAS):
            with open(os.path.join(work, "c20mod_%d.py" % i), "w") as fh:
                fh.write(MOD_TEMPLATE % {"i": i, "op": op, "lam": lam_s})
        srcs = [s for s in hc.EXPR_CORPUS + hc.STMT_CORPUS]
        with open(os.path.join(work, "srcs.json"), "w") as fh:
            json.dump(srcs, fh)
        runner = os.path.join(work, "runner.py")
        with open(runner, "w") as fh:
            fh.write(RUNNER % {"work": work, "srcs": os.path.join(work, "srcs.json"), "nmods": len(LAMBDAS)})
        results = []
        for seed in ("1", "2", "random"):
            env = dict(os.environ, PYTHONHASHSEED=seed)
            p = subprocess.run([sys.executable, runner], stdout=subprocess.PIPE, stderr=subprocess.PIPE, text=True, env=env, timeout=600)
            if p.returncode != 0:
                raise core.MachineryError("C20 subprocess failed: " + p.stderr[-600:])
            results.append(json.loads(p.stdout.strip().splitlines()[-1]))
        r0 = results[0]
        # process independence
        for k in sorted(r0):
            ctx.evaluations += 1
            vals = [r[k] for r in results]
            if len(set(vals)) != 1 or vals[0].startswith("exc:") and not k.startswith("src"):
                ctx.fail("failing-input", "calc_ast_hash of %s differs between interpreter processes (PYTHONHASHSEED 1/2/random): %s" % (k, vals),
                         {"oracle": "process", "case": k}, key=core.digest({"p": ID, "o": "process", "k": k}))
        # in-process value equals the other processes' value
        for i, src in enumerate(srcs):
            ctx.evaluations += 1
            h = impl_hash(ast.parse(src))
            if h != r0["src%d" % i]:
                ctx.fail("failing-input", "calc_ast_hash(parse(%r)) differs between this process and a fresh one: %s vs %s" % (src, h, r0["src%d" % i]),
                         {"oracle": "process", "case": "src%d" % i}, key=core.digest({"p": ID, "o": "process2", "k": i}))
        # the way the lambda is supplied
        for i, (op, lam_s) in enumerate(LAMBDAS):
            ctx.evaluations += 1
            hs = {w: r0["%s%d" % (w, i)] for w in ("callable", "callable_spread", "string", "ast")}
            ctx.count("three_ways", "equal" if len(set(hs.values())) == 1 else "differ")
            if len(set(hs.values())) != 1:
                ctx.fail("failing-input", "hash of .%s(%s) depends on how the lambda is supplied: %s" % (op, lam_s, hs),
                         {"oracle": "threeway", "case": i}, key=core.digest({"p": ID, "o": "threeway", "k": i}))
    finally:
        shutil.rmtree(work, ignore_errors=True)


# ---------------------------------------------------------------- the run

def build_pool(ctx):
    rng = ctx.rng
    pool = []          # (origin, tree)
    for t in hc.parsed_corpus():
        pool.append(("parsed", t))
    for t in hc.atom_pool():
        pool.append(("atoms", t))
    for t in hc.malformed_pool():
        pool.append(("malformed", t))
    en = hc.enum_pool(ctx.budget(3, 4))
    cap = ctx.budget(2500, 60000)
    if len(en) > cap:
        ctx.notes.append("enumeration to size %d has %d trees; seeded sample of %d" % (ctx.budget(3, 4), len(en), cap))
        en = rng.sample(en, cap)
    else:
        ctx.notes.append("enumeration to size %d exhaustive: %d trees" % (ctx.budget(3, 4), len(en)))
    pool += [("enum", t) for t in en]
    pool += [("random", t) for t in hc.random_pool(rng, ctx.budget(1500, 20000))]
    return pool


def run(ctx):
    rng = ctx.rng
    pool = build_pool(ctx)
    # attribute-decorated copies of a sample (also exercise the model's attribute slots)
    deco = []
    for origin, t in rng.sample(pool, min(len(pool), ctx.budget(800, 8000))):
        deco.append((t, decorate(t, rng)))
    # single edits
    edit_pairs = []
    for origin, t in rng.sample(pool, min(len(pool), ctx.budget(700, 6000))):
        es = hc.edits(t, rng)
        rng.shuffle(es)
        edit_pairs += es[:4]
    # order is structure: every order swap of these, always
    for src in ["f(a=1, b=2)", "Select(ds, lambda e: e.jets(cut=1, kind='x'))", "e.m(1, x=e.a, y=e.b, **k)", "{'a': 1, 'b': 2}", "(a, b)", "[1, 2, 3]",
                "{a, b}", "Select(ds, lambda e: {'x': e.a, 'y': e.b})", "ResultTTree(ds, ['a', 'b'], 't', 'f')", "f(g(x), y)", "a - b", "a < b"]:
        t = ast.parse(src, mode="eval").body
        edit_pairs += [e for e in hc.edits(t, rng) if e[0].startswith("swap-") or e[0] == "re-nest"]
    trees = [(o, t) for o, t in pool] + [("decorated", d) for _, d in deco]
    for k, a, b in edit_pairs:
        trees.append(("edited", a))
        trees.append(("edited", b))

    # ---- (1) model dump vs CPython ast.dump, (2) model hash vs implementation
    rows, kept = [], []
    for origin, t in trees:
        try:
            rows.append([hc.np_arg(t), hc.to_rsx(t)])
            kept.append((origin, t))
        except hc.Unsupported as ex:
            ctx.count("unsupported_raw_value", str(ex))
    dumps = ctx.driver.call("dump", rows)
    gdumps = ctx.driver.call("gdump", rows)
    hashes = ctx.driver.call("hash", rows)
    wfs = ctx.driver.call("wf", [[r[1]] for r in rows])
    by_hash = {}
    for (origin, t), d, g, h, w in zip(kept, dumps, gdumps, hashes, wfs):
        ctx.evaluations += 1
        ctx.corr_cases += 2
        ctx.count("origin", origin)
        ctx.count("wf_hypothesis", "holds" if w == "1" else "fails")
        key = hc.skey(t)
        ctx.distinct.add(key)
        want = ast.dump(t)
        got = hc.text_of(d) if not d.startswith("FAIL") else d
        if got != want or d != g:
            ctx.corr_disagreements += 1
            ctx.fail("no-failing-input-found",
                     "correspondence dump (Model/Hash.v) vs CPython ast.dump broke on %s: model %r, ast.dump %r" % (origin, got[:300], want[:300]),
                     {"correspondence": "dump", "tree": pk(t), "model": got, "ast_dump": want})
        ih = impl_hash(t)
        ctx.count("impl_result", "hash" if not ih.startswith("exc:") else ih)
        mh = h[3:] if h.startswith("OK ") else ("exc:UnicodeEncodeError" if h == "NONE" else h)
        if ih.startswith("exc:") and w == "1":
            # totality (F47): every well-formed tree has a hash - any character of a constant or a name
            ctx.fail("failing-input", "calc_ast_hash raises %s on %s (dump %r)" % (ih[4:], origin, want[:120]),
                     {"oracle": "total", "tree": pk(t), "dump": show(t)}, key=core.digest({"p": ID, "total": key}))
        if mh != ih:
            ctx.corr_disagreements += 1
            ctx.fail("no-failing-input-found",
                     "correspondence hash (Model/Hash.v) vs calc_ast_hash broke on %s: model %s, code %s" % (show(t), mh, ih),
                     {"correspondence": "hash", "tree": pk(t), "model": mh, "impl": ih, "dump": show(t)})
        if not ih.startswith("exc:"):
            by_hash.setdefault(ih, []).append((key, t))

    # ---- oracle A: over the whole pool, equal hash <=> equal structure
    by_key = {}
    for h, items in by_hash.items():
        k0, t0 = items[0]
        for k, t in items[1:]:
            ctx.evaluations += 1
            if k != k0:
                ctx.fail("failing-input", "two structurally different trees have the same hash %s: %s  /  %s" % (h, show(t0), show(t)),
                         {"oracle": "pair", "expect": "differ", "a": pk(t0), "b": pk(t), "a_dump": show(t0), "b_dump": show(t)},
                         key=core.digest({"p": ID, "a": repr(k0), "b": repr(k)}))
                break
        for k, t in items:
            by_key.setdefault(k, (h, t))
            if by_key[k][0] != h:
                ctx.fail("failing-input", "structurally identical trees hash differently: %s" % show(t),
                         {"oracle": "pair", "expect": "equal", "a": pk(by_key[k][1]), "b": pk(t), "a_dump": show(t), "b_dump": show(t)},
                         key=core.digest({"p": ID, "eq": repr(k)}))

    # ---- oracle B: attributes do not matter
    for t, d in deco:
        ctx.evaluations += 1
        if impl_hash(t) != impl_hash(d):
            ctx.fail("failing-input", "hash changes when non-field attributes (executor / metadata / positions) are attached: %s" % show(t),
                     {"oracle": "pair", "expect": "equal", "a": pk(t), "b": pk(d), "a_dump": show(t), "b_dump": show(d)},
                     key=core.digest({"p": ID, "attr": repr(hc.skey(t))}))
            break

    # ---- oracle C: single edits change the hash
    for kind, a, b in edit_pairs:
        ctx.evaluations += 1
        ka, kb = hc.skey(a), hc.skey(b)
        if ka == kb:
            ctx.count("edit", kind + " (no-op)")
            continue
        ctx.count("edit", kind)
        ha, hb = impl_hash(a), impl_hash(b)
        if ha.startswith("exc:") or hb.startswith("exc:"):
            continue
        if ha == hb:
            ctx.fail("failing-input", "single edit (%s) does not change the hash: %s  ->  %s" % (kind, show(a), show(b)),
                     {"oracle": "pair", "expect": "differ", "a": pk(a), "b": pk(b), "a_dump": show(a), "b_dump": show(b), "edit": kind},
                     key=core.digest({"p": ID, "a": repr(ka), "b": repr(kb)}))

    # ---- oracle C': the hash follows an edit made IN PLACE on a tree that was hashed before (no identity-keyed cache),
    #      and goes back when the edit is undone
    import ast as _ast
    from func_adl.ast.ast_hash import calc_ast_hash as _calc
    for src in hc.EXPR_CORPUS[:40]:
        try:
            t = _ast.parse(src, mode="eval").body
        except SyntaxError:
            continue
        names = [n for n in _ast.walk(t) if isinstance(n, _ast.Name)]
        consts = [n for n in _ast.walk(t) if isinstance(n, _ast.Constant) and isinstance(n.value, (int, str)) and not isinstance(n.value, bool)]
        if not names and not consts:
            continue
        ctx.evaluations += 1
        try:
            h0 = _calc(t)
            if names:
                node, old_v = names[0], names[0].id
                node.id = old_v + "_x"
            else:
                node, old_v = consts[0], consts[0].value
                node.value = (old_v + 1) if isinstance(old_v, int) else old_v + "x"
            h1 = _calc(t)
            fresh = _calc(_ast.parse(_ast.unparse(t), mode="eval").body)
            if names:
                node.id = old_v
            else:
                node.value = old_v
            h2 = _calc(t)
        except ValueError:
            continue
        ctx.count("edit", "in-place")
        if h1 == h0 or h1 != fresh or h2 != h0:
            ctx.fail("failing-input", "hash of a tree edited in place after it was hashed once: before %s, after the edit %s (a freshly built "
                     "copy of the edited tree gives %s), after undoing %s: %r" % (h0, h1, fresh, h2, src),
                     {"oracle": "in-place-edit", "src": src}, key=core.digest({"p": ID, "inplace": src}))
            break

    # ---- oracle D: formatting variants of the same source
    for src in hc.EXPR_CORPUS:
        base = ast.parse(src, mode="eval").body
        hb = impl_hash(base)
        for v in variants(src):
            try:
                tv = ast.parse(v, mode="eval").body
            except SyntaxError:
                ctx.count("variants", "unparsable")
                continue
            ctx.evaluations += 1
            if hc.skey(tv) != hc.skey(base):
                ctx.count("variants", "different structure")     # e.g. parenthesised yield/starred
                continue
            ctx.count("variants", "same structure")
            if impl_hash(tv) != hb:
                ctx.fail("failing-input", "formatting variant hashes differently: %r vs %r" % (src, v),
                         {"oracle": "format", "src": src, "variant": v}, key=core.digest({"p": ID, "fmt": src, "v": v}))
    # unparse round trip: same structure <=> same hash
    for origin, t in rng.sample(pool, min(len(pool), ctx.budget(400, 4000))):
        try:
            t2 = ast.parse(ast.unparse(t), mode="eval").body
        except Exception:  # noqa
            continue
        ctx.evaluations += 1
        same = hc.skey(t) == hc.skey(t2)
        ctx.count("unparse_roundtrip", "same structure" if same else "different structure")
        h1, h2 = impl_hash(t), impl_hash(t2)
        if h1.startswith("exc:") or h2.startswith("exc:"):
            continue
        if (h1 == h2) != same:
            ctx.fail("failing-input", "hash equality disagrees with structural equality on %s vs its re-parse" % show(t),
                     {"oracle": "pair", "expect": "equal" if same else "differ", "a": pk(t), "b": pk(t2), "a_dump": show(t), "b_dump": show(t2)},
                     key=core.digest({"p": ID, "rt": repr(hc.skey(t))}))

    # ---- oracle E: three ways of supplying a lambda; several interpreter processes
    ways_and_processes(ctx)

    for origin, t in [pool[0], pool[9], pool[-1]] + [("edited", edit_pairs[0][1]), ("edited", edit_pairs[0][2])] if edit_pairs else []:
        ctx.sample({"origin": origin, "dump": show(t), "hash": impl_hash(t)})


def replay(ctx, w):
    o = w.get("oracle")
    if o == "pair":
        a, b = unpk(w["a"]), unpk(w["b"])
        ha, hb = impl_hash(a), impl_hash(b)
        bad = (ha != hb) if w["expect"] == "equal" else (ha == hb)
        if bad:
            ctx.fail("failing-input", "still fails (%s expected): %s / %s -> %s / %s" % (w["expect"], show(a), show(b), ha, hb), w)
    elif o == "format":
        if impl_hash(ast.parse(w["src"], mode="eval").body) != impl_hash(ast.parse(w["variant"], mode="eval").body):
            ctx.fail("failing-input", "still fails: %r vs %r" % (w["src"], w["variant"]), w)
    elif o in ("process", "threeway"):
        ways_and_processes(ctx)
    elif o == "total":
        ih = impl_hash(unpk(w["tree"]))
        if ih.startswith("exc:"):
            ctx.fail("failing-input", "still fails: calc_ast_hash raises %s on %s" % (ih[4:], w.get("dump", "")[:200]), w)
    elif "correspondence" in w:
        t = unpk(w["tree"])
        row = [hc.np_arg(t), hc.to_rsx(t)]
        if w["correspondence"] == "dump":
            got = hc.text_of(ctx.driver.call("dump", [row])[0])
            if got != ast.dump(t):
                ctx.fail("no-failing-input-found", "correspondence dump still broken on %s" % show(t), w)
        else:
            h = ctx.driver.call("hash", [row])[0]
            mh = h[3:] if h.startswith("OK ") else "exc:UnicodeEncodeError"
            if mh != impl_hash(t):
                ctx.fail("no-failing-input-found", "correspondence hash still broken on %s: model %s code %s" % (show(t), mh, impl_hash(t)), w)

"""C12 - value() runs exactly the stream's query on its own dataset, once."""
from __future__ import annotations

import ast
import asyncio
import copy

import core
import stream_common as sc

ID = "C12"
TAG = "stream"
EXTRACT = "FA/Extract/ExtractStream.v"
DRIVER = "driver_stream.ml"
COQ_FILES = ["FA/Proofs/HeapFacts.v", "FA/Proofs/StreamFrame.v", "FA/Proofs/StreamWalk.v", "FA/Proofs/StreamQmd.v",
             "FA/Proofs/StreamParam.v", "FA/Proofs/StreamErase.v", "FA/Proofs/StreamExec.v", "FA/Proofs/StreamRoot.v",
             "FA/Properties/C12.v"]

LEVEL = ("Coq theorems over Model/Stream.v: no_exec_while_building (only ValueStart touches the executor log), value_routes_once "
         "(exactly one log entry: override if given else the executor on the args[0] spine; AST = remove_empty of the stream's own "
         "dump; the title; on an error nothing is invoked), value_returns_own / finish_only_own / result_has_finish (each call gets "
         "the result of its own Finish event under every interleaving and completion order), root_recoverable (every stream derived "
         "by any operations from dataset d: find_EventDataset gives d's node, _get_executor d's executor), bad_roots_rejected "
         "(0 roots -> error, >=2 roots -> error, 1 root -> found, for every tree). Tied to the code by comparing executor, AST, "
         "title, invocation count and delivered result/exception of every value()/value_async() call, incl. interleaved pending "
         "calls resolved in seeded orders, asyncio.gather, overrides, rootless and two-root hand-built streams.")
TRUSTED = sc.TRUSTED_COMMON
ASSUME = sc.ASSUME_COMMON
RULE = ("corpus + all histories of length <= N over a value-heavy alphabet (sync value, async start, finish returning and raising) "
        "+ seeded random histories + asyncio.gather scenarios + all small trees for remove_empty_metadata/find_EventDataset; "
        "non-trivial: >= 3 streams and a value operation; distinct by JSON")

ALPHABET = [
    {"op": "ds", "ty": "Any"},
    {"op": "der", "kind": "Select", "lam": "lambda e: e.x"},
    {"op": "md", "val": {}},
    {"op": "qmd", "kv": [["a", 2]]},
    {"op": "val", "ov": None, "title": "t", "res": ["X", "KeyError"]},
    {"op": "vs", "ov": None, "title": None},
    {"op": "vs", "ov": 0, "title": "o"},
    {"op": "vf", "res": ["R", "r1"]},
    {"op": "vf", "res": ["X", "RuntimeError"]},
]

CORPUS = [
    # two datasets, interleaved pending calls completed out of order, one raising
    [{"op": "ds", "ty": "Any"}, {"op": "ds", "ty": "Evt"}, {"op": "der", "s": 0, "kind": "Select", "lam": "lambda e: e.x"},
     {"op": "der", "s": 1, "kind": "SelectMany", "lam": "lambda e: e.jets_e()"}, {"op": "vs", "s": 2, "ov": None, "title": "first"},
     {"op": "vs", "s": 3, "ov": None, "title": None}, {"op": "vs", "s": 2, "ov": 1, "title": None},
     {"op": "md", "s": 3, "val": {}}, {"op": "vf", "c": 1, "res": ["R", "b"]}, {"op": "val", "s": 4, "ov": None, "title": None, "res": ["R", "now"]},
     {"op": "vf", "c": 1, "res": ["X", "RuntimeError"]}, {"op": "vf", "c": 0, "res": ["R", "a"]}],
    # QMetaData on the dataset root: the executor is found on the copied root node
    [{"op": "ds", "ty": "Any"}, {"op": "ds", "ty": "Any"}, {"op": "qmd", "s": 1, "kv": [["a", 2]]},
     {"op": "der", "s": 2, "kind": "Where", "lam": "lambda e: e.x > 1"}, {"op": "term", "s": 3, "m": "AsParquetFiles", "args": {"filename": "p"}},
     {"op": "val", "s": 4, "ov": None, "title": "q", "res": ["R", "r1"]}, {"op": "val", "s": 2, "ov": None, "title": None, "res": ["X", "KeyError"]}],
    # hand-built streams: no root, two roots, a lambda embedding another dataset's stream
    [{"op": "ds", "ty": "Any"}, {"op": "ds", "ty": "Any"}, {"op": "new", "src": "g(x)", "ty": "Any"},
     {"op": "new", "src": "Select(S0, lambda e: EventDataset())", "ty": "Any"}, {"op": "new", "src": "h(args)", "ty": "Any"},
     {"op": "new", "src": "Select(lambda e: e, S0)", "ty": "Any"},
     {"op": "val", "s": 2, "ov": None, "title": None, "res": ["R", "r1"]}, {"op": "val", "s": 3, "ov": None, "title": None, "res": ["R", "r1"]},
     {"op": "val", "s": 4, "ov": None, "title": None, "res": ["R", "r1"]}, {"op": "val", "s": 5, "ov": None, "title": None, "res": ["R", "r1"]},
     {"op": "val", "s": 2, "ov": 1, "title": None, "res": ["R", "r1"]},
     {"op": "der", "s": 0, "kind": "Select", "lam": "lambda e: S1", "prebuilt": True}, {"op": "val", "s": 6, "ov": None, "title": None, "res": ["R", "r1"]}],
    # MetaData whose dictionary is not a literal: the cleaner raises before any executor is called
    [{"op": "ds", "ty": "Any"}, {"op": "new", "src": "MetaData(S0, somename)", "ty": "Any"}, {"op": "md", "s": 0, "val": "notadict"},
     {"op": "val", "s": 1, "ov": None, "title": None, "res": ["R", "r1"]}, {"op": "val", "s": 2, "ov": None, "title": None, "res": ["R", "r1"]}],
]


def histories(ctx):
    hs = list(CORPUS)
    n = ctx.budget(4, 5)
    ex = sc.exhaustive_histories(ALPHABET, n)
    ctx.notes.append("exhaustive: %d histories of length <= %d over %d operation templates" % (len(ex), n, len(ALPHABET)))
    hs += ex
    for _ in range(ctx.budget(120, 1500)):
        hs.append(sc.random_history(ctx.rng, ctx.rng.randrange(4, 41)))
    return hs


# ---------------------------------------------------------------- asyncio.gather with seeded completion orders

def gather_oracle(ctx):
    """N streams over <=3 datasets awaited together; a resolver completes the N pending executor calls in a seeded
    order; every awaiter must get the result of ITS invocation, each executor invoked once per stream, in start order"""
    sc.quiet()
    rng = ctx.rng
    for trial in range(ctx.budget(25, 400)):
        n = rng.randrange(2, 7)
        r = sc.Runner([{"op": "ds", "ty": "Any"}, {"op": "ds", "ty": "Evt"}, {"op": "ds", "ty": "Any"}], observe_all=False)
        r.run()
        streams, want_ex = [], []
        for i in range(n):
            d = rng.randrange(3)
            s = r.streams[d]
            if rng.random() < 0.7:
                s = s.Select("lambda e: e.met()" if d == 1 else "lambda e: e.x%d" % i)
            if rng.random() < 0.4:
                s = s.MetaData({})
            if rng.random() < 0.3:
                s = s.QMetaData({"k": i + 2})
            streams.append(s)
            want_ex.append(("d", d))
        order = list(range(n))
        rng.shuffle(order)
        results = [["R", "res%d" % i] if rng.random() < 0.75 else ["X", rng.choice(sorted(sc.EXC))] for i in range(n)]
        started = {}          # stream index (from the title) -> the future its executor waits on

        async def executor_called(exid, a, title, r=r, started=started):
            # executors written as plain functions returning a Task start one loop iteration later than `async def`
            # ones: invocations are matched with their streams by title, not by the order in which they start
            r.glog.append((exid, a, title))
            fut = asyncio.get_running_loop().create_future()
            started[int(title[1:]) if title and title[1:].isdigit() and int(title[1:]) not in started else 1000 + len(started)] = fut
            return await fut
        r.executor_called = executor_called

        async def main():
            tasks = [asyncio.ensure_future(s.value_async(title="g%d" % i)) for i, s in enumerate(streams)]
            waiter = asyncio.gather(*tasks, return_exceptions=True)
            for _ in range(200):
                if len(started) + sum(1 for t in tasks if t.done()) >= n:
                    break
                await asyncio.sleep(0)
            for i in order:
                if i in started and not started[i].done():
                    if results[i][0] == "R":
                        started[i].set_result(results[i][1])
                    else:
                        started[i].set_exception(sc.EXC[results[i][1]]("scripted"))
                await asyncio.sleep(0)
            for k, extra in started.items():
                if k >= 1000 and not extra.done():
                    extra.set_result("extra")
            return await asyncio.wait_for(waiter, 5)
        sc._W = r
        got = asyncio.run(main())
        ctx.evaluations += 1
        got_n = [["X", type(g).__name__] if isinstance(g, BaseException) else ["R", g] for g in got]
        w = {"oracle": "gather", "n": n, "order": order, "results": results}
        if got_n != results:
            ctx.fail("failing-input", "asyncio.gather over %d streams, completion order %s: awaiters got %s, their executor "
                     "invocations produced %s" % (n, order, got_n, results), w, key="gather-results")
            return
        glog = sorted(r.glog, key=lambda x: int(x[2][1:]) if x[2] and x[2][1:].isdigit() else -1)   # by title = by stream
        if [e for e, _, _ in glog] != want_ex or [t for _, _, t in glog] != ["g%d" % i for i in range(n)]:
            ctx.fail("failing-input", "asyncio.gather over %d streams: executor log %s, expected one invocation per stream on %s"
                     % (n, [(e, t) for e, _, t in r.glog], want_ex), w, key="gather-log")
            return
        for (e, a, t), s in zip(glog, streams):
            if sc.enc_tree(a) != sc.enc_tree(sc.spec_remove_empty(s.query_ast)):
                ctx.fail("failing-input", "asyncio.gather: an executor received another query than its stream's", w, key="gather-ast")
                return


# ---------------------------------------------------------------- the tree-level functions of the theorems

def small_trees():
    E = ["x", "EventDataset()", "MetaData(x, {})", "MetaData(x, {'a': 2})", "{}"]
    out = list(E)
    for a in E:
        out += ["f(%s)" % a, "MetaData(%s, {})" % a, "MetaData(%s, {}, 3)" % a, "lambda e: %s" % a, "EventDataset(%s)" % a,
                "MetaData(%s, k)" % a, "MetaData(%s, -1)" % a, "MetaData(%s, [])" % a, "MetaData(%s, {'k': {}})" % a,
                "m.MetaData(%s, {})" % a, "MetaData(%s)" % a, "MetaData(%s, {1: (2, 'x')})" % a]
        for b in E:
            out += ["g(%s, %s)" % (a, b), "MetaData(%s, %s)" % (a, b), "Select(%s, lambda e: %s)" % (a, b),
                    "(%s, [%s])" % (a, b), "%s.EventDataset(%s)" % (a, b), "MetaData(MetaData(%s, {}), {})(%s)" % (a, b)]
    return out


def tree_correspondence(ctx):
    from func_adl import find_EventDataset
    from func_adl.ast.meta_data import remove_empty_metadata

    srcs = small_trees()
    trees = [ast.parse(s, mode="eval").body for s in srcs]
    answers = ctx.driver.call("tree", [[sc.enc_tree(t)] for t in trees])
    for src, t, ans in zip(srcs, trees, answers):
        ctx.evaluations += 1
        ctx.corr_cases += 1
        try:     # on a copy: whether the argument is modified is C11's/C15's concern, not C12's
            c = "(ok %s)" % sc.enc_tree(remove_empty_metadata(copy.deepcopy(t)))
        except Exception as ex:  # noqa
            c = "(err %s)" % type(ex).__name__
        n = sum(1 for _ in _roots(t))
        try:
            f = "(ok %s)" % sc.enc_tree(find_EventDataset(t))
            if n != 1:
                ctx.fail("failing-input", "find_EventDataset accepted %s which has %d dataset roots" % (src, n), {"oracle": "tree", "src": src})
        except Exception as ex:  # noqa
            m = str(ex)
            f = "(err %s)" % ("ManyRoots" if "more than one" in m else "NoRoot" if "no root" in m else type(ex).__name__)
            if n == 1:
                ctx.fail("failing-input", "find_EventDataset rejected %s which has exactly one dataset root" % src, {"oracle": "tree", "src": src})
        got = "(%s %s %d)" % (c, f, n)
        if sc.sx_str(sc.sx_parse(ans)) != got:
            ctx.corr_disagreements += 1
            ctx.fail("no-failing-input-found", "correspondence clean/find_root/count_roots (Model/Stream.v) vs meta_data.py/event_dataset.py "
                     "broke on %s: model %s, code %s" % (src, ans[:300], got[:300]), {"correspondence": "tree", "src": src})


def _roots(t):
    """independent count: EventDataset(...) calls not inside another one's arguments"""
    if isinstance(t, ast.Call) and isinstance(t.func, ast.Name) and t.func.id == "EventDataset":
        yield t
        return
    for c in ast.iter_child_nodes(t):
        yield from _roots(c)


# ---------------------------------------------------------------- dataset roots that carry arguments (outside the stream model)

def root_args_oracle(ctx):
    """Backends put arguments on their EventDataset(...) root (file names, another query).  The executor that runs is still
    the one of the dataset OBJECT at the root of the stream, once, and value() hands back what it returned or raised."""
    from func_adl import EventDataset

    class ArgDS(EventDataset):
        def __init__(self, tag, extra, boom=None):
            super().__init__()
            self.tag, self.calls, self.boom = tag, [], boom
            self.query_ast.args.extend(extra)        # type: ignore

        async def execute_result_async(self, a, title=None):
            self.calls.append((ast.dump(a), title))
            if self.boom is not None:
                raise self.boom
            return ("ran", self.tag)

    plain = ArgDS("plain", [])
    inner_q = plain.Select("lambda e: e.x").query_ast
    boom = KeyError("from the executor")
    cases = [("one-constant", [ast.Constant(value="file.root")], None), ("two-constants", [ast.Constant(value="a"), ast.Constant(value=2)], None),
             ("list-argument", [ast.List(elts=[ast.Constant(value="f1"), ast.Constant(value="f2")], ctx=ast.Load())], None),
             ("name-argument", [ast.Name(id="files", ctx=ast.Load())], None),
             ("raising", [ast.Constant(value="file.root")], boom)]
    chains = [("bare", lambda d: d), ("select", lambda d: d.Select("lambda e: e.x")), ("where-select", lambda d: d.Where("lambda e: e.x > 1").Select("lambda e: e.y")),
              ("metadata", lambda d: d.MetaData({"k": 1}).Select("lambda e: e.x")), ("qmetadata", lambda d: d.QMetaData({"q": 1}).Select("lambda e: e.x")),
              ("terminal", lambda d: d.Select("lambda e: e.x").AsAwkwardArray(["c"]))]
    for cname, extra, exc in cases:
        for chname, mk in chains:
            ds = ArgDS(cname, [copy.deepcopy(x) for x in extra], exc)
            others = [plain]
            before = [len(o.calls) for o in others]
            ctx.evaluations += 1
            w = {"oracle": "root-args", "root": cname, "chain": chname}
            try:
                s = mk(ds)
                try:
                    got = ("returned", s.value(title="t1"))
                except BaseException as ex:  # noqa
                    got = ("raised", ex)
            except BaseException as ex:  # noqa
                got = ("build-raised", ex)
            want = ("raised", exc) if exc is not None else ("returned", ("ran", cname))
            ok = got[0] == want[0] and (got[1] is want[1] if exc is not None else got[1] == want[1])
            if not ok or len(ds.calls) != 1 or [len(o.calls) for o in others] != before or ds.calls[0][1] != "t1":
                ctx.fail("failing-input", "dataset root with arguments (%s), chain %s: value() %s %r; executor of the root dataset ran %d time(s), "
                         "other datasets' executors %s time(s); expected %s" % (
                             cname, chname, got[0], got[1], len(ds.calls), [len(o.calls) - b for o, b in zip(others, before)], want), w,
                         key=core.digest({"p": ID, "root-args": cname, "chain": chname}))
    ctx.count("root_args", "cases:%d" % (len(cases) * len(chains)))
    del inner_q


def run(ctx):
    sc.check_histories(ctx, ID, histories(ctx), "history")
    tree_correspondence(ctx)
    gather_oracle(ctx)
    root_args_oracle(ctx)


def replay(ctx, w):
    if w.get("oracle") == "gather":
        gather_oracle(ctx)
    elif w.get("oracle") == "root-args":
        root_args_oracle(ctx)
    elif w.get("oracle") == "tree" or w.get("correspondence") == "tree":
        tree_correspondence(ctx)
    else:
        sc.replay_history(ctx, ID, w)

"""Shared machinery of the type-follower checks (C07-C10).

* a class-model description language (plain dicts) -> generated Python source -> real classes
  (annotations are real typing objects), callbacks that log their invocations, attach distinct metadata
  and apply one of three call-site rewrites;
* ``world_sx``: the class table of the Coq model (coq/FA/Model/TypeDefs.v) read back from the *live* class
  objects with ``inspect.signature`` / ``typing.get_type_hints`` / ``__orig_bases__`` / the MRO - i.e. the
  table is what CPython's typing machinery returns for those classes;
* ``run_impl``: the implementation on one (operator, item type, lambda) case, canonicalised;
* ``run_model``: the extracted model on the same case;
* comparison helpers.
"""
from __future__ import annotations

import ast
import atexit
import collections.abc
import copy
import dataclasses
import importlib.util
import inspect
import logging
import os
import shutil
import types
import typing
from typing import Any, Dict, List, Optional, Tuple

import bridge
import core
from bridge import hx

logging.disable(logging.WARNING)

PRIMS = {int: "Int", float: "Float", bool: "Bool", str: "Str", type(None): "None", bytes: "Bytes",
         complex: "Complex", type(Ellipsis): "Ellipsis"}


class NotModelled(Exception):
    pass


# ------------------------------------------------------------------ description -> Python classes

def gen_source(desc: dict) -> str:
    """Python source text of a class model.  ``desc`` keys: typevars, classes, functions, callbacks."""
    out = []
    for tv in desc.get("typevars", []):
        out.append("%s = TypeVar(%r)" % (tv, tv))
    for c in desc["classes"]:
        bases = []
        if c.get("base"):
            bases.append(c["base"])
        if c.get("generic"):
            bases.append("Generic[%s]" % ", ".join(c["generic"]))
        decos = []
        if c.get("collection"):
            decos.append("@register_func_adl_os_collection")
        if c.get("cb"):
            decos.append("@func_adl_callback(CB[%r])" % c["cb"])
        if c.get("dataclass") is not None:
            decos.append("@dataclasses.dataclass")
        out += decos
        out.append("class %s%s:" % (c["name"], "(%s)" % ", ".join(bases) if bases else ""))
        body = []
        if c.get("dataclass") is not None:
            for fn, ft in c["dataclass"]:
                body.append("    %s: %s" % (fn, ft))
        if c.get("collection"):
            body.append("    def __init__(self, a, item_type=Any):")
            body.append("        super().__init__(a, item_type)")
        for m in c.get("methods", []):
            if m.get("cb"):
                body.append("    @func_adl_callback(CB[%r])" % m["cb"])
            ps = ["self"] + [p if d is None else "%s=%s" % (p, d) for p, d in m.get("params", [])]
            ret = " -> %s" % m["ret"] if m.get("ret") else ""
            body.append("    def %s(%s)%s: ..." % (m["name"], ", ".join(ps), ret))
        for p in c.get("props", []):
            if p.get("cb"):
                body.append("    @func_adl_parameterized_call(PCB[%r])" % p["cb"])
            body.append("    @property")
            body.append("    def %s(self): ..." % p["name"])
        if not body:
            body.append("    pass")
        out += body
        out.append("")
    for f in desc.get("functions", []):
        out.append("@func_adl_callable(%s)" % ("CB[%r]" % f["proc"] if f.get("proc") else ""))
        ps = [p if d is None else "%s=%s" % (p, d) for p, d in f.get("params", [])]
        ret = " -> %s" % f["ret"] if f.get("ret") else ""
        out.append("def %s(%s)%s: ..." % (f["name"], ", ".join(ps), ret))
        out.append("")
    return "\n".join(out)


class Model:
    """A class model brought to life: namespace, callback table, invocation log."""

    def __init__(self, desc: dict):
        import func_adl
        from func_adl import ObjectStream
        from func_adl import type_based_replacement as tbr

        self.desc = desc
        self.log: List[tuple] = []
        tbr.reset_global_functions()
        self.cb_ids: Dict[int, str] = {}
        cbs = {}
        pcbs = {}
        self.cb_specs = desc.get("callbacks", {})
        # the generated classes live in a real (registered) module, as user classes do: typing.get_type_hints resolves
        # string annotations (forward references, `from __future__ import annotations`) through sys.modules
        import sys as _sys
        Model._counter = getattr(Model, "_counter", 0) + 1
        mod = types.ModuleType("types_model_%d" % Model._counter)
        _sys.modules[mod.__name__] = mod
        _sys.modules.pop("types_model_%d" % (Model._counter - 3), None)      # keep only the last few
        ns: Dict[str, Any] = mod.__dict__
        exec("from typing import *\nimport dataclasses\nfrom func_adl import *\n"
             "from func_adl.type_based_replacement import ObjectStreamInternalMethods\n", ns)
        self.ns = ns
        for cid, spec in self.cb_specs.items():
            if spec.get("param"):
                f = self._make_pcb(cid, spec)
                pcbs[cid] = f
            else:
                f = self._make_cb(cid, spec)
                cbs[cid] = f
            self.cb_ids[id(f)] = cid
        ns["CB"] = cbs
        ns["PCB"] = pcbs
        self.source = gen_source(desc)
        exec(compile(desc.get("header", "") + self.source, "<class model %s>" % mod.__name__, "exec"), ns)
        self.tbr = tbr
        self.ObjectStream = ObjectStream
        self.classes = [ns[c["name"]] for c in desc["classes"]]

    # -- callbacks
    def _rewrite(self, rw, a: ast.AST) -> ast.AST:
        if rw is None or rw[0] == "id":
            return a
        if rw[0] == "rename":
            if isinstance(a, ast.Call) and isinstance(a.func, ast.Attribute):
                return ast.Call(func=ast.Attribute(value=a.func.value, attr=rw[1], ctx=ast.Load()), args=a.args,
                                keywords=a.keywords)
            if isinstance(a, ast.Call) and isinstance(a.func, ast.Name):
                return ast.Call(func=ast.Name(id=rw[1], ctx=ast.Load()), args=a.args, keywords=a.keywords)
            return a
        if rw[0] == "wrap":
            return ast.Call(func=ast.Name(id=rw[1], ctx=ast.Load()), args=[a], keywords=[])
        raise ValueError(rw)

    def _make_cb(self, cid, spec):
        def cb(s, a):
            self.log.append(("call", cid, bridge.to_sx(a)))
            if spec.get("md") is not None:
                s = s.MetaData(spec["md"])
            return s, self._rewrite(spec.get("rw"), a)
        return cb

    def _make_pcb(self, cid, spec):
        def pcb(s, a, param):
            self.log.append(("param", cid, bridge.to_sx(a), repr(param)))
            if spec.get("md") is not None:
                s = s.MetaData(spec["md"])
            return s, self._rewrite(spec.get("rw"), a), eval(spec.get("ty", "Any"), self.ns)
        return pcb

    def ev(self, src: str):
        return eval(src, self.ns)

    # -- the class table, read from the live objects
    def universe(self) -> List[type]:
        tbr = self.tbr
        reg = list(tbr._g_collection_classes.keys())
        rest = [c for c in [self.ObjectStream] + self.classes if c not in reg]
        return reg + rest

    def ty_sx(self, t: Any) -> str:
        return ty_sx(t, self.universe())

    def world_sx(self) -> str:
        tbr = self.tbr
        uni = self.universe()
        from func_adl.util_ast import as_ast

        cls_sx = [self._cls_sx(c, uni) for c in uni]
        fn_sx = []
        for name, info in tbr._global_functions.items():
            sig = inspect.signature(info.function)
            hints = typing.get_type_hints(info.function)
            ret = ty_sx(hints["return"], uni) if "return" in hints else "-"
            proc = "-" if info.processor_function is None else hx(self.cb_ids[id(info.processor_function)])
            fn_sx.append("(F %s (%s) %s %s)" % (hx(name), " ".join(_param_sx(p) for p in sig.parameters.values()), ret, proc))
        cb_sx = []
        for cid, spec in self.cb_specs.items():
            md = "-" if spec.get("md") is None else bridge.to_sx(as_ast(spec["md"]))
            rw = spec.get("rw") or ("id",)
            rws = "Id" if rw[0] == "id" else "(%s %s)" % ("Rename" if rw[0] == "rename" else "Wrap", hx(rw[1]))
            t = ty_sx(eval(spec.get("ty", "Any"), self.ns), uni)
            cb_sx.append("(%s %s %s %s)" % (hx(cid), md, rws, t))
        return "(W (%s) (%s) (%s))" % (" ".join(cls_sx), " ".join(fn_sx), " ".join(cb_sx))

    def _cls_sx(self, c: type, uni: List[type]) -> str:
        tbr = self.tbr
        params = [p.__name__ for p in getattr(c, "__parameters__", ())]
        ob = getattr(c, "__orig_bases__", None)
        base = "-"
        if ob:
            r = ob[0]
            if typing.get_origin(r) is not typing.Generic:
                base = ty_sx(r, uni)
        parent = "-"
        for k in c.__mro__[1:]:
            if k in uni:
                parent = hx(k.__name__)
                break
        ms, props = [], []
        for name, v in c.__dict__.items():
            if name.startswith("__"):
                continue
            if isinstance(v, types.FunctionType):
                try:
                    sig = inspect.signature(v)
                    ps = " ".join(_param_sx(p) for p in sig.parameters.values())
                    hints = typing.get_type_hints(v)
                except Exception:
                    continue
                ret = ty_sx(hints["return"], uni) if "return" in hints else "-"
                cbf = getattr(v, "_func_adl_type_info", None)
                cb = "-" if cbf is None else hx(self.cb_ids[id(cbf)])
                OS = self.ObjectStream
                op = "Stub"
                if v is OS.__dict__.get("Select"):
                    op = "Select"
                elif v is OS.__dict__.get("SelectMany"):
                    op = "SelectMany"
                elif v is OS.__dict__.get("Where"):
                    op = "Where"
                elif v is tbr.ObjectStreamInternalMethods.__dict__.get("First"):
                    op = "First"
                ms.append("(M %s (%s) %s %s %s)" % (hx(name), ps, ret, cb, op))
            elif isinstance(v, property):
                info = tbr._g_parameterized_callbacks.get(v)
                props.append("(%s %s)" % (hx(name), "-" if info is None else hx(self.cb_ids[id(info.callback)])))
        ccb = getattr(c, "_func_adl_type_info", None)
        cb = "-" if ccb is None else hx(self.cb_ids[id(ccb)])
        fields = "-"
        if dataclasses.is_dataclass(c):
            h = typing.get_type_hints(c)
            fields = "((%s) (%s))" % (" ".join(hx(k) for k in h), " ".join(ty_sx(v, uni) for v in h.values()))
        coll = "1" if c in tbr._g_collection_classes else "0"
        return "(C %s (%s) %s %s (%s) (%s) %s %s %s)" % (
            hx(c.__name__), " ".join(hx(p) for p in params), base, parent, " ".join(ms), " ".join(props), cb, fields, coll)


def _param_sx(p: inspect.Parameter) -> str:
    if p.kind not in (p.POSITIONAL_OR_KEYWORD,):
        raise NotModelled("parameter kind %s" % p.kind)
    d = "-" if p.default is p.empty else bridge.const_sx(p.default)
    return "(%s %s)" % (hx(p.name), d)


def ty_sx(t: Any, uni: List[type]) -> str:
    if t is Any:
        return "Any"
    if t in PRIMS:
        return PRIMS[t]
    if t is typing.Callable or t is collections.abc.Callable:
        return "Callable"
    if isinstance(t, typing.TypeVar):
        return "(Var %s)" % hx(t.__name__)
    org = typing.get_origin(t)
    if org is collections.abc.Iterable:
        args = typing.get_args(t)
        if not args:
            return "(Iter Any)"          # a bare `Iterable`: items of unknown type
        (a,) = args
        return "(Iter %s)" % ty_sx(a, uni)
    if org is collections.abc.Callable:
        return "Callable"
    if org is not None and isinstance(org, type):
        return "(Cls %s (%s))" % (hx(org.__name__), " ".join(ty_sx(a, uni) for a in typing.get_args(t)))
    if isinstance(t, type):
        if dataclasses.is_dataclass(t) and t.__name__ == "dict_dataclass":
            h = typing.get_type_hints(t)
            return "(Record (%s) (%s))" % (" ".join(hx(k) for k in h), " ".join(ty_sx(v, uni) for v in h.values()))
        return "(Cls %s ())" % hx(t.__name__)
    return "(Opaque %s)" % hx("other:" + type(t).__name__)


# ------------------------------------------------------------------ running the two sides

def as_lambda(src):
    """source string -> ast.Lambda (the harness supplies lambdas as strings or ast objects only)"""
    if isinstance(src, str):
        return ast.parse(src.strip()).body[0].value
    return src


EXC_CLASS = {"NotLambda": "Exception", "Assert": "AssertionError", "Stub": "TypeError", "Attr": "AttributeError",
             "Key": "KeyError"}


def _finish_impl(model: "Model", thunk):
    """-> ("ok", lambda_sx, type_sx, calls, metas, op, lambda_dump) | ("refuse", msg) | ("crash", ExcClass)"""
    try:
        r = thunk()
    except ValueError as e:
        return ("refuse", str(e))
    except RecursionError:
        raise
    except Exception as e:  # noqa
        return ("crash", type(e).__name__)
    q = r.query_ast
    metas = []
    src = q.args[0]
    while isinstance(src, ast.Call) and isinstance(src.func, ast.Name) and src.func.id == "MetaData":
        metas.append(bridge.to_sx(src.args[1]))
        src = src.args[0]
    metas.reverse()
    if not (isinstance(src, ast.Name) and src.id == "ds"):
        return ("crash", "BadSourceChain")
    try:
        t = model.ty_sx(r.item_type)
    except Exception:  # noqa
        t = "(Opaque %s)" % hx("unprintable")
    return ("ok", bridge.to_sx(q.args[1]), t, [x for x in model.log], metas, q.func.id, ast.dump(q.args[1]))


def run_impl(model: "Model", op: str, item_type: Any, lam, known=None):
    """the implementation on one case, the lambda supplied as an ast object (deep-copied)"""
    OS = model.ObjectStream
    model.log.clear()
    ds = OS(ast.Name(id="ds", ctx=ast.Load()), item_type)
    arg = copy.deepcopy(lam)
    if known is None:
        return _finish_impl(model, lambda: getattr(ds, op)(arg))
    return _finish_impl(model, lambda: getattr(ds, op)(arg, known_types=known))


def parse_model_answer(ans: str):
    """-> ("ok", lambda_sx, type_sx, calls, metas) | ("refuse", reason) | ("crash", kind)"""
    if ans.startswith("REFUSE "):
        return ("refuse", ans[7:])
    if ans.startswith("CRASH "):
        return ("crash", ans[6:])
    if not ans.startswith("OK "):
        return ("fail", ans)
    x = bridge.parse_sx("(" + ans[3:] + ")")
    lam, t, evs = x
    calls, metas = [], []
    for e in evs:
        if e[0] == "Call":
            calls.append(("call", bridge.unhx(e[1]), unparse_sx(e[2])))
        elif e[0] == "Param":
            calls.append(("param", bridge.unhx(e[1]), unparse_sx(e[2]), e[3]))
        else:
            metas.append(unparse_sx(e[1]))
    return ("ok", unparse_sx(lam), unparse_sx(t), calls, metas)


def unparse_sx(x) -> str:
    if isinstance(x, str):
        return x
    return "(" + " ".join(unparse_sx(y) for y in x) + ")"


def same_outcome(impl, mod) -> bool:
    """exact comparison of the canonical outcomes (refusals: class only; crashes: exception class)"""
    if impl[0] != mod[0]:
        return False
    if impl[0] == "refuse":
        return True
    if impl[0] == "crash":
        return EXC_CLASS.get(mod[1]) == impl[1]
    if impl[1] != mod[1] or impl[2] != mod[2] or impl[4] != mod[4]:
        return False
    if len(impl[3]) != len(mod[3]):
        return False
    for a, b in zip(impl[3], mod[3]):
        if a[0] != b[0] or a[1] != b[1] or a[2] != b[2]:
            return False
        if a[0] == "param":
            # parameters are passed by value: repr of literal_eval of the model's slice expression
            try:
                want = repr(ast.literal_eval(bridge.from_sx(unparse_sx(b[3]))))
            except Exception:  # noqa
                return False
            if want != a[3]:
                return False
    return True


def model_requests(world: str, op: str, item_sx: str, lam, known_sx: str = "()"):
    return [world, op, known_sx, item_sx, bridge.to_sx(lam)]


def show(o) -> str:
    if o[0] == "ok":
        try:
            lam = ast.unparse(bridge.from_sx(o[1]))
        except Exception:  # noqa
            lam = o[1][:200]
        return "ok %s : %s calls=%s metas=%d" % (lam, o[2], [c[:2] for c in o[3]], len(o[4]))
    return " ".join(str(x) for x in o)


# ------------------------------------------------------------------ a fixed, hand-written model used by several checks

BASIC = {
    "typevars": ["T", "U"],
    "classes": [
        {"name": "Track", "cb": "trackcls",
         "methods": [{"name": "pt", "params": [("a", "1")], "ret": "float", "cb": "trackpt"},
                     {"name": "eta", "ret": "float"}]},
        {"name": "Jet",
         "methods": [{"name": "pt", "params": [("scale", "1.0"), ("unit", "'GeV'"), ("extra", "7")], "ret": "float"},
                     {"name": "two", "params": [("a", None), ("b", None)], "ret": "int"},
                     {"name": "mix", "params": [("a", None), ("b", "2"), ("c", "3.5")], "ret": "float", "cb": "jetmix"},
                     {"name": "trks", "params": [("kind", "'all'")], "ret": "Iterable[Track]"},
                     {"name": "noann", "params": [("k", "1")]}],
         "props": [{"name": "getAttr", "cb": "pcb"}, {"name": "plain"}]},
        {"name": "Event", "cb": "evcls",
         "methods": [{"name": "Jets", "params": [("bank", "'default'"), ("calib", "True")], "ret": "Iterable[Jet]"},
                     {"name": "Trks", "ret": "Iterable[Track]"},
                     {"name": "met", "ret": "float"},
                     {"name": "n", "ret": "int"}]},
    ],
    "functions": [{"name": "myf", "params": [("a", None), ("b", "10.0"), ("c", "3")], "ret": "float", "proc": "fproc"},
                  {"name": "g2", "params": [("x", None), ("y", None)], "ret": "int"}],
    "callbacks": {
        "trackcls": {"md": {"t": "cls"}},
        "trackpt": {"md": {"t": "pt"}, "rw": ("rename", "pt_new")},
        "jetmix": {"md": None, "rw": ("wrap", "wrapped")},
        "evcls": {"md": {"e": 1}},
        "fproc": {"md": {"f": 2}},
        "pcb": {"param": True, "md": {"p": 3}, "ty": "float"},
    },
}

EMPTY = {"classes": [], "functions": [], "callbacks": {}}


def run_impl_str(model: Model, op: str, item_type: Any, src: str):
    """as run_impl, the lambda supplied as a source string"""
    OS = model.ObjectStream
    model.log.clear()
    ds = OS(ast.Name(id="ds", ctx=ast.Load()), item_type)
    return _finish_impl(model, lambda: getattr(ds, op)(src))


_OP_KW = {}


def op_call(r, recv, op: str, lam_node, p_kw: float = 0.35):
    """recv.op(lambda) as the user may write it: the lambda positionally or by keyword, under the name the operator's
    own signature gives its first parameter (read from the live ObjectStream class: f / func / filter)"""
    from func_adl import ObjectStream

    if op not in _OP_KW:
        _OP_KW[op] = list(inspect.signature(getattr(ObjectStream, op)).parameters)[1]
    f = ast.Attribute(value=recv, attr=op, ctx=ast.Load())
    if r.random() < p_kw:
        return ast.Call(func=f, args=[], keywords=[ast.keyword(arg=_OP_KW[op], value=lam_node)])
    return ast.Call(func=f, args=[lam_node], keywords=[])


# ------------------------------------------------------------------ queries as Python callables (registered functions with bodies)

_CALL_DIR = os.path.join(core.WORK, "types-callables-%d" % os.getpid())
atexit.register(lambda: shutil.rmtree(_CALL_DIR, ignore_errors=True))


def callable_runner(rng, model: "Model", desc: dict, cases, bodies: Dict[str, str]):
    """cases: [(op, lambda ast)].  Each lambda is written as the argument of its operator on its own line of a generated
    module, which registers the model's functions again - same names, signatures and processors - with the real one-line
    bodies ``bodies`` (name -> expression).  -> run(model, op, item_type, lambda ast), like run_impl."""
    os.makedirs(_CALL_DIR, exist_ok=True)
    name = "types_callables_%d" % rng.randrange(10 ** 9)
    lines = ["# generated by harness/props/types_common.py", "from %s import *" % model.ns["__name__"], ""]
    for f in desc.get("functions", []):
        lines.append("@func_adl_callable(%s)" % ("CB[%r]" % f["proc"] if f.get("proc") else ""))
        ps = [p_ if d_ is None else "%s=%s" % (p_, d_) for p_, d_ in f.get("params", [])]
        lines += ["def %s(%s)%s:" % (f["name"], ", ".join(ps), " -> %s" % f["ret"] if f.get("ret") else ""),
                  "    return %s" % bodies[f["name"]], ""]
    for i, c in enumerate(cases):
        lines += ["", "def case_%d(ds):" % i, "    return ds.%s(%s)" % (c[0], ast.unparse(c[1]))]
    path = os.path.join(_CALL_DIR, name + ".py")
    with open(path, "w") as fh:
        fh.write("\n".join(lines) + "\n")
    spec = importlib.util.spec_from_file_location(name, path)
    mod = importlib.util.module_from_spec(spec)
    spec.loader.exec_module(mod)
    fns = {(c[0], ast.dump(c[1])): getattr(mod, "case_%d" % i) for i, c in enumerate(cases)}

    def run(model_, op, item, q):
        model_.log.clear()
        ds = model_.ObjectStream(ast.Name(id="ds", ctx=ast.Load()), item)
        return _finish_impl(model_, lambda: fns[(op, ast.dump(q))](ds))
    return run


def callable_form_ok(q, funcs) -> bool:
    """calls one of the registered functions ``funcs``; no directly called lambda (the callable path resolves those)"""
    if any(isinstance(n, ast.Call) and isinstance(n.func, ast.Lambda) for n in ast.walk(q)):
        return False
    return any(isinstance(n, ast.Call) and isinstance(n.func, ast.Name) and n.func.id in funcs for n in ast.walk(q))

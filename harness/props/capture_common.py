"""Shared machinery of C04 (captured variables) and C05 (helper inlining).

Every case is a generated *Python source file* written under /verif/.work/capture-<pid>/, imported and
run.  The file defines module globals, up to three nested enclosing functions with locals, classes with
(nested) constants, enums, helpers, and one line ``Select(lambda ...)``.  ``Select`` hands the real
callable to ``Recorder.record`` which

  * calls the real Python callable on generated data (the values the query must compute),
  * calls the implementation's entry point ``func_adl.util_ast.parse_as_ast(callable, "Select")``
    and then ``check_ast`` (what ObjectStream.Select/Where/SelectMany do), keeping result or exception class.

After that the generated code rebinds and deletes every captured name (history clause) and the harness
re-inspects the recorded lambda.  The model (coq/FA/Model/Capture.v, extracted) gets the lambda's own source
text parsed by the harness, plus the snapshot the generator knows by construction.
"""
from __future__ import annotations

import ast
import atexit
import builtins
import copy
import importlib.util
import itertools
import os
import shutil
import sys
import types
from typing import Any, Dict, List, Optional, Tuple

import bridge
import core

TAG = "capture"
EXTRACT = "FA/Extract/ExtractCapture.v"
DRIVER = "driver_capture.ml"

WORKDIR = os.path.join(core.WORK, "capture-%d" % os.getpid())


def _cleanup():
    shutil.rmtree(WORKDIR, ignore_errors=True)


atexit.register(_cleanup)


# ---------------------------------------------------------------- data the queries run on

class Seq(list):
    def Select(self, f):
        return Seq([f(x) for x in self])

    def Where(self, f):
        return Seq([x for x in self if f(x)])

    def SelectMany(self, f):
        return Seq([y for x in self for y in f(x)])

    def Count(self):
        return len(self)

    def Aggregate(self, init, f):
        acc = init
        for x in self:
            acc = f(acc, x)
        return acc

    def First(self):
        return self[0]


class Rec:
    def __init__(self, **kw):
        self.__dict__.update(kw)

    def __eq__(self, o):
        return isinstance(o, Rec) and self.__dict__ == o.__dict__

    def __hash__(self):
        return hash(tuple(sorted((k, repr(v)) for k, v in self.__dict__.items())))

    def __repr__(self):
        return "Rec(%s)" % ", ".join("%s=%r" % kv for kv in sorted(self.__dict__.items()))


def _jet(pt, eta, k):
    return Rec(pt=pt, eta=eta, x=k, a=k + 1, b=k - 1, sub=Seq([pt, eta, k]))


def make_data():
    out = []
    for i, (a, b, jets) in enumerate([(3, -2, [(5, 1, 2), (-1, 0, 0), (7, 7, 3)]), (0, 0, []), (-4, 9, [(2, 2, 2)])]):
        js = Seq([_jet(*j) for j in jets])
        out.append(Rec(a=a, b=b, x=a + 7, y=b + 1, z=4 + i, pt=10 + i, jets=js,
                       pairs=Seq([(1, 2), (3, 4 + i)]),
                       # lists of known length for starred arguments (`h(*e.xs)`, `h(e.a, *e.rest)`, `h(*e.two)`)
                       xs=[a + 2], rest=[b - 1], two=[a, b + 3], off=6 + i,
                       o=Rec(id=21, attr=22, value=23, lineno=24, ctx=25, a=26, pt=27, jets=js, x=28, b=29)))
    return out


# ---------------------------------------------------------------- case description

class Var:
    """One binding visible from the lambda.  scope: 'g' module global, 'l1'..'l3' local of the enclosing function
    at that depth (l1 = outermost).  src: defining statements (may be several lines).  after: statements run after
    the Select call in the same scope (rebind / delete / mutate)."""

    def __init__(self, name, scope, src, after=None, helper=None, byname=False, lam_helper=False, mid=None,
                 stays=False, outside=False):
        self.name, self.scope, self.src = name, scope, src
        self.stays = stays              # a callable with a single-return source that the code must NOT inline: a bound
        #                                 method (F34), a function with __wrapped__ (F35), a body with `:=` (F36)
        self.outside = outside          # its snapshot cannot be built from the case description: oracle only
        self.mid = mid                  # statement run between the first and the second call of a two-call program
        self.after = after if after is not None else "%s = 'REBOUND'" % name
        self.helper = helper            # (params, body_src) of a single-return def: inlinable by construction
        self.byname = byname            # stays a name in the query (non-inlinable callable / module function)
        self.lam_helper = lam_helper    # a lambda bound to a name: source recovery decides (input of the model)


class Case:
    def __init__(self, lam, vars=(), depth=1, tags=(), prelude=(), ns_attr=None, group="", passed="inline", twice=False):
        self.passed = passed            # how the callable is handed over: "inline" lambda | "def-local" | "def-global" |
        #                                 "var-local" | "var-global" (a lambda stored in a variable)
        self.twice = twice              # the SAME callable object (or, inline, the same text) is passed a second time
        #                                 after the `mid` statements of the variables ran (depth-1 programs only)
        self.lam = lam                  # source text of the passed lambda
        self.vars: List[Var] = list(vars)
        self.depth = depth              # number of enclosing functions (1..3)
        self.tags = set(tags)
        self.prelude = list(prelude)    # extra module-level lines
        self.ns_attr = ns_attr          # value of _object_cpp_as_py_namespace in the generated module (None = absent)
        self.group = group

    def key(self):
        return core.digest({"lam": self.lam, "vars": [(v.name, v.scope, v.src, v.after, v.mid) for v in self.vars],
                            "depth": self.depth, "ns": self.ns_attr, "pre": self.prelude, "passed": self.passed,
                            "twice": self.twice})

    def describe(self):
        return {"lambda": self.lam, "depth": self.depth, "ns_attr": self.ns_attr, "prelude": self.prelude,
                "passed": self.passed, "twice": self.twice,
                "vars": [{"name": v.name, "scope": v.scope, "src": v.src, "after": v.after, "helper": v.helper,
                          "byname": v.byname, "lam_helper": v.lam_helper, "mid": v.mid, "stays": v.stays,
                          "outside": v.outside} for v in self.vars],
                "tags": sorted(self.tags), "group": self.group}

    @staticmethod
    def from_description(d):
        c = Case(d["lambda"], [Var(v["name"], v["scope"], v["src"], v["after"],
                                   tuple(v["helper"]) if v.get("helper") else None, v.get("byname", False),
                                   v.get("lam_helper", False), v.get("mid"), v.get("stays", False),
                                   v.get("outside", False)) for v in d["vars"]], d["depth"],
                 d.get("tags", ()), d.get("prelude", ()), d.get("ns_attr"), d.get("group", ""),
                 d.get("passed", "inline"), d.get("twice", False))
        return c

    def _callable_def(self, name="passed_f"):
        """Source lines defining the passed callable under `name` (not for inline lambdas)."""
        lt = ast.parse(self.lam, mode="eval").body
        if self.passed.startswith("def"):
            return ["def %s(%s):" % (name, ast.unparse(lt.args)), "    return %s" % ast.unparse(lt.body)]
        return ["%s = %s" % (name, self.lam)]

    def source(self) -> str:
        L = ["# generated by harness/props/capture_common.py", "import math, enum, dataclasses, collections, types, functools",
             "_H = None", "def Select(f):", "    return _H.record(f)", ""]
        if self.ns_attr is not None:
            L.append("_object_cpp_as_py_namespace = %r" % self.ns_attr)
        L += self.prelude
        for v in self.vars:
            if v.scope == "g":
                L += v.src.split("\n")
        if self.passed.endswith("-global"):
            L += self._callable_def()
        L.append("")
        snap = "_H.locals_snapshot(dict(%s))" % ", ".join(
            "%s=%s" % (n, n) for n in sorted({v.name for v in self.vars if v.scope.startswith("l")}))
        what = self.lam if self.passed == "inline" else "passed_f"

        def level(k, ind):
            pad = "    " * ind
            out = []
            mine = [v for v in self.vars if v.scope == "l%d" % k]
            for v in mine:
                out += [pad + s for s in v.src.split("\n")]
            if k < self.depth:
                out.append(pad + "def f%d():" % (k + 1))
                out += level(k + 1, ind + 1)
                out.append(pad + "r = f%d()" % (k + 1))
            else:
                if self.passed.endswith("-local"):
                    out += [pad + s for s in self._callable_def()]
                out.append(pad + snap)
                out.append(pad + "r = Select(%s)" % what)
                if self.twice:
                    # the history between two calls with the same callable: rebind, then pass it again
                    for v in self.vars:
                        if v.mid:
                            for s in v.mid.split("\n"):
                                out.append(pad + (s if v.scope != "g" else "exec(%r, globals())" % s))
                    out.append(pad + snap)
                    out.append(pad + "r = Select(%s)" % what)
            for v in mine:
                if v.after:
                    out += [pad + s for s in v.after.split("\n")]
            out.append(pad + "return r")
            return out

        L.append("def case():")
        body = level(1, 1)
        # globals are rebound after everything else, from inside case()
        tail = []
        for v in self.vars:
            if v.scope == "g" and v.after:
                tail.append("    exec(%r, globals())" % v.after)
        L += body[:-1] + tail + [body[-1]]
        return "\n".join(L) + "\n"


# ---------------------------------------------------------------- running a case on the implementation

LEGAL_TYPES = (str, int, float, bool, complex, bytes, types.ModuleType)   # the property's "transportable as a literal"


class FunValue:
    """What a function-valued result computes, observed at once (later rebinding of globals cannot change it): the
    outcomes of calling it on fixed probe arguments, plus one keyword probe per parameter that has a default."""

    def __init__(self, f, depth=0):
        import inspect

        probes = [((3,), {}), ((-7,), {}), ((), {}), ((2, 5), {})]
        try:
            sig = inspect.signature(f)
            self.sig = str(sig)
            for p in sig.parameters.values():
                if p.default is not inspect.Parameter.empty and p.kind in (p.POSITIONAL_OR_KEYWORD, p.KEYWORD_ONLY):
                    probes.append(((4,), {p.name: 11}))
        except Exception:  # noqa
            self.sig = "?"
        self.outcomes = []
        for a, kw in probes:
            try:
                self.outcomes.append((a, sorted(kw.items()), "ok", freeze_value(f(*a, **kw), depth + 1)))
            except Exception as ex:  # noqa
                self.outcomes.append((a, sorted(kw.items()), "exc", type(ex).__name__))

    def __eq__(self, o):
        return isinstance(o, FunValue) and self.sig == o.sig and len(self.outcomes) == len(o.outcomes) and all(
            x[:3] == y[:3] and (same_value(x[3], y[3]) if x[2] == "ok" else x[3] == y[3])
            for x, y in zip(self.outcomes, o.outcomes))

    def __hash__(self):
        return hash(self.sig)

    def __repr__(self):
        return "<function%s: %s>" % (self.sig, ", ".join(
            "%s%s->%s" % (a, dict(kw) if kw else "", r if st == "ok" else "raises " + r) for a, kw, st, r in self.outcomes))


def freeze_value(v, depth=0):
    """Function values inside a result (a helper that returns a lambda) are replaced by their observed behaviour."""
    if isinstance(v, types.FunctionType) and depth < 3:
        return FunValue(v, depth)
    if isinstance(v, types.CoroutineType):
        # what calling an `async def` gives: run it to its first suspension / its result
        try:
            v.send(None)
        except StopIteration as done:
            return ("coroutine returning", freeze_value(done.value, depth + 1))
        except Exception as ex:  # noqa
            return ("coroutine raising", type(ex).__name__)
        v.close()
        return ("coroutine suspended",)
    if type(v) in (list, tuple, Seq) and depth < 6:
        return type(v)(freeze_value(x, depth + 1) for x in v)
    return v


def _has_cell(v, depth=0) -> bool:
    if isinstance(v, types.CellType):
        return True
    if depth < 4 and isinstance(v, (list, tuple, set, frozenset)):
        return any(_has_cell(x, depth + 1) for x in v)
    if depth < 4 and isinstance(v, dict):
        return any(_has_cell(k, depth + 1) or _has_cell(x, depth + 1) for k, x in v.items())
    return False


class Recorder:
    def __init__(self, data, case=None, mod=None):
        self.data = data
        self.case = case
        self.mod = mod
        self.mi = None
        self.mi_error = None
        self.unreported = []
        self.status = None
        self.tree = None
        self.gate = None
        self.expected = None
        self.locals = {}
        self.f = None
        self.sx_at_call = None

    def record(self, f):
        from func_adl.util_ast import check_ast, parse_as_ast

        self.f = f
        self.expected = []
        for d in self.data:
            try:
                val = freeze_value(f(d))
                # CPython 3.12.1 (inlined comprehensions, PEP 709) can hand back an empty closure *cell* instead of
                # a value when a name is both a comprehension target and a free variable: python itself is wrong
                # there, nothing to compare with
                self.expected.append(("exc", "CPython-cell-leak") if _has_cell(val) else ("ok", val))
            except Exception as ex:  # noqa
                self.expected.append(("exc", type(ex).__name__))
        # the snapshot handed to the model is taken now, before the implementation runs and before any rebinding
        try:
            self.mi = model_input(self.case, self, self.mod)
        except Exception as ex:  # noqa
            self.mi_error = type(ex).__name__
        try:
            self.tree = parse_as_ast(f, "Select")
            self.status = "ok"
        except ValueError as ex:
            self.status = "ValueError"
            self.msg = str(ex)[:200]
        except Exception as ex:  # noqa
            self.status = "Crash:" + type(ex).__name__
            self.msg = str(ex)[:200]
        if self.status == "ok":
            self.sx_at_call = bridge.to_sx(self.tree)
            try:
                check_ast(self.tree)
                self.gate = "ok"
            except ValueError:
                self.gate = "ValueError"
            except Exception as ex:  # noqa
                self.gate = "Crash:" + type(ex).__name__
        return None


class Session:
    """What the generated program talks to: one Recorder per call of Select (a two-call program makes two)."""

    def __init__(self, data, case, mod):
        self.data, self.case, self.mod = data, case, mod
        self.locals = {}
        self.shots: List[Recorder] = []

    def locals_snapshot(self, d):
        self.locals = d

    def record(self, f):
        rec = Recorder(self.data, self.case, self.mod)
        rec.locals = dict(self.locals)
        # the module globals the generator declared, as they are at this call
        rec.globals_before = {v.name: getattr(self.mod, v.name) for v in self.case.vars
                              if v.scope == "g" and hasattr(self.mod, v.name)}
        rec.call_index = len(self.shots)
        self.shots.append(rec)
        return rec.record(f)


_counter = itertools.count()


def run_case(case: Case, data) -> Tuple[Session, Any]:
    os.makedirs(WORKDIR, exist_ok=True)
    name = "capcase_%d_%d" % (os.getpid(), next(_counter))
    path = os.path.join(WORKDIR, name + ".py")
    with open(path, "w") as fh:
        fh.write(case.source())
    spec = importlib.util.spec_from_file_location(name, path)
    mod = importlib.util.module_from_spec(spec)
    sys.modules[name] = mod
    rec = Session(data, case, mod)
    try:
        spec.loader.exec_module(mod)
        mod._H = rec
        mod.case()
    finally:
        sys.modules.pop(name, None)
        try:
            os.unlink(path)
        except OSError:
            pass
    return rec, mod


# ---------------------------------------------------------------- model input (the snapshot, by construction)

def plain_tree(n: ast.AST) -> bool:
    """Only plain positional lambdas.  (Since F30/F31 the model covers default values and every parameter kind - see
    [lam_view] in Model/Capture.v - so this is a histogram criterion only, no longer the model's domain.)"""
    return all(bridge._plain_lambda(x) for x in ast.walk(n) if isinstance(x, ast.Lambda))


def in_domain(n: ast.AST) -> bool:
    """The model decodes an ast.Lambda that is not plain from bridge's generic encoding: its ast.arg nodes must carry
    their name as first atom (always so for parsed source)."""
    return all(isinstance(a.arg, str) for x in ast.walk(n) if isinstance(x, ast.arguments)
               for a in x.posonlyargs + x.args + x.kwonlyargs + [p for p in (x.vararg, x.kwarg) if p is not None])


def helper_lambda(params: List[str], body_src: Optional[str]) -> ast.Lambda:
    """What rewrite_func_as_lambda makes of `def h(params): return body_src`; body_src None = a `return` without a
    value: the Lambda's body is None (a raw value where a node is required)."""
    lam = ast.parse("lambda %s: %s" % (", ".join(params), body_src if body_src is not None else "0"), mode="eval").body
    if body_src is None:
        lam.body = None
    return lam


class OutsideDomain(Exception):
    """the model's domain is left (an ast.Lambda whose parameter list the model cannot decode)"""


def capval_sx(v: Var, val: Any, case=None, rec=None, mod=None, expanding=()) -> str:
    """(V const) / (F expr) / (F -) / (H <helper's own snapshot> <helper lambda>)"""
    if isinstance(val, type) or isinstance(val, types.ModuleType):
        return "(V %s)" % bridge.const_sx(val)
    if not callable(val):
        return "(V %s)" % bridge.const_sx(val)
    if v.outside:
        raise OutsideDomain()
    # decided on the live object, as _rewrite_captured_vars.visit_Name.safe_parse_wrapper does (F34, F35): a bound method
    # and a callable that has __wrapped__ are never turned into a lambda
    import inspect
    if inspect.ismethod(val) or hasattr(val, "__wrapped__"):
        return "(F -)"
    if v.helper is not None:
        if any(val is f for f in expanding):
            return "(F -)"                      # FC5's recursion guard: a helper being expanded stays by name
        lam = helper_lambda(*v.helper)
        if not in_domain(lam):
            raise OutsideDomain()
        # FC5: the helper's lambda is rewritten with the helper's own snapshot (one model step per helper)
        hce = build_cenv(lam, val, case, rec, mod, v.scope, expanding + (val,))
        return "(H %s %s)" % (hce, bridge.to_sx(lam))
    if v.lam_helper:
        # whether the source of a lambda bound to a name can be recovered is source recovery's business (C03):
        # an input of the model, taken from the implementation's own recovery function
        from func_adl.util_ast import _parse_source_for_lambda
        try:
            lm = _parse_source_for_lambda(val, None)
        except Exception:  # noqa
            lm = None
        if lm is None:
            return "(F -)"
        if not in_domain(lm):
            raise OutsideDomain()
        hce = build_cenv(lm, val, case, rec, mod, v.scope, expanding + (val,))
        return "(H %s %s)" % (hce, bridge.to_sx(lm))
    return "(F -)"


def build_cenv(lam: ast.AST, fobj, case, rec, mod, scope: str, expanding=()) -> str:
    """The snapshot global_getclosurevars(fobj) yields for the names of `lam`, by construction of the case.
    scope: where fobj was defined ('g' = module level: no closure; 'lK' = inside the enclosing function at depth K,
    'inner' = the passed lambda itself, which sees every level)."""
    import inspect

    names = {n.id for n in ast.walk(lam) if isinstance(n, ast.Name)}
    attrs = sorted({n.attr for n in ast.walk(lam) if isinstance(n, ast.Attribute)})
    nl, gl, objs = [], [], []
    # innermost visible local binding of a name wins (Python's scoping)
    best: Dict[str, Var] = {}
    for v in case.vars:
        if v.scope.startswith("l") and v.name in names and scope != "g" and (scope == "inner" or v.scope <= scope):
            if v.name not in best or v.scope > best[v.name].scope:
                best[v.name] = v
    # Which enclosing-function names CPython reports as closure cells of the callable is the declared input of the
    # model (inspect.getclosurevars); the values are the generator's.  (CPython 3.12.1 drops a cell when the same
    # name is also the target of an inlined comprehension in the lambda - python itself then raises NameError.)
    try:
        reported = inspect.getclosurevars(fobj).nonlocals if fobj is not None else {}
    except Exception:  # noqa
        reported = {}
    for n, v in sorted(best.items()):
        if n not in rec.locals:
            continue
        if n not in reported:
            rec.unreported.append(n)
            continue
        if reported[n] is not rec.locals[n] and reported[n] != rec.locals[n]:
            raise RuntimeError("closure cell %s holds %r, the generator expected %r" % (n, reported[n], rec.locals[n]))
        nl.append("(%s %s)" % (bridge.hx(n), capval_sx(v, rec.locals[n], case, rec, mod, expanding)))
        objs.append(rec.locals[n])
    for v in case.vars:
        if v.scope == "g" and v.name in names and v.name in rec.globals_before:
            gl.append("(%s %s)" % (bridge.hx(v.name), capval_sx(v, rec.globals_before[v.name], case, rec, mod, expanding)))
            objs.append(rec.globals_before[v.name])
    # modules imported by the generated file are module globals too
    for n in ("math", "enum", "dataclasses", "collections", "types", "functools"):
        if n in names and n not in {v.name for v in case.vars}:
            gl.append("(%s (V %s))" % (bridge.hx(n), bridge.const_sx(sys.modules[n])))
            objs.append(sys.modules[n])
    # literal constants written in the lambda can be attribute receivers as well
    for c in ast.walk(lam):
        if isinstance(c, ast.Constant):
            objs.append(c.value)
    at = attr_table(objs, attrs, mod)
    return "((%s) (%s) (%s))" % (" ".join(nl), " ".join(gl), " ".join(at))


def attr_table(objs: List[Any], attrs: List[str], mod) -> List[str]:
    """getattr snapshot (an input of the model): for every object reachable from the captured values through the
    attribute names that occur in the lambda, what hasattr/getattr give."""
    import enum

    rows = []
    seen = set()
    work = list(objs)
    depth = 0
    while work and depth < 4:
        nxt = []
        for o in work:
            k = bridge.const_sx(o)
            for a in attrs:
                if (k, a) in seen:
                    continue
                seen.add((k, a))
                try:
                    has = hasattr(o, a)
                except Exception:  # noqa
                    has = False
                if not has:
                    continue
                val = getattr(o, a)
                if isinstance(o, enum.Enum.__class__):
                    try:
                        m = importlib.import_module(val.__module__) if val.__module__ != mod.__name__ else mod
                        ns = getattr(m, "_object_cpp_as_py_namespace", None)
                    except Exception:  # noqa
                        rows.append("(%s %s C)" % (k, bridge.hx(a)))
                        continue
                    if ns is None:
                        rows.append("(%s %s (E -))" % (k, bridge.hx(a)))
                    else:
                        parts = [p for p in ns.split(".")] if ns else []
                        rows.append("(%s %s (E (%s)))" % (k, bridge.hx(a), " ".join(bridge.hx(p) for p in parts)))
                else:
                    rows.append("(%s %s (V %s))" % (k, bridge.hx(a), bridge.const_sx(val)))
                    nxt.append(val)
        work = nxt
        depth += 1
    return rows


def model_input(case: Case, rec: Recorder, mod) -> Optional[Tuple[str, str]]:
    lam = ast.parse(case.lam, mode="eval").body
    if not in_domain(lam):
        return None
    try:
        ce = build_cenv(lam, rec.f, case, rec, mod, "inner")
    except OutsideDomain:
        return None
    return ce, bridge.to_sx(lam)


# ---------------------------------------------------------------- evaluating the recorded lambda (oracle)

class _Objs(ast.NodeTransformer):
    """ast.Constant nodes holding classes/modules cannot be compiled: bind them to fresh names."""

    def __init__(self):
        self.ns = {}

    def visit_Constant(self, node):
        v = node.value
        if v is None or v is Ellipsis or isinstance(v, (str, bytes, bool, int, float, complex)):
            return node
        nm = "__obj%d__" % len(self.ns)
        self.ns[nm] = v
        return ast.Name(id=nm, ctx=ast.Load())


def _clone(n):
    """Copy of an ast whose Constant values are shared, not copied (modules and classes cannot be deep-copied)."""
    if isinstance(n, ast.Constant):
        return ast.Constant(value=n.value)
    if isinstance(n, ast.AST):
        m = type(n)()
        for f, v in ast.iter_fields(n):
            setattr(m, f, [_clone(x) for x in v] if isinstance(v, list) else _clone(v))
        return m
    return n


def eval_recorded(tree: ast.AST, byname: Dict[str, Any], data) -> List[Tuple[str, Any]]:
    tr = _Objs()
    t = tr.visit(_clone(tree))
    out = []
    try:
        code = compile(ast.fix_missing_locations(ast.Expression(body=t)), "<recorded>", "eval")
        f = eval(code, dict(byname, **tr.ns, __builtins__=builtins))
    except Exception as ex:  # noqa
        return [("exc", "compile:" + type(ex).__name__)] * len(data)
    for d in data:
        try:
            out.append(("ok", freeze_value(f(d))))
        except Exception as ex:  # noqa
            out.append(("exc", type(ex).__name__))
    return out


def ill_formed(tree: ast.AST) -> Optional[str]:
    """Well-formedness of a recorded lambda as a Python expression: it compiles, and its text (ast.unparse) parses.
    (`*e.xs + 1`, a Starred node outside an argument / display position, does neither.)"""
    t = _Objs().visit(_clone(tree))
    try:
        compile(ast.fix_missing_locations(ast.Expression(body=t)), "<recorded>", "eval")
    except Exception as ex:  # noqa
        return "does not compile (%s: %s)" % (type(ex).__name__, str(ex)[:80])
    try:
        text = ast.unparse(t)
    except Exception as ex:  # noqa
        return "cannot be unparsed (%s)" % type(ex).__name__
    try:
        ast.parse(text, mode="eval")
    except Exception as ex:  # noqa
        return "its text `%s` does not parse (%s)" % (text[:120], type(ex).__name__)
    return None


def byname_namespace(case: Case, rec: Recorder) -> Dict[str, Any]:
    """Names the query is allowed to keep by name: non-inlinable callables and modules (their values at the call)."""
    ns = {"math": sys.modules["math"]}
    for v in case.vars:
        if v.byname or v.lam_helper:
            if v.scope == "g" and v.name in rec.globals_before:
                ns[v.name] = rec.globals_before[v.name]
            elif v.name in rec.locals:
                ns[v.name] = rec.locals[v.name]
    if case.ns_attr:
        # enums are sent by name, qualified by the module's declared namespace: make that path resolvable
        inner = types.SimpleNamespace(**{k: v for k, v in ns.items() if k != "math"})
        for part in reversed(case.ns_attr.split(".")):
            top = part
            inner = types.SimpleNamespace(**{part: inner})
        ns[top] = getattr(inner, top)
    return ns


def same_value(a, b) -> bool:
    try:
        if type(a) in (list, tuple, Seq) and type(a) is type(b):
            return len(a) == len(b) and all(same_value(x, y) for x, y in zip(a, b))
        return bool(a == b) and type(a).__name__ == type(b).__name__ or (a == b and isinstance(a, (int, float)) and isinstance(b, (int, float)))
    except Exception:  # noqa
        return False


# ---------------------------------------------------------------- one case through everything

# Open findings are matched by the exact text of the generated program, never by class.  None at present.
OPEN_WITNESSES: Dict[str, str] = {}
_reported_open = set()

# One defect usually fails many generated programs.  core.finish prints the five smallest failing cases; so that several
# defects with different symptoms all show up there, at most MAX_PER_SYMPTOM failing input(s) per symptom are handed on
# (the first ones met: the corpus runs first), the rest are counted in the histogram "failing_inputs_not_listed".
# Cases recorded in KNOWN_FINDINGS.txt are never held back and never use up a slot.
MAX_PER_SYMPTOM = 1
_symptom_count: Dict[str, int] = {}
_known_keys: Dict[str, Any] = {}


def symptom_of(why: str) -> str:
    if "is not a Python expression" in why:
        return "recorded lambda is not an expression"
    if why.startswith("python computes"):
        tail = why.rsplit(" computes ", 1)[-1]
        return "value: recorded lambda " + (tail[:40].split(" (")[0] if tail.startswith("raises ") else "computes something else")
    if why.startswith("check_ast gave"):
        return "gate"
    if why.startswith("parse_as_ast raised"):
        return "crash: " + why.split(" ")[2]
    if why.startswith("recorded lambda changed"):
        return "history"
    return why[:40]


def value_kind(v) -> str:
    if isinstance(v, tuple) and v and isinstance(v[0], str) and v[0].startswith("coroutine"):
        return "a " + v[0]
    return "a function" if isinstance(v, FunValue) else type(v).__name__


def report_failing_input(ctx, prop: str, case, what: str, why: str, w, symptom=None):
    if prop not in _known_keys:
        _known_keys[prop] = core.load_known(prop)
    if case.key() not in _known_keys[prop]:
        sym = symptom or symptom_of(why)
        n = _symptom_count.get((prop, sym), 0)
        _symptom_count[(prop, sym)] = n + 1
        if n >= MAX_PER_SYMPTOM:
            ctx.count("failing_inputs_not_listed", sym)
            if n == MAX_PER_SYMPTOM:
                ctx.notes.append("more than %d failing inputs with the symptom `%s`: further ones are only counted "
                                 "(histogram failing_inputs_not_listed)" % (MAX_PER_SYMPTOM, sym))
            return
    ctx.fail("failing-input", what, w, key=case.key())


def check_case(ctx, prop: str, case: Case, data, pending: list, extra_oracle=None):
    """Runs the implementation and the oracles; queues the model request.  Returns nothing; failures go to ctx."""
    ctx.evaluations += 1
    for t in case.tags:
        ctx.count("tags", t)
    ctx.count("group", case.group or "-")
    ctx.count("closure_depth", str(case.depth))
    try:
        sess, mod = run_case(case, data)
        if not sess.shots or (case.twice and len(sess.shots) != 2):
            raise RuntimeError("Select was called %d times" % len(sess.shots))
    except Exception as ex:  # noqa  (a generated program that does not run is a generator bug, not a verdict)
        ctx.count("impl_result", "generated-program-failed:" + type(ex).__name__)
        ctx.notes.append("generated program failed (%s): %s" % (type(ex).__name__, case.lam)) if len(ctx.notes) < 20 else None
        return
    ctx.count("passed_as", case.passed + ("/twice" if case.twice else ""))
    for rec in sess.shots:
        check_shot(ctx, prop, case, rec, data, pending, extra_oracle)


def check_shot(ctx, prop: str, case: Case, rec, data, pending: list, extra_oracle=None):
    """One call of Select: oracles on the implementation's result, model request queued."""
    nth = "" if rec.call_index == 0 else " [call #%d with the same callable, after rebinding]" % (rec.call_index + 1)
    if rec.call_index:
        ctx.count("second_call", rec.status)
    if case.passed.startswith("var") and rec.status != "ok":
        # a lambda first stored in a variable and passed later: source recovery refuses it (C03's business; C03 allows
        # raising) - nothing of C04/C05 to check on this call
        ctx.count("impl_result", "stored-lambda-not-recovered(C03):" + rec.status)
        return
    ctx.count("impl_result", rec.status if rec.status != "ok" else "ok/gate=" + str(rec.gate))
    w = dict(case.describe(), program=case.source(), call=rec.call_index + 1)
    oracle_ok = True
    why = None
    symptom = None
    if rec.status == "ok":
        # history clause: after every captured name was rebound / deleted the recorded lambda is what it was
        if bridge.to_sx(rec.tree) != rec.sx_at_call:
            oracle_ok, why = False, "recorded lambda changed after the captured names were rebound"
        # the gate: a tree that passes check_ast carries only transportable constants; otherwise ValueError
        consts = [n.value for n in ast.walk(rec.tree) if isinstance(n, ast.Constant)]
        legal = all(isinstance(c, LEGAL_TYPES) for c in consts)
        want_gate = "ok" if legal else "ValueError"
        if rec.gate != want_gate:
            oracle_ok, why = False, "check_ast gave %s, the constants %s require %s" % (
                rec.gate, [type(c).__name__ for c in consts], want_gate)
        # well-formedness: what was recorded is a Python expression
        bad = ill_formed(rec.tree)
        ctx.count("wellformed_oracle", "ok" if bad is None else "ill-formed")
        if oracle_ok and bad is not None:
            oracle_ok, why = False, "the recorded lambda `%s` is not a Python expression: %s" % (bridge.dump(rec.tree), bad)
        # meaning: the recorded lambda, evaluated after the rebinding with no captured name in sight, computes what
        # the real callable computed at the call
        if oracle_ok and rec.gate == "ok":
            got = eval_recorded(rec.tree, byname_namespace(case, rec), data)
            n_cmp = 0
            for (es, ev), (gs, gv), d in zip(rec.expected, got, data):
                if es != "ok":
                    continue
                n_cmp += 1
                if gs != "ok" or not same_value(ev, gv):
                    oracle_ok = False
                    why = "python computes %r, the recorded lambda `%s` computes %s" % (
                        ev, bridge.dump(rec.tree), repr(gv) if gs == "ok" else "raises " + str(gv))
                    symptom = "value: python gives %s, the recorded lambda %s" % (
                        value_kind(ev), value_kind(gv) if gs == "ok" else "raises " + str(gv))
                    break
            ctx.count("semantic_oracle", "compared" if n_cmp else "python-raises-on-all-data")
            if any(es == "ok" and isinstance(ev, FunValue) for es, ev in rec.expected):
                ctx.count("semantic_oracle", "function-valued result: called on probe arguments")
            if n_cmp:
                ctx.distinct.add(case.key())
    elif rec.status == "ValueError":
        # a ValueError is the allowed refusal; it is only wrong when python itself computes values and everything
        # captured is transportable - judged by the specific oracles of C03 (source recovery), not here
        ctx.count("semantic_oracle", "refused-ValueError")
    else:
        oracle_ok, why = False, "parse_as_ast raised %s (%s): neither a query nor ValueError" % (rec.status, getattr(rec, "msg", ""))
    if oracle_ok and extra_oracle is not None:
        msg = extra_oracle(case, rec)
        if msg:
            oracle_ok, why = False, msg
    if not oracle_ok:
        wkey = OPEN_WITNESSES.get(case.source())
        if wkey is not None:
            # an open finding, matched by its exact program text (see OPEN_WITNESSES)
            ctx.count("open_finding", wkey)
            if wkey not in _reported_open:
                _reported_open.add(wkey)
                print("KNOWN-FINDING: property=%s %s: `%s` -> %s" % (prop, wkey, case.lam, why[:300]))
        else:
            report_failing_input(ctx, prop, case, "%s: `%s`%s -> %s" % (prop, case.lam, nth, why), why, w, symptom)
    mi = rec.mi
    if rec.unreported:
        ctx.count("model", "closure-cell-not-reported-by-inspect(bound-only or CPython quirk)")
    if rec.mi_error:
        ctx.count("model", "input-construction-failed:" + rec.mi_error)
        return
    if mi is None:
        ctx.count("model", "outside-domain(snapshot not part of the case description, or undecodable lambda)")
        return
    ctx.count("model_input", "plain lambdas only" if plain_tree(ast.parse(case.lam, mode="eval").body) and "(Other " not in mi[0]
              else "default values / other parameter kinds (lam_view)")
    if any(isinstance(n, ast.Starred) for n in ast.walk(ast.parse(case.lam, mode="eval").body)):
        ctx.count("model_input", "starred argument")
    pending.append((case, rec, mi, oracle_ok, w))


def flush_model(ctx, prop: str, pending: list):
    if not pending:
        return
    answers = ctx.driver.call("parse", [[mi[0], mi[1]] for (_, _, mi, _, _) in pending])
    gates = ctx.driver.call("check", [[a[3:]] if a.startswith("OK ") else ["(Name s)"] for a in answers])
    for (case, rec, mi, oracle_ok, w), ans, g in zip(pending, answers, gates):
        ctx.corr_cases += 1
        if rec.status == "ok":
            got = "OK " + rec.sx_at_call
            got_gate = "OK" if rec.gate == "ok" else ("ERR ValueError" if rec.gate == "ValueError" else "ERR Crash")
        elif rec.status == "ValueError":
            got, got_gate = "ERR ValueError", None
        else:
            got, got_gate = "ERR Crash", None
        ctx.count("model", "agree" if ans == got else "differ")
        bad = ans != got or (got_gate is not None and ans.startswith("OK ") and g != got_gate)
        if bad:
            ctx.corr_disagreements += 1
            if oracle_ok:
                ctx.fail("no-failing-input-found",
                         "correspondence parse_callable (Model/Capture.v) vs parse_as_ast/check_ast broke on `%s`: "
                         "model %s gate %s ; code %s gate %s" % (
                             case.lam + ("" if not rec.call_index else " [call #2 with the same callable]"),
                             _short(ans), g, _short(got), got_gate),
                         dict(w, model=ans, impl=got, cenv=mi[0]))
    pending.clear()


def _short(s: str) -> str:
    if s.startswith("OK "):
        try:
            return bridge.dump(bridge.from_sx(s[3:]))
        except Exception:  # noqa
            return s[:160]
    return s


def run_cases(ctx, prop: str, cases: List[Case], extra_oracle=None):
    data = make_data()
    pending: list = []
    seen = set()
    for c in cases:
        k = c.key()
        if k in seen:
            continue
        seen.add(k)
        check_case(ctx, prop, c, data, pending, extra_oracle)
        if len(pending) >= 400:
            flush_model(ctx, prop, pending)
    flush_model(ctx, prop, pending)


def replay_case(ctx, prop: str, w):
    case = Case.from_description(w)
    # helper information is not stored in a witness: the model is not needed for a replay, the oracle is
    pending: list = []
    check_case(ctx, prop, case, make_data(), pending)


# ---------------------------------------------------------------- value catalogue

def value_vars(name: str, scope: str) -> List[Tuple[str, Var]]:
    """(label, Var) for values of every kind bound to `name`."""
    out = []

    def lit(label, src):
        out.append((label, Var(name, scope, "%s = %s" % (name, src))))

    lit("int", "5")
    lit("negint", "-3")
    lit("bigint", "10**20")
    lit("bool", "True")
    lit("float", "2.5")
    lit("str", "'s\"q\\n'")
    lit("bytes", "b'ab'")
    lit("complex", "(1+2j)")
    lit("None", "None")
    lit("Ellipsis", "...")
    lit("list", "[1, 2]")
    lit("tuple", "(1, 2)")
    lit("dict", "{'k': 1}")
    lit("set", "{1}")
    lit("range", "range(3)")
    out.append(("object", Var(name, scope, "class _O_%s:\n    pt = 4\n%s = _O_%s()" % (name, name, name))))
    out.append(("class", Var(name, scope, "class %s:\n    C = 5\n    class In:\n        D = 6" % name)))
    out.append(("module", Var(name, scope, "%s = math" % name)))
    out.append(("builtin-fn", Var(name, scope, "%s = abs" % name, byname=True)))
    out.append(("multi-stmt-fn", Var(name, scope, "def %s(q):\n    t = q\n    return t" % name, byname=True)))
    out.append(("lambda-helper", Var(name, scope, "%s = lambda q: q * 2" % name, lam_helper=True)))
    # F34 / F35: callables with a single-return source that must stay calls by name
    out.append(("bound-method", Var(name, scope, "class _M_%s:\n    def __init__(self, s):\n        self.s = s\n    def meth(self, q):\n        return q * self.s\n%s = _M_%s(3).meth" % (name, name, name),
                                    helper=(["self", "q"], "q * self.s"), byname=True, stays=True)))
    out.append(("wraps-decorated", Var(name, scope, "def _d_%s(f):\n    @functools.wraps(f)\n    def inner(q):\n        return f(q) + 100\n    return inner\n@_d_%s\ndef %s(q):\n    return q + 1" % (name, name, name),
                                       helper=(["q"], "q + 1"), byname=True, stays=True)))
    out.append(("callable-object", Var(name, scope, "class _C_%s:\n    def __call__(self, q):\n        return q\n%s = _C_%s()" % (name, name, name), byname=True)))
    return out

"""Shared machinery of C01 (end to end: a fluent query means what the user's Python chain computes).

Every case is a generated *Python program* (a source file written under /verif/.work/pipe-<pid>/, imported
and run).  The program defines a small class model with real method bodies (annotations, defaults, callbacks
that attach MetaData), captured values and one-line helpers, and a function ``build(ds)`` that builds chains of
Select / Where / SelectMany calls on ``ds`` - lambdas supplied as Python callables, source strings or ast
objects - and returns the streams to evaluate (possibly through a result-format terminal).

``build`` is run twice:

  * on a func_adl ``EventDataset`` subclass whose ``execute_result_async`` records the AST that ``value()``
    hands over (the implementation);
  * on ``Direct``, a thin wrapper around the in-memory lazy sequence ``Seq`` holding instances of the
    program's own classes: there Python itself runs the callables (the meaning of the chain).

The recorded AST is then evaluated by CPython (compile + eval in a namespace that defines the operators in
function form over ``Seq``, MetaData as the identity, the terminals as tagged identities) on several seeded
datasets - as recorded and after every composition of the backend passes the library exports - and every
result is compared with what direct execution gave.

The model side (coq/FA/Model/Pipeline.v, extracted) gets the description of the same program: per output the
path of stages from the dataset (operator, how the lambda was supplied, its source text parsed by the harness,
the snapshot of captured variables taken at the call), the class table read from the live classes, the
terminal; it answers with the AST it builds, compared exactly with the recorded one.
"""
from __future__ import annotations

import ast
import atexit
import builtins
import copy
import dataclasses
import importlib.util
import inspect
import itertools
import logging
import os
import random
import shutil
import sys
import types
import warnings
from typing import Any, Dict, List, Optional, Tuple

import bridge
import core

warnings.filterwarnings("ignore", category=SyntaxWarning)
logging.disable(logging.WARNING)      # the library logs "Unknown type for name ..." for every free name of an untyped lambda

TAG = "pipe"
EXTRACT = "FA/Extract/ExtractPipe.v"
DRIVER = "driver_pipe.ml"

WORKDIR = os.path.join(core.WORK, "pipe-%d" % os.getpid())


def _cleanup():
    shutil.rmtree(WORKDIR, ignore_errors=True)


atexit.register(_cleanup)


# =====================================================================================================
# runtime of the generated programs and of the oracle: lazy sequences
# =====================================================================================================

class Seq:
    """In-memory sequence with the LINQ operators in method form.  Evaluation is lazy, as in LINQ: an
    element is computed when it is first demanded (First demands one element, Count/len and the final
    comparison demand all) and memoised."""

    eager = False       # True while Python runs a chain directly: plain list semantics, every element computed at once
    #                     (a lazy element would see the *last* value of an enclosing comprehension variable - Python's
    #                     late binding of closures, an artefact of laziness that list semantics does not have)

    def __init__(self, it=()):
        self._it = iter(it)
        self._buf = []
        self._err = None
        if Seq.eager:
            self._fill()

    def _fill(self, n=None):
        while n is None or len(self._buf) <= n:
            if self._err is not None:
                raise self._err          # the element that failed fails again for every later consumer
            try:
                self._buf.append(next(self._it))
            except StopIteration:
                break
            except Exception as ex:  # noqa
                self._err = ex
                raise

    def __iter__(self):
        i = 0
        while True:
            self._fill(i)
            if i >= len(self._buf):
                return
            yield self._buf[i]
            i += 1

    def __len__(self):
        self._fill()
        return len(self._buf)

    def __getitem__(self, i):
        if isinstance(i, bool) or not isinstance(i, int):
            raise TypeError("sequence index must be an integer")
        if i >= 0:
            self._fill(i)
        else:
            self._fill()
        return self._buf[i]

    def Select(self, f):
        return Seq(f(x) for x in self)

    def Where(self, f):
        return Seq(x for x in self if f(x))

    def SelectMany(self, f):
        return Seq(y for x in self for y in _seq(f(x)))

    def First(self):
        return self[0]

    def Count(self):
        return len(self)

    def Sum(self):
        return sum(self)

    def Aggregate(self, init, f):
        acc = init
        for x in self:
            acc = f(acc, x)
        return acc


def _seq(s):
    """Operators range over sequences: a Seq, a Python list (what a comprehension gives) or a generator."""
    if isinstance(s, (Seq, list, types.GeneratorType)):
        return s
    raise TypeError("not a sequence: %s" % type(s).__name__)


class RecDict(dict):
    """func_adl's record convention: a dictionary literal of the query language is a record whose entries are
    also reachable as attributes (`{'x': 1}.x`)."""

    def __getattr__(self, k):
        try:
            return self[k]
        except KeyError:
            raise AttributeError(k)


class Term:
    """What a result-format terminal denotes: the sequence, tagged with the node name and the literal arguments."""

    def __init__(self, name, seq, *args):
        self.name, self.seq, self.args = name, seq, args


def ops_namespace(root=None) -> Dict[str, Any]:
    """The operators in function form, MetaData as the identity, the terminals, the dataset constructor."""

    def Select(s, f):
        return Seq(f(x) for x in _seq(s))

    def Where(s, f):
        return Seq(x for x in _seq(s) if f(x))

    def SelectMany(s, f):
        return Seq(y for x in _seq(s) for y in _seq(f(x)))

    def First(s):
        return _seq(s)[0] if not isinstance(s, types.GeneratorType) else next(s)

    def _fold(s):
        "the folds (len / Count / Sum / Aggregate) also range over a tuple, set or dict built from a sequence"
        return s if isinstance(s, (tuple, set, frozenset, dict)) else _seq(s)

    def Count(s):
        return len(_fold(s)) if not isinstance(s, types.GeneratorType) else len(list(s))

    def Sum(s):
        return sum(_fold(s))

    def Aggregate(s, init, f):
        acc = init
        for x in _fold(s):
            acc = f(acc, x)
        return acc

    def MetaData(s, d):
        if not isinstance(d, dict):
            raise TypeError("MetaData takes a dictionary")
        return s

    ns = {"Select": Select, "Where": Where, "SelectMany": SelectMany, "First": First, "Count": Count,
          "len": Count, "Sum": Sum, "Aggregate": Aggregate, "MetaData": MetaData, "abs": abs,
          "sum": sum, "any": any, "all": all, "list": list, "tuple": tuple, "sorted": sorted,
          "ResultAwkwardArray": lambda s, cols: Term("ResultAwkwardArray", s, cols),
          "ResultPandasDF": lambda s, cols: Term("ResultPandasDF", s, cols),
          "ResultTTree": lambda s, cols, tree, fname: Term("ResultTTree", s, cols, tree, fname),
          "ResultParquet": lambda s, cols, fname: Term("ResultParquet", s, cols, fname),
          "__rec__": RecDict, "__builtins__": {}}
    if root is not None:
        ns["EventDataset"] = lambda: root
    return ns


class _DictsAsRecords(ast.NodeTransformer):
    def visit_Dict(self, node):
        self.generic_visit(node)
        return ast.Call(func=ast.Name(id="__rec__", ctx=ast.Load()), args=[node], keywords=[])


def clone(n):
    """Field-wise copy of an ast (copy.deepcopy would drag the executor and the dataset object hung on the root
    node along); Constant values are shared."""
    if isinstance(n, ast.Constant):
        return ast.Constant(value=n.value)
    if isinstance(n, ast.AST):
        m = type(n)()
        for f, v in ast.iter_fields(n):
            setattr(m, f, [clone(x) for x in v] if isinstance(v, list) else clone(v))
        return m
    return n


def compile_expr(tree: ast.AST):
    t = _DictsAsRecords().visit(clone(tree))
    return compile(ast.fix_missing_locations(ast.Expression(body=t)), "<query>", "eval")


def L(src: str) -> ast.Lambda:
    """a lambda handed over as an ast object (used by the generated programs)"""
    return ast.parse(src.strip()).body[0].value


class Direct:
    """The chain run by Python itself on an in-memory sequence.  A callable is applied as it is; a string or an
    ast object means the Python lambda it spells (operator names in function form have their LINQ meaning,
    dictionary literals are records)."""

    def __init__(self, seq, err=None):
        self.seq = seq
        self.err = err          # the exception Python raised while computing this stream (list semantics: at once)

    @staticmethod
    def _fn(f):
        if isinstance(f, str):
            f = ast.parse(f.strip()).body[0].value
        if isinstance(f, ast.AST):
            return eval(compile_expr(f), ops_namespace())
        return f

    def _op(self, name, f):
        if self.err is not None:
            return Direct(None, self.err)
        try:
            return Direct(getattr(self.seq, name)(self._fn(f)))
        except RecursionError:
            raise
        except Exception as ex:  # noqa  (only the streams derived from this one are lost)
            return Direct(None, ex)

    def Select(self, f):
        return self._op("Select", f)

    def Where(self, filter):            # parameter names as ObjectStream's: a lambda may be passed by keyword
        return self._op("Where", filter)

    def SelectMany(self, func):
        return self._op("SelectMany", func)

    def _term(self, name, *args):
        if self.err is not None:
            return Direct(None, self.err)
        return DirectOut(Term(name, self.seq, *args))

    @staticmethod
    def _cols(columns):
        return [columns] if isinstance(columns, str) else list(columns)

    def AsPandasDF(self, columns=[]):
        return self._term("ResultPandasDF", self._cols(columns))

    def AsROOTTTree(self, filename, treename, columns=[]):
        return self._term("ResultTTree", self._cols(columns), treename, filename)

    def AsParquetFiles(self, filename, columns=[]):
        return self._term("ResultParquet", self._cols(columns), filename)

    def AsAwkwardArray(self, columns=[]):
        return self._term("ResultAwkwardArray", self._cols(columns))

    as_pandas = AsPandasDF
    as_ROOT_tree = AsROOTTTree
    as_parquet = AsParquetFiles
    as_awkward = AsAwkwardArray

    def value(self):
        if self.err is not None:
            raise self.err
        return self.seq


class DirectOut:
    def __init__(self, t):
        self.t = t

    def value(self):
        return self.t


def canon(v: Any, depth: int = 0) -> Any:
    """Canonical form of a result: sequences by their elements (Seq, list and generator alike), records by their
    entries (dict literal, dataclass instance and NamedTuple alike), backend objects by class and identity."""
    if depth > 40:
        return ("deep",)
    if isinstance(v, bool):
        return ("b", v)
    if isinstance(v, int):
        return ("i", v)
    if isinstance(v, float):
        return ("f", repr(v))
    if isinstance(v, (str, bytes, complex)) or v is None:
        return (type(v).__name__, repr(v))
    if isinstance(v, (Seq, list, types.GeneratorType)):
        return ("seq", tuple(canon(x, depth + 1) for x in v))
    if isinstance(v, tuple) and hasattr(v, "_fields"):
        return ("rec", tuple((k, canon(getattr(v, k), depth + 1)) for k in v._fields))
    if isinstance(v, tuple):
        return ("tup", tuple(canon(x, depth + 1) for x in v))
    if isinstance(v, dict):
        return ("rec", tuple((k, canon(x, depth + 1)) for k, x in v.items()))
    if dataclasses.is_dataclass(v) and not isinstance(v, type):
        # what Python's constructor bound, read as the dictionary of the GIVEN init parameters in signature order
        # (a parameter left to its default holds the class model's _OMIT marker; init=False fields are no parameters)
        items = []
        for name in inspect.signature(type(v)).parameters:
            val = getattr(v, name, None)
            if type(val).__name__ != "_Omit":
                items.append((name, canon(val, depth + 1)))
        return ("rec", tuple(items))
    if isinstance(v, Term):
        return ("term", v.name, canon(v.seq, depth + 1), tuple(canon(a, depth + 1) for a in v.args))
    if hasattr(v, "ident"):
        return ("obj", type(v).__name__, v.ident)
    return ("other", type(v).__name__)


# =====================================================================================================
# the class model of a program (source text with real bodies) and its data
# =====================================================================================================

CLASS_TEMPLATE = '''\
def _cb_jetcls(s, a):
    return s.MetaData({md_jet!r}), a


def _cb_trkpt(s, a):
    return s.MetaData({md_trk!r}), ast.Call(func=ast.Attribute(value=a.func.value, attr="pt_v2", ctx=ast.Load()), args=a.args, keywords=a.keywords)


def _cb_evcls(s, a):
    return s.MetaData({md_ev!r}), a


class Trk:
    def __init__(self, ident, a, b, tag):
        self.ident, self.a, self.b, self.tag = ident, a, b, tag

    {deco_trkpt}
    def pt(self, k: int = {trk_k}) -> int:
        return self.a + k

    def pt_v2(self, k: int = {trk_k}) -> int:
        return self.a + k

    def q(self) -> int:
        return self.b

    def ok(self, cut: int = {trk_cut}) -> bool:
        return self.b > cut


{deco_jet}
class Jet:
    def __init__(self, ident, a, b, tag, trk):
        self.ident, self.a, self.b, self.tag, self.trk = ident, a, b, tag, Seq(trk)

    def pt(self, scale: int = {jet_scale}, k: int = {jet_k}) -> int:
        return self.a * scale + k

    def eta(self) -> int:
        return self.b

    def good(self, cut: int = {jet_cut}) -> bool:
        return self.a > cut

    def trks(self, kind: int = {jet_kind}) -> Iterable[Trk]:
        return Seq(t for t in self.trk if t.b >= kind)


{deco_ev}
class Event:
    def __init__(self, ident, a, b, tag, jets, trk):
        self.ident, self.a, self.b, self.tag, self.jets, self.trk = ident, a, b, tag, Seq(jets), Seq(trk)

    def Jets(self, cut: int = {ev_cut}, bank: str = {ev_bank!r}) -> Iterable[Jet]:
        return Seq(j for j in self.jets if j.a > cut and bank != "none")

    def Trks(self) -> Iterable[Trk]:
        return Seq(self.trk)

    def met(self, k: int = {ev_k}) -> int:
        return self.b * 2 + k

    def n(self) -> int:
        return len(self.jets)


@dataclasses.dataclass
class P2:
    x: Any
    y: Any


class N2(NamedTuple):
    u: Any
    v: Any


class _Omit:
    "the value of a record parameter that was not given (the library lowers a constructor call to the dictionary of the GIVEN parameters)"


_OMIT = _Omit()


@dataclasses.dataclass
class R3:                       # a field that is no constructor parameter, declared in front of a later parameter
    x: Any
    tmp: Any = dataclasses.field(init=False, default=_OMIT)
    y: Any = _OMIT


@dataclasses.dataclass
class R4:                       # a constructor parameter that is no field
    x: Any
    s: dataclasses.InitVar[Any]
    y: Any = _OMIT

    def __post_init__(self, s):
        self.s = s


@dataclasses.dataclass
class R5:                       # a keyword-only field declared first: the signature is (x, y=..., *, k)
    k: Any = dataclasses.field(kw_only=True)
    x: Any
    y: Any = _OMIT


@dataclasses.dataclass(kw_only=True)
class _B6:
    k: Any = _OMIT


@dataclasses.dataclass
class R6(_B6):                  # keyword-only base, plain subclass: fields k, x, y - signature (x, y=..., *, k=...)
    x: Any
    y: Any = _OMIT


@dataclasses.dataclass
class R7:                       # the KW_ONLY sentinel after an init=False field
    n: Any = dataclasses.field(init=False, default=_OMIT)
    x: Any = _OMIT
    _: dataclasses.KW_ONLY
    k: Any = _OMIT
'''

# constructor signatures of the record classes: positional parameters, keyword-only parameters, required ones
RECORD_CLASSES = {
    "R3": (["x", "y"], [], {"x"}),
    "R4": (["x", "s", "y"], [], {"x", "s"}),
    "R5": (["x", "y"], ["k"], {"x", "k"}),
    "R6": (["x", "y"], ["k"], {"x"}),
    "R7": (["x"], ["k"], set()),
}

PRELUDE = '''\
# generated by harness/props/pipe_common.py
import ast
import dataclasses
import math
from typing import Any, Iterable, NamedTuple

from func_adl import func_adl_callback
from pipe_common import Seq, L

'''

METHODS = {
    # class -> method -> (params with kind, return type)
    "Trk": {"pt": (["k"], "int"), "q": ([], "int"), "ok": (["cut"], "bool")},
    "Jet": {"pt": (["scale", "k"], "int"), "eta": ([], "int"), "good": (["cut"], "bool"),
            "trks": (["kind"], ("seq", ("rec", "Trk")))},
    "Event": {"Jets": (["cut"], ("seq", ("rec", "Jet"))), "Trks": ([], ("seq", ("rec", "Trk"))),
              "met": (["k"], "int"), "n": ([], "int")},
}
SEQ_ATTRS = {"Event": {"jets": "Jet", "trk": "Trk"}, "Jet": {"trk": "Trk"}, "Trk": {}}


def class_model(rng: random.Random) -> dict:
    """Parameters of the class model of one program: defaults and which callbacks are attached."""
    return {
        "trk_k": rng.choice([0, 1, 3]), "trk_cut": rng.choice([0, -1, 2]),
        "jet_scale": rng.choice([1, 2, 3]), "jet_k": rng.choice([0, 5, -2]), "jet_cut": rng.choice([0, 2, -3]),
        "jet_kind": rng.choice([0, 1, -5]), "ev_cut": rng.choice([-100, 0, 2]), "ev_bank": rng.choice(["std", "b"]),
        "ev_k": rng.choice([0, 10]),
        "cb_jet": rng.random() < 0.5, "cb_trkpt": rng.random() < 0.5, "cb_ev": rng.random() < 0.3,
        "md_jet": {"j": rng.randrange(3)}, "md_trk": {"t": "pt", "n": rng.randrange(3)}, "md_ev": {"e": 1},
    }


def class_source(cm: dict) -> str:
    d = dict(cm)
    d["deco_jet"] = "@func_adl_callback(_cb_jetcls)" if cm["cb_jet"] else "# no class callback"
    d["deco_ev"] = "@func_adl_callback(_cb_evcls)" if cm["cb_ev"] else "# no class callback"
    d["deco_trkpt"] = "@func_adl_callback(_cb_trkpt)" if cm["cb_trkpt"] else "# no method callback"
    return CLASS_TEMPLATE.format(**d)


def make_data(mod, rng: random.Random, n: int = 6) -> List[list]:
    """Datasets of Event objects of the program's own classes: the empty dataset, an event whose collections are
    all empty, random events nested two levels."""
    counter = itertools.count(1)
    tags = ["a", "b", "c", "a  b", "t\tq"]      # text with runs of blanks and a tab: it must survive every way of supplying a lambda

    def trk():
        return mod.Trk(next(counter), rng.randrange(-4, 9), rng.randrange(-3, 5), rng.choice(tags))

    def jet():
        return mod.Jet(next(counter), rng.randrange(-5, 9), rng.randrange(-3, 4), rng.choice(tags),
                       [trk() for _ in range(rng.randrange(0, 4))])

    def event():
        return mod.Event(next(counter), rng.randrange(-5, 9), rng.randrange(-3, 4), rng.choice(tags),
                         [jet() for _ in range(rng.randrange(0, 4))], [trk() for _ in range(rng.randrange(0, 3))])

    out = [[], [mod.Event(next(counter), 1, 2, "a", [], [])]]
    for k in range(n - 3):
        out.append([event() for _ in range(rng.randrange(1, 4) if k else 1)])
    # a dataset with repeated values in every projected field (set / dict comprehensions de-duplicate)
    def twins(make, m):
        return [make() for _ in range(m)]
    a, b = rng.randrange(1, 6), rng.randrange(0, 4)
    out.append([mod.Event(next(counter), a, b, "b",
                          twins(lambda: mod.Jet(next(counter), a, b, "a", twins(lambda: mod.Trk(next(counter), b, a, "c"), 2)), 4),
                          twins(lambda: mod.Trk(next(counter), a, b, "a"), 3)) for _ in range(2)])
    return out


# =====================================================================================================
# program generator
# =====================================================================================================

INT, BOOL = ("int",), ("bool",)


def REC(c):
    return ("rec", c)


def SEQ(t):
    return ("seq", t)


def PYL(t):
    return ("pyl", t)           # what a Python comprehension gives in direct execution: len, index, iteration only


def TUP(ts):
    return ("tup", tuple(ts))


def DCT(ctor, items):
    return ("dct", ctor, tuple(items))


class Stage:
    def __init__(self, parent: int, op: str, mode: str, lam: str, item_in, item_out, kw=False, rep=None):
        self.parent, self.op, self.mode, self.lam = parent, op, mode, lam
        self.item_in, self.item_out = item_in, item_out
        self.kw = kw            # the lambda is passed by keyword: Select(f=lambda ...), Where(filter=...), SelectMany(func=...)
        self.rep = rep          # (group id, how, captured name, value): the lambda is *written once* and turned into a
        #                         query once per member of the group, each time with another value of the captured name;
        #                         how = "loop" | "local-factory" | "global-factory" | "rebind"


KW_NAME = {"Select": "f", "Where": "filter", "SelectMany": "func"}


class Program:
    """Description of one generated program (also what the model side is built from)."""

    def __init__(self):
        self.cm: dict = {}
        self.typed = False
        self.globals_src: List[str] = []        # module-level captured values and helpers (source lines)
        self.locals_src: List[str] = []         # locals of build() (closure variables and local helpers)
        self.helpers: Dict[str, Tuple[List[str], str, str]] = {}    # name -> (params, body source, scope)
        self.stages: List[Stage] = []           # stage k builds stream k+1; stream 0 is the dataset
        self.outputs: List[Tuple[int, Optional[Tuple[str, str]]]] = []   # (stream, (terminal method, argument text))
        self.features: set = set()
        self.style = "lines"
        self.expect_refusal = False

    def groups(self) -> Dict[int, List[int]]:
        g: Dict[int, List[int]] = {}
        for i, st in enumerate(self.stages):
            if st.rep is not None:
                g.setdefault(st.rep[0], []).append(i)
        return g

    def source(self) -> str:
        groups = self.groups()
        out = [PRELUDE, class_source(self.cm), ""]
        out += self.globals_src
        for gid, members in sorted(groups.items()):
            st = self.stages[members[0]]
            if st.rep[1] == "global-factory":
                out += ["", "", "def _mk%d(src, %s):" % (gid, st.rep[2]), "    return src.%s(%s)" % (st.op, self._arg(st))]
        out += ["", "", "def build(ds):"]
        out += ["    " + s for ln in self.locals_src for s in ln.split("\n")]
        out.append("    s0 = ds")
        fluent = (self.style == "fluent" and self.stages and all(st.parent == i for i, st in enumerate(self.stages))
                  and all(s == len(self.stages) for s, _ in self.outputs) and not groups)
        if fluent:
            out.append("    s%d = (s0" % len(self.stages))
            for st in self.stages:
                out.append("          .%s(%s)" % (st.op, self._arg(st)))
            out[-1] += ")"
        else:
            done = set()
            for i, st in enumerate(self.stages):
                if st.rep is None:
                    out.append("    s%d = s%d.%s(%s)" % (i + 1, st.parent, st.op, self._arg(st)))
                    continue
                gid, how, kname, _ = st.rep
                if gid in done:
                    continue
                done.add(gid)
                members = groups[gid]
                vals = [self.stages[m].rep[3] for m in members]
                if how == "loop":
                    out.append("    _r%d = []" % gid)
                    out.append("    for %s in (%s,):" % (kname, ", ".join(repr(v) for v in vals)))
                    out.append("        _r%d.append(s%d.%s(%s))" % (gid, st.parent, st.op, self._arg(st)))
                    out.append("    %s, = _r%d" % (", ".join("s%d" % (m + 1) for m in members), gid))
                elif how == "rebind":
                    out.append("    def _mk%d(src):" % gid)
                    out.append("        return src.%s(%s)" % (st.op, self._arg(st)))
                    for m, v in zip(members, vals):
                        out.append("    %s = %r" % (kname, v))
                        out.append("    s%d = _mk%d(s%d)" % (m + 1, gid, self.stages[m].parent))
                else:
                    if how == "local-factory":
                        out.append("    def _mk%d(src, %s):" % (gid, kname))
                        out.append("        return src.%s(%s)" % (st.op, self._arg(st)))
                    for m, v in zip(members, vals):
                        out.append("    s%d = _mk%d(s%d, %r)" % (m + 1, gid, self.stages[m].parent, v))
        rets = []
        for s, term in self.outputs:
            rets.append("s%d" % s if term is None else "s%d.%s(%s)" % (s, term[0], term[1]))
        out.append("    return [%s]" % ", ".join(rets))
        return "\n".join(out) + "\n"

    @staticmethod
    def _arg(st: Stage) -> str:
        if st.mode == "callable":
            return ("%s=%s" % (KW_NAME[st.op], st.lam)) if st.kw else st.lam
        if st.mode == "string":
            return repr(st.lam)
        return "L(%r)" % st.lam

    def path(self, stream: int) -> List[int]:
        """indices of the stages from the dataset to `stream`"""
        p = []
        while stream > 0:
            p.append(stream - 1)
            stream = self.stages[stream - 1].parent
        return list(reversed(p))

    def describe(self) -> dict:
        return {"typed": self.typed, "features": sorted(self.features),
                "stages": [{"parent": s.parent, "op": s.op, "mode": s.mode, "lambda": s.lam, "kw": s.kw,
                            "written_once": list(s.rep) if s.rep else None} for s in self.stages],
                "outputs": [[s, list(t) if t else None] for s, t in self.outputs]}


class ProgGen:
    """Random programs.  Lambda bodies are generated *typed* (int / bool / record of a model class / sequence /
    Python list / tuple / data record), well scoped, inside the Python-executable subset; how a body may be
    written depends on how the lambda is supplied (a callable may use captured variables, helpers, data-class
    constructors; a string or ast may use operators in function form and dictionary literals)."""

    BINDERS = ["e", "j", "t", "x", "y", "q", "w", "v", "r"]

    def __init__(self, rng: random.Random):
        self.r = rng
        self.p = Program()
        self.mode = "callable"
        self.fresh = 0
        self.caps: Dict[str, Tuple[str, Any]] = {}     # captured name -> (scope, type)
        self.hcount = 0
        self.gcount = 0
        self.in_helper = 0
        self.private: set = set()          # module globals created for one generator expression: never used again
        self.in_genexp = 0
        self.reserved: set = set()                     # the parameter of the lambda being written (used through projections)
        self.force_scope = None                        # inside a module-level helper only module globals are visible

    # ------------------------------------------------------------------ names
    def binder(self, env, avoid=(), shadow=True) -> str:
        inscope = {n for n, _ in env} | set(avoid) | self.reserved
        if not shadow:
            # the target of a set / dictionary comprehension (never lowered to an operator lambda): a fresh name.  The
            # simplifier's renaming knows comprehension scopes since F50, but a definition substituted into such a
            # comprehension is not protected from its targets (DESIGN 11.4); the generator stays clear of both.
            cand = [b for b in self.BINDERS if b not in inscope]
            if cand:
                return self.r.choice(cand)
            self.fresh += 1
            return "z%d" % self.fresh
        # now and then re-use the name of a captured variable or helper (it must be hidden by the parameter)
        if self.mode == "callable" and self.caps and self.r.random() < 0.06:
            c = self.r.choice(sorted(self.caps))
            if c not in inscope:
                self.p.features.add("binder-hides-capture")
                return c
        shadowable = [n for n, _ in env if n not in self.reserved and not n.startswith("_P")]
        if shadowable and self.r.random() < 0.07:
            self.p.features.add("binder-shadows-binder")
            return self.r.choice(shadowable)
        cand = [b for b in self.BINDERS if b not in inscope]
        if cand and self.r.random() < 0.9:
            return self.r.choice(cand)
        self.fresh += 1
        return "z%d" % self.fresh

    def vars_of(self, env, t):
        seen, out = set(), []
        for n, ty in reversed(env):
            if n in seen:
                continue
            seen.add(n)
            if ty == t:
                out.append(n)
        return out

    def recs(self, env):
        seen, out = set(), []
        for n, ty in reversed(env):
            if n in seen:
                continue
            seen.add(n)
            if ty[0] == "rec":
                out.append((n, ty[1]))
        return out

    # ------------------------------------------------------------------ captured values and helpers
    def new_capture(self, kind: str, env=()) -> str:
        r = self.r
        scope = r.choice(["g", "l"]) if self.force_scope is None else self.force_scope
        k = len(self.caps) + 1
        taken = {n for n, _ in env}
        name = ("g%d" if scope == "g" else "k%d") % k
        while name in taken or name in self.caps:
            k += 1
            name = ("g%d" if scope == "g" else "k%d") % k
        if scope == "l" and self.force_scope is None and r.random() < 0.2:
            # a closure variable that hides a module global of the same name (and another value)
            same = [n for n, (sc, kd) in self.caps.items() if sc == "g" and kd == kind and n not in taken
                    and not any(n in body for _, body, hs in self.p.helpers.values() if hs == "l")]
            if same:
                name = r.choice(same)
                self.p.features.add("closure-hides-global")
        values = {"int": lambda: repr(r.randrange(-3, 7)), "bool": lambda: r.choice(["True", "False"]),
                  "float": lambda: r.choice(["2.5", "0.5", "-1.25"]), "str": lambda: repr(r.choice(["a", "b", "it's"])),
                  "bytes": lambda: r.choice(["b'ab'", "b'a'"]), "complex": lambda: r.choice(["(1+2j)", "3j"]),
                  "none": lambda: "None", "list": lambda: "[1, 2]", "tuple": lambda: "(1, 2)", "dict": lambda: "{'k': 1}"}
        line = "%s = %s" % (name, values[kind]())
        (self.p.globals_src if scope == "g" else self.p.locals_src).append(line)
        self.caps[name] = (scope, kind)
        self.p.features.add("capture:%s:%s" % (kind, "global" if scope == "g" else "closure"))
        return name

    def capture_of(self, kind: str, env) -> str:
        if self.in_genexp and not self.in_helper:
            n = self.new_capture(kind, env)
            self.private.add(n)
            return n
        have = [n for n, (sc, k) in self.caps.items() if k == kind and n not in {x for x, _ in env}
                and (self.force_scope is None or sc == self.force_scope) and n not in self.private
                and not (self.in_helper and n.startswith("kk"))]     # a factory's parameter is not visible to a helper
        must = [n for n in have if n.startswith("kk")]
        if must and self.r.random() < 0.6:
            return self.r.choice(must)
        if have and self.r.random() < 0.5:
            return self.r.choice(have)
        return self.new_capture(kind, env)

    def new_helper(self, env) -> Optional[Tuple[str, str]]:
        """A one-line helper `def h(...): return ...`; returns (name, kind) with kind in int2 / rec:<cls> / seq:<cls>"""
        r = self.r
        scope = r.choice(["g", "l"]) if self.force_scope is None else self.force_scope
        self.hcount += 1
        name = "h%d" % self.hcount
        kind = r.choice(["int2", "int2", "rec", "seq", "int1"])
        saved_mode, saved_scope = self.mode, self.force_scope
        self.mode = "callable"
        self.in_helper += 1
        if scope == "g":
            self.force_scope = "g"
        if kind == "int2":
            ps = r.choice([["a", "b"], ["x", "y"], ["p", "e"]])
            body = self.int_expr([(ps[0], INT), (ps[1], INT)], 1, top=False)
        elif kind == "int1":
            ps = [r.choice(["a", "n", "j"])]
            body = self.int_expr([(ps[0], INT)], 1, top=False)
        elif kind == "rec":
            cls = r.choice(["Jet", "Trk", "Event"])
            ps = [r.choice(["o", "j", "e"])]
            body = self.int_expr([(ps[0], REC(cls))], 2, top=False)
            kind = "rec:" + cls
        else:
            cls = r.choice(["Jet", "Event"])
            ps = [r.choice(["o", "a", "e"])]
            elt = "Trk" if cls == "Jet" else "Jet"
            src = self.seq_source((ps[0], cls), elt)
            b = self.binder([(ps[0], REC(cls))])
            body = "%s.Select(lambda %s: %s)" % (src, b, self.int_expr([(ps[0], REC(cls)), (b, REC(elt))], 1, top=False))
            kind = "seq:" + cls
        self.mode, self.force_scope = saved_mode, saved_scope
        self.in_helper -= 1
        line = "def %s(%s): return %s" % (name, ", ".join(ps), body)
        (self.p.globals_src if scope == "g" else self.p.locals_src).append(line)
        self.p.helpers[name] = (ps, body, scope)
        self.caps[name] = (scope, "helper:" + kind)
        self.p.features.add("helper:" + kind.split(":")[0] + (":global" if scope == "g" else ":closure"))
        return name, kind

    def helper_of(self, want: str, env) -> Optional[str]:
        have = [n for n, (sc, k) in self.caps.items() if k.startswith("helper:") and k[7:].startswith(want)
                and n not in {x for x, _ in env} and (self.force_scope is None or sc == self.force_scope)]
        if have and self.r.random() < 0.6:
            return self.r.choice(have)
        if self.hcount >= 3:
            return self.r.choice(have) if have else None
        for _ in range(4):
            n, k = self.new_helper(env)
            if k.startswith(want):
                return n
        return None

    # ------------------------------------------------------------------ expressions
    def method_call(self, recv: str, cls: str, m: str) -> str:
        """`recv.m(...)` with the declared parameters given positionally, by keyword or left to their defaults"""
        r = self.r
        params = METHODS[cls][m][0]
        args, kws = [], []
        mode = r.choice(["defaults", "defaults", "pos", "kw", "mixed"])
        if params and mode != "defaults":
            vals = {p: ("'std'" if p == "bank" else repr(r.randrange(-2, 4))) for p in params}
            if mode == "pos":
                n = r.randrange(1, len(params) + 1)
                args = [vals[p] for p in params[:n]]
            elif mode == "kw":
                ks = r.sample(params, r.randrange(1, len(params) + 1))
                kws = ["%s=%s" % (p, vals[p]) for p in ks]
                self.p.features.add("kw-call")
            else:
                args = [vals[params[0]]]
                kws = ["%s=%s" % (p, vals[p]) for p in params[1:] if r.random() < 0.7]
                if kws:
                    self.p.features.add("kw-call")
        if params and len(args) + len(kws) < len(params):
            self.p.features.add("default-arg")
        return "%s.%s(%s)" % (recv, m, ", ".join(args + kws))

    def seq_source(self, rec: Tuple[str, str], elt: str) -> str:
        """a sequence of `elt` records reachable from the record variable `rec`"""
        n, cls = rec
        opts = []
        for a, c in SEQ_ATTRS[cls].items():
            if c == elt:
                opts.append("%s.%s" % (n, a))
        for m, (ps, ret) in METHODS[cls].items():
            if ret == SEQ(REC(elt)):
                opts.append(self.method_call(n, cls, m))
                opts.append(self.method_call(n, cls, m))
        return self.r.choice(opts)

    def seq_elt_choices(self, env) -> List[Tuple[Tuple[str, str], str]]:
        out = []
        for n, cls in self.recs(env):
            for elt in ("Jet", "Trk"):
                if elt in SEQ_ATTRS[cls].values():
                    out.append(((n, cls), elt))
        return out

    def op_call(self, src: str, op: str, lam: str) -> str:
        if self.mode != "callable" and self.r.random() < 0.35:
            self.p.features.add("function-form")
            return "%s(%s, %s)" % (op, src, lam)
        return "%s.%s(%s)" % (src, op, lam)

    def int_leaf(self, env) -> str:
        r = self.r
        vs = self.vars_of(env, INT)
        recs = self.recs(env)
        k = r.random()
        if vs and k < 0.35:
            return r.choice(vs)
        if recs and k < 0.75:
            n, cls = r.choice(recs)
            if r.random() < 0.5:
                return "%s.%s" % (n, r.choice(["a", "b"]))
            ms = [m for m, (_, ret) in METHODS[cls].items() if ret == "int"]
            return self.method_call(n, cls, r.choice(ms))
        if self.mode == "callable" and k < 0.9:
            kind = r.choice(["int", "int", "int", "float", "bool"])
            return self.capture_of(kind, env)
        return repr(r.randrange(0, 5))

    def int_expr(self, env, d, top=True) -> str:
        r = self.r
        if d <= 0:
            return self.int_leaf(env)
        k = r.randrange(17)
        if k == 16:
            sc = self.set_comp(env)
            if sc is not None:
                form = r.choice(["len", "len", "sum", "len-dict"])
                self.p.features.add("setcomp:" + form)
                if form == "len-dict":
                    return "len({%s: %s %s})" % (sc[0], r.choice(["1", sc[0]]), sc[1])
                return "%s({%s %s})" % ("len" if form == "len" else "sum", sc[0], sc[1])
        if k < 4:
            return "(%s %s %s)" % (self.int_expr(env, d - 1), r.choice(["+", "-", "*", "+"]), self.int_expr(env, d - 1))
        if k == 4:
            self.p.features.add("ifexp")
            return "(%s if %s else %s)" % (self.int_expr(env, d - 1), self.bool_expr(env, d - 1), self.int_expr(env, d - 1))
        if k == 5:
            return "(-%s)" % self.int_expr(env, d - 1)
        if k in (6, 7):
            ch = self.seq_elt_choices(env)
            if ch:
                rec, elt = r.choice(ch)
                s = self.seq_expr(REC(elt), env, d - 1, src=(rec, elt))
                form = r.randrange(4)
                if form == 0:
                    self.p.features.add("len")
                    return "len(%s)" % s
                if form == 3 and self.mode != "callable":
                    self.p.features.add("function-form")
                    return "Count(%s)" % s
                self.p.features.add("Count")
                return "%s.Count()" % s
        if k == 8:
            ch = self.seq_elt_choices(env)
            if ch:
                rec, elt = r.choice(ch)
                b = self.binder(env)
                s = self.op_call(self.seq_source(rec, elt), "Select",
                                 "lambda %s: %s" % (b, self.int_expr(env + [(b, REC(elt))], d - 1)))
                self.p.features.add("nested-op")
                if r.random() < 0.5:
                    self.p.features.add("Sum")
                    return "%s.Sum()" % s if self.mode == "callable" or r.random() < 0.5 else "Sum(%s)" % s
                self.p.features.add("First")
                return "%s.First()" % s if self.mode == "callable" or r.random() < 0.5 else "First(%s)" % s
        if k == 9:
            ch = self.seq_elt_choices(env)
            if ch:
                rec, elt = r.choice(ch)
                b = self.binder(env)
                self.p.features.add("comprehension")
                cond = (" if %s" % self.bool_expr(env + [(b, REC(elt))], d - 1)) if r.random() < 0.6 else ""
                return "len([%s for %s in %s%s])" % (self.int_expr(env + [(b, REC(elt))], d - 1), b,
                                                      self.seq_source(rec, elt), cond)
        if k == 15 and self.mode == "callable":
            form = r.choice(["sum", "sum", "len-list", "len-tuple-records"])
            g = self.genexp(self.genexp_record_type(env) if form == "len-tuple-records" else INT, env, d)
            if g is not None:
                self.p.features.add("genexp:" + form)
                if form == "sum":
                    return "sum(%s)" % g
                return "len(list(%s))" % g if form == "len-list" else "len(tuple(%s))" % g
        if k == 10:
            self.p.features.add("tuple-projection")
            es = [self.int_expr(env, d - 1) for _ in range(r.randrange(1, 4))]
            i = r.randrange(len(es))
            if r.random() < 0.08:
                i = i - len(es)          # refused by the type follower (a designed refusal), evaluated by the simplifier
            return "(%s,)[%d]" % (", ".join(es), i) if len(es) == 1 else "(%s)[%d]" % (", ".join(es), i)
        if k == 11:
            self.p.features.add("dict-projection")
            key = r.choice(["k", "pt", "a b"])
            other = r.choice(["z", "n"])
            dsrc = "{%r: %s, %r: %s}" % (other, self.int_expr(env, d - 1), key, self.int_expr(env, d - 1))
            if self.mode != "callable" and key.isidentifier() and r.random() < 0.5:
                return "%s.%s" % (dsrc, key)
            return "%s[%r]" % (dsrc, key)
        if k == 12 and self.mode == "callable":
            h = self.helper_of("int2", env) if r.random() < 0.7 else self.helper_of("int1", env)
            if h:
                n = len(self.p.helpers[h][0])
                self.p.features.add("helper-call")
                return "%s(%s)" % (h, ", ".join(self.int_expr(env, d - 1) for _ in range(n)))
        if k == 13 and self.mode == "callable":
            recs = self.recs(env)
            if recs:
                n, cls = r.choice(recs)
                h = self.helper_of("rec:" + cls, env)
                if h:
                    self.p.features.add("helper-call")
                    return "%s(%s)" % (h, n)
        if k == 14 and self.mode == "callable":
            kind = r.choice(["class-const", "module-attr", "complex-attr"])
            self.p.features.add("capture:" + kind)
            if kind == "class-const":
                if not any(s.startswith("class K:") for s in self.p.globals_src):
                    self.p.globals_src.append("class K:\n    C = 5\n    class In:\n        D = 6")
                    self.caps["K"] = ("g", "class")
                return r.choice(["K.C", "K.In.D"])
            if kind == "module-attr":
                return "(%s * math.pi)" % self.int_leaf(env)
            return "%s.real" % self.capture_of("complex", env)
        return self.int_leaf(env)

    def bool_expr(self, env, d, shape_only=False) -> str:
        """shape_only: the body of a top-level Where must have a boolean *shape* (comparison, and/or) for the type
        follower to accept it on untyped data"""
        r = self.r
        k = r.randrange(10)
        if d > 0 and k < 2:
            return "(%s %s %s)" % (self.bool_expr(env, d - 1, shape_only), r.choice(["and", "or"]),
                                   self.bool_expr(env, d - 1, shape_only))
        if d > 0 and k == 2 and not shape_only:
            return "(not %s)" % self.bool_expr(env, d - 1)
        if k == 9 and not shape_only and self.mode == "callable" and d > 0:
            g = self.genexp(BOOL, env, d)
            if g is not None:
                fn = r.choice(["any", "all"])
                self.p.features.add("genexp:" + fn)
                return "%s(%s)" % (fn, g)
        if k == 3 and not shape_only:
            recs = [(n, c) for n, c in self.recs(env) if c in ("Jet", "Trk")]
            if recs:
                n, c = r.choice(recs)
                return self.method_call(n, c, "good" if c == "Jet" else "ok")
        if k == 4:
            recs = self.recs(env)
            if recs:
                n, _ = r.choice(recs)
                if self.mode == "callable" and r.random() < 0.5:
                    return "(%s.tag == %s)" % (n, self.capture_of("str", env))
                return "(%s.tag %s %r)" % (n, r.choice(["==", "!="]), r.choice(["a", "b", "a  b", "t\tq", "a b"]))
        if k == 5:
            self.p.features.add("chained-compare")
            return "(%s <= %s < %s)" % (repr(r.randrange(-3, 1)), self.int_expr(env, max(d - 1, 0)), repr(r.randrange(2, 9)))
        if k == 6 and self.mode == "callable" and not shape_only:
            return self.capture_of("bool", env)
        if k == 7 and self.mode == "callable":
            return "(%s == %s)" % (self.capture_of("bytes", env), r.choice(["b'ab'", "b'a'"]))
        if k == 8:
            return "(%s in (%s, %s))" % (self.int_expr(env, max(d - 1, 0)), repr(r.randrange(0, 4)), repr(r.randrange(4, 8)))
        return "(%s %s %s)" % (self.int_expr(env, max(d - 1, 0)), r.choice(["<", ">", "==", "!=", "<=", ">="]),
                               self.int_expr(env, max(d - 1, 0)))

    def rec_expr(self, cls, env, d) -> str:
        vs = self.vars_of(env, REC(cls))
        if vs and (d <= 0 or self.r.random() < 0.7):
            return self.r.choice(vs)
        ch = [(rec, elt) for rec, elt in self.seq_elt_choices(env) if elt == cls]
        if ch:
            rec, elt = self.r.choice(ch)
            self.p.features.add("First")
            s = self.seq_expr(REC(cls), env, d - 1, src=(rec, elt))
            return "%s.First()" % s if self.mode == "callable" or self.r.random() < 0.6 else "First(%s)" % s
        return vs[0] if vs else None

    def seq_expr(self, elt_t, env, d, src=None) -> Optional[str]:
        """a sequence (Seq in direct execution) of elt_t"""
        r = self.r
        if elt_t[0] == "rec":
            cls = elt_t[1]
            if src is None:
                ch = [(rec, e) for rec, e in self.seq_elt_choices(env) if e == cls]
                if not ch:
                    return None
                src = r.choice(ch)
            base = self.seq_source(src[0], cls)
            if d > 0 and r.random() < 0.45:
                b = self.binder(env)
                self.p.features.add("nested-op")
                return self.op_call(base, "Where", "lambda %s: %s" % (b, self.bool_expr(env + [(b, elt_t)], d - 1, shape_only=True)))
            return base
        # a computed sequence: Select / SelectMany over a record sequence
        ch = self.seq_elt_choices(env)
        if not ch:
            return None
        if elt_t == INT and self.mode == "callable" and r.random() < 0.2:
            cands = [(n, c) for n, c in self.recs(env) if c in ("Jet", "Event")]
            if cands:
                n, c = r.choice(cands)
                h = self.helper_of("seq:" + c, env)
                if h:
                    self.p.features.add("helper-call")
                    return "%s(%s)" % (h, n)
        rec, e = r.choice(ch)
        b = self.binder(env)
        self.p.features.add("nested-op")
        if d > 0 and r.random() < 0.25 and e == "Jet":
            # SelectMany down one more level
            b2 = self.binder(env + [(b, REC("Jet"))])
            inner = self.op_call(self.seq_source((b, "Jet"), "Trk"), "Select",
                                 "lambda %s: %s" % (b2, self.expr(elt_t, env + [(b, REC("Jet")), (b2, REC("Trk"))], d - 1)))
            return self.op_call(self.seq_source(rec, e), "SelectMany", "lambda %s: %s" % (b, inner))
        return self.op_call(self.seq_expr(REC(e), env, d - 1, src=(rec, e)), "Select",
                            "lambda %s: %s" % (b, self.expr(elt_t, env + [(b, REC(e))], d - 1)))

    def genexp(self, elt_t, env, d) -> Optional[str]:
        """`<elt> for b in <seq> [if c]` whose element and condition use module globals (captured constants, helpers,
        record classes) created for it: names that occur ONLY inside the generator expression (which has a code
        object of its own, unlike a list comprehension)"""
        r = self.r
        ch = self.seq_elt_choices(env)
        if not ch or self.mode != "callable" or self.in_helper or self.force_scope == "l":
            return None
        rec, e = r.choice(ch)
        b = self.binder(env)
        env2 = env + [(b, REC(e))]
        src = self.seq_source(rec, e)
        saved = self.force_scope
        self.force_scope = "g"
        self.in_genexp += 1
        try:
            elt = self.expr(elt_t, env2, max(d - 1, 1))
            if elt_t == INT and r.random() < 0.7:
                elt = "(%s + %s)" % (elt, self.capture_of("int", env2))
            cond = (" if %s" % self.bool_expr(env2, 0)) if r.random() < 0.4 else ""
        finally:
            self.in_genexp -= 1
            self.force_scope = saved
        if elt is None:
            return None
        return "%s for %s in %s%s" % (elt, b, src, cond)

    def set_comp(self, env) -> Optional[Tuple[str, str]]:
        """(element, `for b in seq [if c]`) of a set / dict comprehension whose element takes few distinct values"""
        r = self.r
        ch = self.seq_elt_choices(env)
        if not ch:
            return None
        rec, e = r.choice(ch)
        b = self.binder(env, shadow=False)
        env2 = env + [(b, REC(e))]
        elt = r.choice(["%s.a" % b, "%s.b" % b, "(%s.a + %s.b)" % (b, b), self.int_leaf(env2), self.int_leaf(env2)])
        cond = (" if %s" % self.bool_expr(env2, 0)) if r.random() < 0.3 else ""
        return elt, "for %s in %s%s" % (b, self.seq_source(rec, e), cond)

    def genexp_record_type(self, env):
        r = self.r
        ctor = r.choice(["P2", "N2", "R3", "R5", "R6"])
        if ctor in RECORD_CLASSES:
            pos, kwo, req = RECORD_CLASSES[ctor]
            names = [n for n in pos + kwo if n in req or r.random() < 0.5]
        else:
            names = {"P2": ["x", "y"], "N2": ["u", "v"]}[ctor]
        return DCT(ctor, [(n, INT) for n in names])

    def pyl_expr(self, elt_t, env, d) -> Optional[str]:
        """a single-for comprehension (list or generator)"""
        r = self.r
        ch = self.seq_elt_choices(env)
        if not ch:
            return None
        if elt_t == INT and r.random() < 0.15:
            sc = self.set_comp(env)
            if sc is not None:
                self.p.features.add("setcomp:sorted")
                return "sorted({%s %s})" % sc
        if self.mode == "callable" and r.random() < 0.3:
            g = self.genexp(elt_t, env, d)
            if g is not None:
                self.p.features.add("genexp:list")
                return "list(%s)" % g
        rec, e = r.choice(ch)
        b = self.binder(env)
        env2 = env + [(b, REC(e))]
        conds = "".join(" if %s" % self.bool_expr(env2, max(d - 1, 0)) for _ in range(r.choice([0, 0, 1, 1, 2])))
        self.p.features.add("comprehension")
        return "[%s for %s in %s%s]" % (self.expr(elt_t, env2, max(d - 1, 0)), b, self.seq_source(rec, e), conds)

    def dct_expr(self, t, env, d) -> str:
        _, ctor, items = t
        vals = [self.expr(ti, env, d - 1) for _, ti in items]
        names = [n for n, _ in items]
        if ctor == "dict" or self.mode != "callable":
            self.p.features.add("dict-literal")
            return "{%s}" % ", ".join("%r: %s" % (n, v) for n, v in zip(names, vals))
        if ctor in RECORD_CLASSES:
            # positional arguments for a prefix of the positional parameters, the rest (and keyword-only ones) by keyword
            pos, kwo, _ = RECORD_CLASSES[ctor]
            given = dict(zip(names, vals))
            jmax = 0
            while jmax < len(pos) and pos[jmax] in given:
                jmax += 1
            j = jmax if self.r.random() < 0.7 else self.r.randrange(0, jmax + 1)
            args = [given[n] for n in pos[:j]]
            kws = [(n, given[n]) for n in names if n not in pos[:j]]
            self.r.shuffle(kws)
            self.p.features.add("dataclass:" + ctor + (":positional" if j else ":keywords"))
            return "%s(%s)" % (ctor, ", ".join(args + ["%s=%s" % kv for kv in kws]))
        self.p.features.add("dataclass" if ctor == "P2" else "namedtuple")
        form = self.r.randrange(3)
        if form == 0:
            return "%s(%s)" % (ctor, ", ".join(vals))
        if form == 1:
            return "%s(%s, %s=%s)" % (ctor, vals[0], names[1], vals[1])
        pairs = list(zip(names, vals))
        self.r.shuffle(pairs)
        return "%s(%s)" % (ctor, ", ".join("%s=%s" % p for p in pairs))

    def expr(self, t, env, d) -> Optional[str]:
        if t == INT:
            return self.int_expr(env, d)
        if t == BOOL:
            return self.bool_expr(env, d)
        if t[0] == "rec":
            return self.rec_expr(t[1], env, d)
        if t[0] == "seq":
            return self.seq_expr(t[1], env, d)
        if t[0] == "pyl":
            return self.pyl_expr(t[1], env, d)
        if t[0] == "tup":
            self.p.features.add("tuple")
            es = [self.expr(ti, env, d - 1) for ti in t[1]]
            if any(e is None for e in es):
                return None
            return "(%s,)" % es[0] if len(es) == 1 else "(%s)" % ", ".join(es)
        if t[0] == "dct":
            return self.dct_expr(t, env, d)
        raise ValueError(t)

    # ------------------------------------------------------------------ using a stage's item
    def item_env(self, p: str, t, env_out: list) -> List[str]:
        """Bind the lambda parameter p of item type t.  Components of tuples / data records are not variables of the
        generator's environment; they are offered as *expressions* through `self.proj` instead."""
        env_out.append((p, t))
        return env_out

    def projections(self, p: str, t) -> List[Tuple[str, Any]]:
        """(expression text, type) of everything reachable from an item by constant projection"""
        out = [(p, t)]
        if t[0] == "tup":
            for i, ti in enumerate(t[1]):
                out += self.projections("%s[%d]" % (p, i), ti)
        elif t[0] == "dct":
            for n, ti in t[2]:
                if t[1] == "dict":
                    # written as a dictionary literal: a Python dict when a callable made it (no attributes)
                    out += self.projections("%s[%r]" % (p, n), ti)
                else:
                    # a data class / NamedTuple instance in direct execution, a record in the query
                    out += self.projections("%s.%s" % (p, n), ti)
        return out

    def result_type(self, env, d) -> Any:
        """a type some expression over env can have"""
        r = self.r
        have_rec = bool(self.recs(env))
        have_seq = bool(self.seq_elt_choices(env))
        k = r.random()
        if d <= 0 or k < 0.3:
            return INT
        if k < 0.38:
            return BOOL
        if k < 0.5 and have_rec:
            return REC(r.choice(self.recs(env))[1])
        if k < 0.62 and have_seq:
            _, elt = r.choice(self.seq_elt_choices(env))
            return SEQ(REC(elt)) if r.random() < 0.6 else SEQ(INT)
        if k < 0.7 and have_seq:
            return PYL(r.choice([INT, INT, TUP([INT, INT]), self.genexp_record_type(env)]))
        if k < 0.85:
            return TUP([self.result_type(env, d - 1) for _ in range(r.randrange(1, 4))])
        ctor = r.choice(["P2", "N2", "dict", "R3", "R4", "R5", "R6", "R7"])
        if ctor in RECORD_CLASSES:
            pos, kwo, req = RECORD_CLASSES[ctor]
            names = [n for n in pos + kwo if n in req or r.random() < 0.6]
            if not names:
                names = [(pos + kwo)[0]]
        else:
            names = {"P2": ["x", "y"], "N2": ["u", "v"], "dict": r.choice([["a", "b"], ["pt", "n"]])}[ctor]
        return DCT(ctor, [(n, self.result_type(env, d - 1)) for n in names])

    # ------------------------------------------------------------------ stages
    def lambda_for(self, op: str, item_t, mode: str, must_use: Optional[str] = None) -> Optional[Tuple[str, Any]]:
        """source text of a lambda over an item of type item_t, and the item type of the resulting stream;
        must_use: a captured integer the body has to mention below its top node"""
        r = self.r
        self.mode = mode
        p = r.choice(["e", "j", "t", "x", "p", "ev"])
        if mode == "callable" and self.caps and r.random() < 0.05 and must_use is None:
            p = r.choice(sorted(self.caps))
            self.p.features.add("parameter-hides-capture")
        projs = self.projections(p, item_t)
        self.reserved = {p} if len(projs) > 1 else set()
        # the environment: projections are bound under generated aliases by textual substitution afterwards
        env, alias = [], {}
        for i, (text, t) in enumerate(projs):
            if t[0] in ("tup", "dct"):
                continue
            nm = p if text == p else "_P%d_" % i
            env.append((nm, t))
            alias[nm] = text
        if not env:
            return None
        d = r.choice([1, 2, 2, 3])
        if op == "Where":
            body, out_t = self.bool_expr(env, d, shape_only=True), item_t
        elif op == "Select":
            out_t = self.result_type(env, d)
            body = self.expr(out_t, env, d)
            if out_t[0] == "pyl" and body is not None:
                pass
        else:
            elt = self.result_type(env, d - 1)
            if elt[0] in ("seq", "pyl"):
                elt = INT
            kind = r.choice(["seq", "seq", "pyl"])
            body = self.expr(SEQ(elt) if kind == "seq" else PYL(elt), env, d)
            out_t = elt
        if body is None:
            return None
        if must_use is not None:
            import re
            if p == must_use or re.search(r"lambda %s\b|for %s in" % (must_use, must_use), body):
                return None
            used = len(re.findall(r"\b%s\b" % re.escape(must_use), body))
            if not used or body.strip("()") == must_use:
                if op == "Where":
                    body = "((%s <= %s) or %s)" % (self.int_leaf(env), must_use, body)
                elif op == "Select":
                    body, out_t = "(%s, %s)" % (body, must_use), TUP([out_t, INT])
                else:
                    return None
        for nm, text in alias.items():
            if nm != p:
                body = body.replace(nm, text)
        return "lambda %s: %s" % (p, body), out_t

    def usable(self, t) -> bool:
        """can a further stage do anything with items of this type?"""
        if t in (INT, BOOL):
            return True
        if t[0] == "rec":
            return True
        if t[0] == "tup":
            return any(self.usable(x) for x in t[1])
        if t[0] == "dct":
            return any(self.usable(x) for _, x in t[2])
        return False        # sequences / lists as items: only through SelectMany of the *previous* stage

    def program(self) -> Program:
        r = self.r
        p = self.p
        p.cm = class_model(r)
        p.typed = r.random() < 0.55
        p.style = r.choice(["lines", "lines", "fluent"])
        n = r.choice([1, 2, 2, 3, 3, 3, 4, 4, 5, 6])
        types_ = [REC("Event")]
        attempts = 0
        while len(p.stages) < n and attempts < 40:
            attempts += 1
            # branching: usually extend the newest stream, sometimes an older one (a shared parent)
            cand = [i for i, t in enumerate(types_) if self.usable(t)]
            if not cand:
                break
            parent = cand[-1] if r.random() < 0.75 else r.choice(cand)
            op = r.choice(["Select", "Select", "Select", "Where", "Where", "SelectMany"])
            mode = r.choice(["callable", "callable", "callable", "string", "ast"])
            if mode == "callable" and op != "SelectMany" and r.random() < 0.22 and len(p.stages) + 2 <= max(n, 2):
                if self.repeat_group(parent, op, types_):
                    continue
            got = self.lambda_for(op, types_[parent], mode)
            if got is None:
                continue
            lam, out_t = got
            try:
                ast.parse(lam)
            except SyntaxError:
                continue
            kw = mode == "callable" and r.random() < 0.12
            if kw:
                p.features.add("lambda-by-keyword")
            p.stages.append(Stage(parent, op, mode, lam, types_[parent], out_t, kw=kw))
            types_.append(out_t)
        if not p.stages:
            return self.program()
        # outputs: the last stream, and now and then other streams (every branch tip)
        tips = [i for i in range(1, len(types_)) if all(st.parent != i for st in p.stages)]
        outs = tips if r.random() < 0.8 else tips + [r.randrange(1, len(types_))]
        for s in outs:
            term = None
            k = r.random()
            cols = r.choice(["['a']", "['a', 'b']", "'col'", "[]"])
            if k < 0.12:
                term = ("AsAwkwardArray", cols)
            elif k < 0.2:
                term = ("AsPandasDF", cols)
            elif k < 0.3:
                term = ("AsROOTTTree", "%r, %r, %s" % (r.choice(["f.root", "out.root"]), r.choice(["tree", "t1"]), cols))
            elif k < 0.38:
                term = ("AsParquetFiles", "%r, %s" % (r.choice(["f.parquet", "o.pq"]), cols))
            elif k < 0.42:
                term = (r.choice(["as_awkward", "as_pandas"]), cols)
            if term:
                p.features.add("terminal:" + term[0])
            p.outputs.append((s, term))
        if any(st.parent != i for i, st in enumerate(p.stages)):
            p.features.add("branching")
        return p

    def repeat_group(self, parent: int, op: str, types_: list) -> bool:
        """One lambda written once and turned into a query two or three times, each time with another value of a
        captured integer: in a for loop, through a local or a module-level factory function, or through a factory
        whose closure variable is rebound between the calls."""
        r = self.r
        p = self.p
        how = r.choice(["loop", "local-factory", "global-factory", "rebind"])
        self.gcount += 1
        gid = self.gcount
        kname = "kk%d" % gid
        scope = "g" if how == "global-factory" else "l"
        saved_scope = self.force_scope
        if how == "global-factory":
            self.force_scope = "g"
        self.caps[kname] = (scope, "int")
        try:
            got = None
            for _ in range(4):
                got = self.lambda_for(op, types_[parent], "callable", must_use=kname)
                if got is not None:
                    break
        finally:
            self.force_scope = saved_scope
            del self.caps[kname]
        if got is None:
            return False
        lam, out_t = got
        try:
            ast.parse(lam)
        except SyntaxError:
            return False
        m = r.choice([2, 2, 3])
        vals = r.sample(range(-2, 7), m)
        kw = r.random() < 0.1
        par = parent
        for v in vals:
            p.stages.append(Stage(par, op, "callable", lam, types_[parent], out_t, kw=kw, rep=(gid, how, kname, v)))
            types_.append(out_t)
            if op == "Where" and how != "loop" and r.random() < 0.5:
                par = len(p.stages)          # chain the filters: the next call is made on the stream just built
        p.features.add("written-once:" + how)
        return True

    def refused_program(self) -> Program:
        """A short chain that captures a value that cannot be sent as a literal: the library must refuse it."""
        r = self.r
        p = self.p
        p.cm = class_model(r)
        p.typed = r.random() < 0.5
        self.mode = "callable"
        kind = r.choice(["none", "list", "tuple", "dict"])
        c = self.new_capture(kind, [("e", REC("Event"))])
        use = {"none": "(e.a if %s is None else e.b)" % c, "list": "(e.a in %s)" % c, "tuple": "%s[0] + e.a" % c,
               "dict": "%s['k'] + e.a" % c}[kind]
        op = r.choice(["Select", "Where", "SelectMany"])
        if op == "Where":
            lam = "lambda e: (%s) > 0" % use if kind != "list" else "lambda e: %s" % use
            out_t = REC("Event")
        elif op == "SelectMany":
            lam = "lambda e: e.jets.Select(lambda j: (j.a, %s))" % use
            out_t = TUP([INT, INT])
        else:
            lam, out_t = "lambda e: %s" % use, INT
        if r.random() < 0.5:
            p.stages.append(Stage(0, "Select", "callable", "lambda e: e.Jets()", REC("Event"), SEQ(REC("Jet"))))
            p.stages.append(Stage(0, op, "callable", lam, REC("Event"), out_t))
            p.outputs.append((2, None))
        else:
            p.stages.append(Stage(0, op, "callable", lam, REC("Event"), out_t))
            p.outputs.append((1, None))
        p.expect_refusal = True
        p.features.add("non-transportable-capture:" + kind)
        return p


# =====================================================================================================
# running a program: implementation side, direct side
# =====================================================================================================

_counter = itertools.count()


def load_program(text: str):
    os.makedirs(WORKDIR, exist_ok=True)
    name = "pipeprog_%d_%d" % (os.getpid(), next(_counter))
    path = os.path.join(WORKDIR, name + ".py")
    with open(path, "w") as fh:
        fh.write(text)
    spec = importlib.util.spec_from_file_location(name, path)
    mod = importlib.util.module_from_spec(spec)
    sys.modules[name] = mod
    try:
        spec.loader.exec_module(mod)
    except BaseException:
        sys.modules.pop(name, None)
        raise
    return mod, path


def unload_program(mod, path):
    sys.modules.pop(mod.__name__, None)
    try:
        os.unlink(path)
    except OSError:
        pass


def make_dataset_class():
    from func_adl import EventDataset

    class RecordingDataset(EventDataset):
        """The dataset of the implementation side: its executor records what value() hands over.  The operator
        methods are wrapped only to take the snapshot of the callable's captured variables at the moment of the
        call (an input of the model); the call itself is the library's."""

        def __init__(self, item_type=Any, log=None):
            super().__init__(item_type)
            self.recorded = []
            self.calls = log if log is not None else []

        async def execute_result_async(self, a, title=None):
            self.recorded.append(a)
            return len(self.recorded) - 1

        def _note(self, op, f):
            self.calls.append((op, snapshot(f) if callable(f) else None))

        def Select(self, *a, **k):
            self._note("Select", a[0] if a else k.get("f"))
            return super().Select(*a, **k)

        def Where(self, *a, **k):
            self._note("Where", a[0] if a else k.get("filter"))
            return super().Where(*a, **k)

        def SelectMany(self, *a, **k):
            self._note("SelectMany", a[0] if a else k.get("func"))
            return super().SelectMany(*a, **k)

    return RecordingDataset


def snapshot(f) -> dict:
    """What python reports about the callable at the call: closure cells and module globals (values as they are now)."""
    try:
        cv = inspect.getclosurevars(f)
        nl = dict(cv.nonlocals)
    except Exception:  # noqa
        nl = {}
    return {"nonlocals": nl, "globals": dict(getattr(f, "__globals__", {}))}


class Outcome:
    def __init__(self):
        self.status = None          # "ok" | "refused" (ValueError while building) | "crash:<Class>" | "program-failed:<Class>"
        self.msg = ""
        self.recorded: List[ast.AST] = []
        self.calls = []
        self.n_stages_built = 0
        self.direct: List[List[Tuple[str, Any]]] = []   # per dataset, per output: ("ok", canon) | ("err", Class)
        self.world = None
        self.mod = None


def reset_library_state():
    import func_adl.ast.function_simplifier as fs
    from func_adl import type_based_replacement as tbr

    fs.argument_var_counter = 0
    tbr.reset_global_functions()


def run_implementation(mod, typed: bool, out: Outcome):
    """build(ds) on the recording dataset, then value() of every returned stream"""
    DS = make_dataset_class()
    ds = DS(mod.Event if typed else Any)
    out.ds = ds
    try:
        streams = mod.build(ds)
    except ValueError as ex:
        out.status, out.msg = "refused", str(ex)[:200]
        out.calls = ds.calls
        return
    except RecursionError:
        raise
    except Exception as ex:  # noqa
        out.status, out.msg = "crash:" + type(ex).__name__, str(ex)[:200]
        out.calls = ds.calls
        return
    out.calls = ds.calls
    try:
        for s in streams:
            s.value()
    except Exception as ex:  # noqa
        out.status, out.msg = "crash-in-value:" + type(ex).__name__, str(ex)[:200]
        return
    out.recorded = list(ds.recorded)
    out.status = "ok"


def run_direct(mod, data: List[list]) -> List[List[Tuple[str, Any]]]:
    """build(Direct(Seq(events))) per dataset: Python runs the chain"""
    res = []
    Seq.eager = True
    try:
        for events in data:
            try:
                outs = mod.build(Direct(Seq(events)))
            except Exception as ex:  # noqa
                res.append(("build-err", type(ex).__name__))
                continue
            row = []
            for o in outs:
                try:
                    row.append(("ok", canon(o.value())))
                except RecursionError:
                    row.append(("err", "RecursionError"))
                except Exception as ex:  # noqa
                    row.append(("err", type(ex).__name__))
            res.append(row)
    finally:
        Seq.eager = False
    return res


def eval_recorded(tree: ast.AST, events: list) -> Tuple[str, Any]:
    try:
        code = compile_expr(tree)
    except Exception as ex:  # noqa
        return "uncompilable", type(ex).__name__
    try:
        return "ok", canon(eval(code, ops_namespace(Seq(events))))
    except RecursionError:
        return "err", "RecursionError"
    except Exception as ex:  # noqa
        return "err", type(ex).__name__


# ---------------------------------------------------------------- backend passes (each on a private copy)

def pass_ext(a):
    from func_adl.ast import change_extension_functions_to_calls
    return change_extension_functions_to_calls(clone(a))


def pass_agg(a):
    from func_adl.ast import aggregate_node_transformer
    return aggregate_node_transformer().visit(clone(a))


def pass_simp(a):
    import func_adl.ast.function_simplifier as fs
    from func_adl.ast import simplify_chained_calls
    fs.argument_var_counter = 0
    return simplify_chained_calls().visit(clone(a))


PASSES = {"ext": pass_ext, "agg": pass_agg, "simp": pass_simp}
# every order the exports allow: each pass alone, and the compositions (the backends run ext, agg, simp)
PIPELINES = [(), ("ext",), ("agg",), ("simp",), ("ext", "agg"), ("ext", "simp"), ("agg", "ext"), ("simp", "ext"),
             ("agg", "simp"), ("simp", "agg"), ("ext", "agg", "simp"), ("ext", "simp", "agg"), ("agg", "ext", "simp"),
             ("simp", "ext", "agg")]


def apply_pipeline(a: ast.AST, pl: Tuple[str, ...], cache: dict):
    """-> ("ok", tree) | ("raised", Class); prefixes are cached"""
    if pl in cache:
        return cache[pl]
    if not pl:
        cache[pl] = ("ok", a)
        return cache[pl]
    st, t = apply_pipeline(a, pl[:-1], cache)
    if st != "ok":
        cache[pl] = (st, t)
        return cache[pl]
    try:
        cache[pl] = ("ok", PASSES[pl[-1]](t))
    except RecursionError:
        cache[pl] = ("raised", "RecursionError")
    except Exception as ex:  # noqa
        cache[pl] = ("raised", type(ex).__name__)
    return cache[pl]


# ---------------------------------------------------------------- well-formedness of what the executor receives

LEGAL_CONST = (str, int, float, bool, complex, bytes, types.ModuleType)
OPERATORS = ("Select", "Where", "SelectMany")
TERMINAL_ARITY = {"ResultAwkwardArray": 2, "ResultPandasDF": 2, "ResultTTree": 4, "ResultParquet": 3}


def wellformed(a: ast.AST) -> Optional[str]:
    """The shape every query handed to an executor has: [Terminal(] Op(source, lambda) ... EventDataset() [)],
    MetaData wrappers around sources only, transportable constants only."""
    for n in ast.walk(a):
        if isinstance(n, ast.Constant) and not isinstance(n.value, LEGAL_CONST):
            return "a constant of type %s, which cannot be sent as a literal" % type(n.value).__name__
        for f, v in ast.iter_fields(n):
            if f in ("ctx", "kind", "type_comment"):
                continue
            if isinstance(v, list):
                for x in v:
                    if not isinstance(x, ast.AST) and not isinstance(n, (ast.Global, ast.Nonlocal)):
                        return "a raw %s in the list field %s.%s" % (type(x).__name__, type(n).__name__, f)
    node = a
    if isinstance(node, ast.Call) and isinstance(node.func, ast.Name) and node.func.id in TERMINAL_ARITY:
        if len(node.args) != TERMINAL_ARITY[node.func.id] or node.keywords:
            return "terminal %s with %d arguments" % (node.func.id, len(node.args))
        node = node.args[0]
    while True:
        if not (isinstance(node, ast.Call) and isinstance(node.func, ast.Name)) or node.keywords:
            return "a source that is not a plain call: %s" % ast.dump(node)[:80]
        nm = node.func.id
        if nm == "EventDataset" and not node.args:
            return None
        if nm == "MetaData" and len(node.args) == 2 and isinstance(node.args[1], ast.Dict):
            node = node.args[0]
            continue
        if nm in OPERATORS and len(node.args) == 2 and isinstance(node.args[1], ast.Lambda) \
                and len(node.args[1].args.args) == 1:
            node = node.args[0]
            continue
        return "a source of unexpected shape: %s" % ast.dump(node)[:80]


# =====================================================================================================
# the description handed to the model
# =====================================================================================================

class OutsideDomain(Exception):
    pass


def plain_tree(n: ast.AST) -> bool:
    return all(bridge._plain_lambda(x) for x in ast.walk(n) if isinstance(x, ast.Lambda))


def attr_rows(objs: List[Any], attrs: List[str]) -> List[str]:
    """getattr snapshot: for every object reachable from the captured values through the attribute names that
    occur in the lambda, what hasattr/getattr give (an input of the model, as in C04)."""
    import enum

    rows, seen, work, depth = [], set(), list(objs), 0
    while work and depth < 4:
        nxt = []
        for o in work:
            if isinstance(o, enum.Enum.__class__):
                raise OutsideDomain("enum class")
            k = bridge.const_sx(o)
            for a in attrs:
                if (k, a) in seen:
                    continue
                seen.add((k, a))
                try:
                    has = hasattr(o, a)
                except Exception:  # noqa
                    has = False
                if not has:
                    continue
                val = getattr(o, a)
                rows.append("(%s %s (V %s))" % (k, bridge.hx(a), bridge.const_sx(val)))
                nxt.append(val)
        work = nxt
        depth += 1
    return rows


def cenv_sx(lam: ast.AST, snap: dict, helpers: Dict[str, Tuple[List[str], str, str]], expanding=()) -> str:
    """The snapshot for the names of `lam`: ((nonlocals) (globals) (attribute table)).  A captured helper whose
    source is a one-line def is handed over as (H <its own snapshot> <its lambda>) - one helper_capval step of the
    model per helper, exactly as C05's driver does."""
    names = {n.id for n in ast.walk(lam) if isinstance(n, ast.Name)}
    attrs = sorted({n.attr for n in ast.walk(lam) if isinstance(n, ast.Attribute)})
    objs: List[Any] = []

    def capval(name, val):
        if isinstance(val, type) or isinstance(val, types.ModuleType) or not callable(val):
            objs.append(val)
            return "(V %s)" % bridge.const_sx(val)
        if name in helpers and getattr(val, "__name__", None) == name and inspect.isfunction(val):
            if any(val is f for f in expanding):
                return "(F -)"
            ps, body, _ = helpers[name]
            hl = ast.parse("lambda %s: %s" % (", ".join(ps), body), mode="eval").body
            if not plain_tree(hl):
                raise OutsideDomain("helper with non-plain lambda")
            return "(H %s %s)" % (cenv_sx(hl, snapshot(val), helpers, expanding + (val,)), bridge.to_sx(hl))
        return "(F -)"          # builtins, classes' methods, anything whose source is not a one-line function

    nl = ["(%s %s)" % (bridge.hx(n), capval(n, v)) for n, v in sorted(snap["nonlocals"].items()) if n in names]
    gl = ["(%s %s)" % (bridge.hx(n), capval(n, v)) for n, v in sorted(snap["globals"].items())
          if n in names and n not in snap["nonlocals"]]
    for c in ast.walk(lam):
        if isinstance(c, ast.Constant):
            objs.append(c.value)
    return "((%s) (%s) (%s))" % (" ".join(nl), " ".join(gl), " ".join(attr_rows(objs, attrs)))


class World:
    """The class table of the model, read back from the program's live classes with the reader of the type-follower
    package (types_common.Model.world_sx)."""

    def __init__(self, mod, cm: dict):
        import types_common
        from func_adl import ObjectStream
        from func_adl import type_based_replacement as tbr

        m = types_common.Model.__new__(types_common.Model)
        m.tbr = tbr
        m.ObjectStream = ObjectStream
        m.ns = vars(mod)
        m.classes = [mod.Trk, mod.Jet, mod.Event]
        m.cb_ids = {id(mod._cb_jetcls): "jetcls", id(mod._cb_trkpt): "trkpt", id(mod._cb_evcls): "evcls"}
        m.cb_specs = {"jetcls": {"md": cm["md_jet"]}, "trkpt": {"md": cm["md_trk"], "rw": ("rename", "pt_v2")},
                      "evcls": {"md": cm["md_ev"]}}
        m.log = []
        self.m = m

    def sx(self) -> str:
        return self.m.world_sx()

    def ty(self, t) -> str:
        return self.m.ty_sx(t)


def model_requests(prog: Program, mod, calls, typed: bool) -> List[List[str]]:
    """One `build` request per output: world, item type of the dataset, the stages on the path, the terminal."""
    w = World(mod, prog.cm)
    world = w.sx()
    item = w.ty(mod.Event) if typed else "Any"
    needed = sorted({i for s, _ in prog.outputs for i in prog.path(s)})
    stage_sx = {}
    for k in needed:
        st = prog.stages[k]
        lam = ast.parse(st.lam, mode="eval").body
        if not plain_tree(lam):
            raise OutsideDomain("non-plain lambda")
        if st.mode == "callable":
            if k >= len(calls) or calls[k][1] is None:
                raise OutsideDomain("no snapshot for stage %d" % k)
            acq = "(Callable %s)" % cenv_sx(lam, calls[k][1], prog.helpers)
        else:
            acq = "AsIs"
        stage_sx[k] = "(%s %s %s)" % (st.op, acq, bridge.to_sx(lam))
    reqs = []
    for s, term in prog.outputs:
        path = prog.path(s)
        tsx = "-"
        if term is not None:
            tsx = terminal_sx(term)
        reqs.append([world, item, "(%s)" % " ".join(stage_sx[i] for i in path), tsx])
    return reqs


TERMINAL_METHOD = {"as_awkward": "AsAwkwardArray", "as_pandas": "AsPandasDF", "as_ROOT_tree": "AsROOTTTree",
                   "as_parquet": "AsParquetFiles"}


def terminal_sx(term: Tuple[str, str]) -> str:
    """(method (parameter value)...): the arguments bound to the method's parameter names as Python binds them,
    defaults applied; a value is (S hex) for a string, (L hex ...) for a list of strings"""
    from func_adl import ObjectStream

    meth = TERMINAL_METHOD.get(term[0], term[0])
    args = eval("(lambda *a, **k: (a, k))(%s)" % term[1], {})
    sig = inspect.signature(getattr(ObjectStream, meth))
    ba = sig.bind(None, *args[0], **args[1])
    ba.apply_defaults()
    items = []
    for name, val in list(ba.arguments.items())[1:]:
        if isinstance(val, str):
            v = "(S %s)" % bridge.hx(val)
        elif isinstance(val, list) and all(isinstance(x, str) for x in val):
            v = "(L %s)" % " ".join(bridge.hx(x) for x in val)
        else:
            raise OutsideDomain("terminal argument %r" % (val,))
        items.append("(%s %s)" % (bridge.hx(name), v))
    return "(%s %s)" % (bridge.hx(meth), " ".join(items))

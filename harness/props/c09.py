"""C09 - callbacks fire at every matching call site and their metadata reaches the stream."""
from __future__ import annotations

import ast
import copy

import bridge
import core
import gen
import types_common as tc
from gen import A, C, N, call, lam

ID = "C09"
TAG = "types"
EXTRACT = "FA/Extract/ExtractTypes.v"
DRIVER = "driver_types.ml"
COQ_FILES = ["FA/Proofs/TypeFollowFacts.v", "FA/Proofs/TypeFollowCallbacks.v", "FA/Proofs/TypeFollowResolve.v",
             "FA/Proofs/TypeFollowSites.v", "FA/Proofs/TypeFollowEmitted.v", "FA/Properties/C09.v"]

LEVEL = ("Coq theorems over the executable model `follow` (events = callback invocations with their call sites and the MetaData "
         "each attaches, in order): callbacks at a method call site are the class callback then the method callback, each "
         "on the site the previous one returned, and the emitted site is the last rewrite (method_callbacks_spec, "
         "rewrite_is_emitted); nested operator lambdas hand all their events to the enclosing stream (nested_events_surface); "
         "events of a call are exactly those of its children followed by its own (call_events_order); model tied to the code "
         "by exact differential comparison of emitted lambda, invocation log and MetaData chain.")
TRUSTED = ["Coq 8.16.1 kernel (coqc); no axioms (Print Assumptions: closed under the global context)",
           "extraction: ExtrOcamlBasic + ExtrOcamlNativeString; ocaml/driver_types.ml codecs",
           "harness/bridge.py; harness/props/types_common.py (class models -> Python classes and callbacks; class table read "
           "back from the live classes), c09.py generators and the by-construction oracle",
           "callbacks are modelled by their observable effect (log entry, one MetaData dictionary, one of three call-site "
           "rewrites); CPython typing / inspect are represented by the class table"]
ASSUME = ["callbacks only add MetaData to the stream they are given and return one of: the site, the site with the method "
          "renamed, the site wrapped in a function call",
          "the function name MetaData is not used inside lambdas",
          "lambdas supplied as strings or ast objects; queries that call a registered function also as Python callables "
          "written in a generated module in which the registered functions have real one-line bodies (a registered function "
          "is a backend function: the capture pass must leave the call by name, F54) - judged by the same oracle"]
RULE = ("generated variants of an 8-class model with callbacks at every placement (class, class inherited from a decorated base, "
        "decorated subclass of an undecorated / differently decorated base with inherited, overridden and own methods, method, both, function "
        "processor, parameterized property), each with distinct metadata and a random rewrite; queries with call sites at "
        "lambda depth 0-2 (below the operator lambda) inside Select/Where/SelectMany of the stream and of typed collections, through First/subscript, "
        "dictionary fields and tuples; expected invocation log, metadata chain and emitted call sites known by construction; "
        "non-trivial = at least one callback site; distinct by ast.dump")

PLACEMENTS = ["itcls", "collcls", "trackcls", "trackpt", "jetcls", "jetpt", "jettrks", "evcls", "evjets", "fproc", "pcb", "subx",
              "partcls", "partpt", "lepcls", "lepeta", "lepiso", "mucls", "absproc", "stale"]


def gen_desc(r):
    UFN = r.choice(["abs", "len"])
    cbs = {}
    n = 0
    on = {p: (r.random() < 0.6) for p in PLACEMENTS}
    on["pcb"] = True
    for p in PLACEMENTS:
        if on[p]:
            n += 1
            rw = r.choice([("id",), ("id",), ("rename", p + "_rn"), ("wrap", "w_" + p)])
            cbs[p] = {"md": ({p: n} if r.random() < 0.8 else None), "rw": rw}
    cbs["pcb"]["param"] = True
    cbs["pcb"]["ty"] = r.choice(["float", "int"])
    g = lambda p: p if on[p] else None  # noqa
    ret = lambda t: r.choice([t, t, None, "Any"])  # noqa   a scalar method may lack its return annotation: callbacks fire all the same
    desc = {
        "typevars": ["T"],
        "classes": [
            {"name": "Track", "cb": g("trackcls"),
             "methods": [{"name": "pt", "ret": ret("float"), "cb": g("trackpt")}, {"name": "eta", "ret": ret("float")}],
             "props": [{"name": "getAttr", "cb": "pcb"}]},
            {"name": "SubTrack", "base": "Track", "methods": [{"name": "x", "ret": ret("int"), "cb": g("subx")}]},
            # the experiment's own registered collection class, with a class-level callback: it fires for every method
            # called on such a collection - after the lambda of the operator has been followed
            {"name": "TrkColl", "base": "ObjectStreamInternalMethods[T]", "collection": True, "cb": g("collcls"), "methods": []},
            # inherited / overridden / own methods under decorated base, decorated subclass, both, neither
            {"name": "Particle", "cb": g("partcls"),
             "methods": [{"name": "pt", "ret": ret("float"), "cb": g("partpt")}, {"name": "eta", "ret": ret("float")},
                         {"name": "phi", "ret": "float"}]},
            {"name": "Lepton", "base": "Particle", "cb": g("lepcls"),
             "methods": [{"name": "eta", "ret": ret("float"), "cb": g("lepeta")}, {"name": "iso", "ret": ret("float"), "cb": g("lepiso")}]},
            {"name": "Muon", "base": "Lepton", "cb": g("mucls"), "methods": [{"name": "hits", "ret": "float"}]},
            {"name": "Jet", "cb": g("jetcls"),
             "methods": [{"name": "pt", "ret": ret("float"), "cb": g("jetpt")},
                         {"name": "trks", "ret": "Iterable[Track]", "cb": g("jettrks")},
                         {"name": "subs", "ret": "Iterable[SubTrack]"},
                         {"name": "leps", "ret": "Iterable[Lepton]"},
                         {"name": "ctrks", "ret": "TrkColl[Track]"}]},
            # a user iterable with a class-level callback that declares its own Where: the call is written against this
            # class, so its callback fires at the .Where site although a collection class provides the typing
            {"name": "JetIt", "base": "Iterable[T]", "cb": g("itcls"),
             "methods": [{"name": "Where", "params": [("test", None)], "ret": "Iterable[T]"}, {"name": "Last", "ret": "T"}]},
            {"name": "JetList", "base": "Iterable[Jet]", "methods": []},
            {"name": "GoodJets", "base": "JetList", "methods": []},      # plain subclass: iterable through the inherited base
            {"name": "Event", "cb": g("evcls"),
             "methods": [{"name": "Jets", "ret": "Iterable[Jet]", "cb": g("evjets")}, {"name": "met", "ret": ret("float")},
                         {"name": "Muons", "ret": "Iterable[Muon]"}, {"name": "GoodJets", "ret": "GoodJets"},
                         {"name": "CTrks", "ret": "TrkColl[Track]"}, {"name": "ItJets", "ret": "JetIt[Jet]"}, {"name": "LeadLep", "ret": "Lepton"},
                         {"name": "LeadMu", "ret": "Muon"}, {"name": "Parts", "ret": "Iterable[Particle]"}]},
        ],
        # registration history: a name registered again (a notebook cell run twice) belongs to the LAST registration, so
        # the processor of the first one ("stale") never fires; a user function named like the pre-registered
        # pass-throughs abs / len replaces them, processor included
        "functions": ([{"name": "myf", "params": [("a", None)], "ret": "float", "proc": g("stale")}] if r.random() < 0.6 else []) +
                     [{"name": "myf", "params": [("a", None)], "ret": "float", "proc": g("fproc")},
                      {"name": "plainf", "params": [("a", None)], "ret": "float"},
                      {"name": UFN, "params": [("x", None)], "ret": "float", "proc": g("absproc")}],
        "callbacks": cbs,
    }
    return desc


# class callback of a class: its own decorator, else the nearest decorated base (the attribute is inherited)
CLASS_CB = {"Track": ["trackcls"], "SubTrack": ["trackcls"], "Jet": ["jetcls"], "Event": ["evcls"],
            "Particle": ["partcls"], "Lepton": ["lepcls", "partcls"], "Muon": ["mucls", "lepcls", "partcls"]}
LEPTONS = ("Particle", "Lepton", "Muon")
METHODS = {  # class -> method -> (method cb placement, result kind)
    "Track": {"pt": ("trackpt", "float"), "eta": (None, "float")},
    "SubTrack": {"pt": ("trackpt", "float"), "eta": (None, "float"), "x": ("subx", "float")},
    "Jet": {"pt": ("jetpt", "float"), "trks": ("jettrks", "iter:Track"), "subs": (None, "iter:SubTrack"),
            "leps": (None, "iter:Lepton"), "ctrks": (None, "coll:Track")},
    "Event": {"Jets": ("evjets", "iter:Jet"), "met": (None, "float"), "Muons": (None, "iter:Muon"), "GoodJets": (None, "iter:Jet"), "CTrks": (None, "coll:Track"), "ItJets": (None, "own:Jet"),
              "Parts": (None, "iter:Particle"), "LeadLep": (None, "obj:Lepton"), "LeadMu": (None, "obj:Muon")},
    "Particle": {"pt": ("partpt", "float"), "eta": (None, "float"), "phi": (None, "float")},
    "Lepton": {"pt": ("partpt", "float"), "eta": ("lepeta", "float"), "phi": (None, "float"), "iso": ("lepiso", "float")},
    "Muon": {"pt": ("partpt", "float"), "eta": ("lepeta", "float"), "phi": (None, "float"), "iso": ("lepiso", "float"),
             "hits": (None, "float")},
}


ROW_KEYS = ["match", "case", "type", "_", "self", "print", "x1", "a_b", "row2_", "Select", "_v"]


class Q:
    """Builds (written, expected emitted, expected events) together."""

    def __init__(self, r, model, desc):
        self.r = r
        self.m = model
        self.cbs = desc["callbacks"]
        self.ufn = desc["functions"][-1]["name"]        # the user's own abs / len
        self.sites = 0
        self.depth = 0
        self.kind = "iter"
        self.outer = []       # parameters of enclosing immediately called lambdas: (name, class, lambda depth)
        self.fresh = 0

    def rewrite(self, cb, site):
        return self.m._rewrite(self.cbs[cb].get("rw"), site)

    def fire(self, cb, site, ev, kind="call", param=None):
        """one callback: log entry, metadata; returns the rewritten site"""
        self.sites += 1
        if kind == "call":
            ev.append(("call", cb, bridge.to_sx(site)))
        else:
            ev.append(("param", cb, bridge.to_sx(site), repr(param)))
        if self.cbs[cb].get("md") is not None:
            ev.append(("meta", self.cbs[cb]["md"]))
        return self.rewrite(cb, site)

    def mcall(self, cls, recv, recv_x, name, ev):
        """method call recv.name() on an object of class cls; ev already holds the receiver's events"""
        mcb, res = METHODS[cls][name]
        w = call(A(recv, name), [])
        site = call(A(recv_x, name), [])
        ccb = next((c for c in CLASS_CB[cls] if c in self.cbs), None)
        if ccb is not None:
            site = self.fire(ccb, site, ev)
        if mcb is not None and mcb in self.cbs:
            site = self.fire(mcb, site, ev)
        return w, site, res

    def fn_site(self, k, a, ax, ev):
        """a registered function applied to [a]: its processor - that of the last registration of the name - fires"""
        name, cb = ("plainf", None) if k == "plain" else (self.ufn, "absproc") if self.r.random() < 0.3 else ("myf", "fproc")
        w, site = call(N(name), [a]), call(N(name), [ax])
        if cb is not None and cb in self.cbs:
            site = self.fire(cb, site, ev)
        return w, site

    def scalar(self, cls, v, d, ev):
        """a float-valued expression over variable v : cls"""
        self.depth = max(self.depth, d)
        r = self.r
        # the parameter of an enclosing called lambda, used one or more operator lambdas further in: it is still typed,
        # so the callbacks of its class and methods fire there too
        avail = [o for o in self.outer if o[2] < d]
        if avail and r.random() < 0.3:
            z, zc, _ = r.choice(avail)
            w, x, _ = self.mcall(zc, N(z), N(z), r.choice(sorted(m for m, (_, res) in METHODS[zc].items() if res == "float")), ev)
            return w, x
        if cls in LEPTONS:
            k = r.choice(sorted(METHODS[cls]) + ["fn", "binop"])
            if k in METHODS[cls]:
                w, x, _ = self.mcall(cls, N(v), N(v), k, ev)
                return w, x
            if k == "fn":
                a, ax = self.scalar(cls, v, d, ev)
                return self.fn_site("fn", a, ax, ev)
            a, ax = self.scalar(cls, v, d, ev)
            b, bx = self.scalar(cls, v, d, ev)
            return gen.binop(ast.Add, a, b), gen.binop(ast.Add, ax, bx)
        opts = ["pt", "fn", "plain", "binop", "param", "called"] if cls in ("Track", "SubTrack") else \
            ["pt", "fn", "binop", "nestfirst", "nestcount", "dict", "called", "row"] if cls == "Jet" else \
            ["met", "fn", "nestfirst", "nestcount", "tuple", "lead", "lead", "called", "row"]
        k = r.choice(opts)
        if k in ("pt", "met"):
            w, x, _ = self.mcall(cls, N(v), N(v), k, ev)
            return w, x
        if k == "called":
            # an immediately called lambda: its body is part of the query, its parameter has the argument's type
            z = r.choice(["z", v, "q", None, None])
            if z is None:
                self.fresh += 1
                z = "c%d" % self.fresh                  # never hidden by another parameter: usable further in
                self.outer.append((z, cls, d))
                try:
                    w, x = self.scalar(cls, z, d, ev)
                finally:
                    self.outer.pop()
            else:
                w, x = self.scalar(cls, z, d, ev)
            return call(lam(z, w), [N(v)]), call(lam(z, x), [N(v)])
        if k == "lead":
            # a method of an object returned directly (no lambda): e.LeadLep().pt()
            lead = r.choice(["LeadLep", "LeadMu"])
            o, ox, res = self.mcall("Event", N(v), N(v), lead, ev)
            if r.random() < 0.4:       # (e.LeadLep() if c else e.LeadLep()).pt(): equal object types on both branches
                o2, ox2, _ = self.mcall("Event", N(v), N(v), lead, ev)
                o = ast.IfExp(test=gen.cmp(ast.Gt, C(1), C(0)), body=o, orelse=o2)
                ox = ast.IfExp(test=gen.cmp(ast.Gt, C(1), C(0)), body=ox, orelse=ox2)
            sub = res.split(":")[1]
            w, x, _ = self.mcall(sub, o, ox, r.choice(sorted(METHODS[sub])), ev)
            return w, x
        if k in ("fn", "plain"):
            a, ax = self.scalar(cls, v, d, ev)
            return self.fn_site(k, a, ax, ev)
        if k == "binop":
            a, ax = self.scalar(cls, v, d, ev)
            b, bx = self.scalar(cls, v, d, ev)
            return gen.binop(ast.Add, a, b), gen.binop(ast.Add, ax, bx)
        if k == "param":
            p = r.choice([C(1), C("p"), gen.tup(C(1), C("q"))])
            w = call(gen.sub(A(N(v), "getAttr"), p), [C("n")])
            site = call(A(N(v), "getAttr"), [C("n")])
            out = self.fire("pcb", site, ev, kind="param", param=ast.literal_eval(p))
            return w, out
        coll, collx, sub = self.collection(cls, v, d, ev)
        kind = self.kind
        if k == "row" and kind == "iter":
            # a dictionary row between two operators: the parameter of the second lambda is a record, its fields -
            # whatever legal identifier names them, soft keywords included - are typed, so callbacks fire on them
            key = r.choice(ROW_KEYS)
            nv, rv = r.choice(["t", "q"]), r.choice(["r", "row"])
            row = lambda e: gen.dct([(C(key), e), (C("o"), C(1))])  # noqa
            acc = (lambda: A(N(rv), key)) if r.random() < 0.6 else (lambda: gen.sub(N(rv), C(key)))
            self.depth = max(self.depth, d + 1)
            name = r.choice(sorted(m for m, (_, res) in METHODS[sub].items() if res == "float"))
            w2, x2, _ = self.mcall(sub, acc(), acc(), name, ev)
            c2 = call(A(call(A(coll, "Select"), [lam(nv, row(N(nv)))]), "Select"), [lam(rv, w2)])
            c2x = call(A(call(A(collx, "Select"), [lam(nv, row(N(nv)))]), "Select"), [lam(rv, x2)])
            return call(A(c2, "First"), []), call(A(c2x, "First"), [])
        if k == "nestcount":
            body_ev = []
            nv = r.choice(["t", v if not any(v == o[0] for o in self.outer) else "t", "q"])   # a tracked parameter is never hidden
            b, bx = self.scalar(sub, nv, d + 1, body_ev)
            cw = tc.op_call(r, coll, "Where", lam(nv, gen.cmp(ast.Gt, b, C(1))), 0.0 if kind == "own" else 0.5)
            cx = call(A(collx, "Where"), [lam(nv, gen.cmp(ast.Gt, bx, C(1)))])
            ev += body_ev
            cx = self.cfire(kind, cx, ev, "Where")
            return call(A(cw, "Count"), []), call(A(cx, "Count"), [])
        if k in ("dict", "tuple"):
            if k == "dict":
                coll, collx = A(gen.dct([(C("c"), coll)]), "c"), A(gen.dct([(C("c"), collx)]), "c")
            else:
                coll, collx = gen.sub(gen.tup(coll, C(0)), C(0)), gen.sub(gen.tup(collx, C(0)), C(0))
        # First() / [0] then a scalar method of the element (the call site is at this lambda depth)
        if r.random() < 0.5 or kind == "coll":
            f, fx = call(A(coll, "First"), []), self.cfire(kind, call(A(collx, "First"), []), ev)
        else:
            f, fx = gen.sub(coll, C(0)), gen.sub(collx, C(0))
        name = r.choice(sorted(METHODS[sub])) if sub in LEPTONS else "pt"
        w, x, _ = self.mcall(sub, f, fx, name, ev)
        return w, x

    def collection(self, cls, v, d, ev):
        """an Iterable-valued expression over v : cls -> (written, expected, element class)"""
        r = self.r
        if cls == "Event":
            w, x, res = self.mcall("Event", N(v), N(v), r.choice(["Jets", "Jets", "Muons", "Parts", "GoodJets", "CTrks", "CTrks", "ItJets", "ItJets"]), ev)
        else:
            w, x, res = self.mcall("Jet", N(v), N(v), r.choice(["trks", "subs", "leps", "ctrks"]), ev)
        if r.random() < 0.2:
            # a conditional whose branches have the same collection type is a typed receiver like any other
            name = w.func.attr
            w2, x2, _ = self.mcall(cls, N(v), N(v), name, ev)
            t, tx = gen.cmp(ast.Gt, C(1), C(0)), gen.cmp(ast.Gt, C(1), C(0))
            w, x = ast.IfExp(test=t, body=w, orelse=w2), ast.IfExp(test=tx, body=x, orelse=x2)
        self.kind = res.split(":")[0]
        return w, x, res.split(":")[1]

    def cfire(self, kind, site, ev, op=None):
        """a method called on the registered collection class, or a method the user iterable declares itself: the
        class-level callback of that class fires on the call site"""
        if kind == "coll" and "collcls" in self.cbs:
            return self.fire("collcls", site, ev)
        if kind == "own" and op == "Where" and "itcls" in self.cbs:
            return self.fire("itcls", site, ev)
        return site

    def top(self, cls, v, d, ev):
        """body of an operator lambda over v : cls -> (written, expected)"""
        r = self.r
        if cls in ("Track", "SubTrack") + LEPTONS or d >= 3 or r.random() < 0.3:
            return self.scalar(cls, v, d, ev)
        coll, collx, sub = self.collection(cls, v, d, ev)
        kind = self.kind
        nv = r.choice(["j", "t", v if not any(v == o[0] for o in self.outer) else "t"])
        op = r.choice(["Select", "Select", "Where+Select", "SelectMany"])
        if op == "SelectMany" and sub == "Jet":
            body_ev = []
            b, bx, _ = self.collection("Jet", nv, d + 1, body_ev)
            self.depth = max(self.depth, d + 1)
            ev += body_ev
            return tc.op_call(r, coll, "SelectMany", lam(nv, b)), call(A(collx, "SelectMany"), [lam(nv, bx)])
        if op == "Where+Select":
            c, cx = self.scalar(sub, nv, d + 1, ev)
            coll = tc.op_call(r, coll, "Where", lam(nv, gen.cmp(ast.Lt, c, C(5))), 0.0 if kind == "own" else 0.5)
            collx = self.cfire(kind, call(A(collx, "Where"), [lam(nv, gen.cmp(ast.Lt, cx, C(5)))]), ev, "Where")
            kind = "iter"                                  # Where gives back a plain iterable
        b, bx = self.top(sub, nv, d + 1, ev)
        return tc.op_call(r, coll, "Select", lam(nv, b)), self.cfire(kind, call(A(collx, "Select"), [lam(nv, bx)]), ev)


FUNC_BODIES = {"myf": "a ** 0.5", "plainf": "a * 2.0 + 1.0", "abs": "x * 1.5", "len": "x + 0.5"}


def uses_function(q) -> bool:
    return tc.callable_form_ok(q, FUNC_BODIES)


def run_cases(ctx, model, desc, cases, form="ast"):
    from func_adl.util_ast import as_ast

    runner = tc.run_impl if form == "ast" else tc.callable_runner(ctx.rng, model, desc, cases, FUNC_BODIES)
    tag = "" if form == "ast" else "<python callable; registered functions with real bodies %s> " % FUNC_BODIES

    w = model.world_sx()
    item = model.ev("Event")
    item_sx = model.ty_sx(item)
    answers = ctx.driver.call("op", [tc.model_requests(w, op, item_sx, q) for op, q, qx, ev, s, d in cases])
    for (op, q, qx, ev, sites, depth), ans in zip(cases, answers):
        ctx.evaluations += 1
        ctx.corr_cases += 1
        if sites:
            ctx.distinct.add(ast.dump(q))
        ctx.count("lambda_depth", str(depth))
        ctx.count("callback_sites", str(min(sites, 10)))
        ctx.count("operator", op)
        ctx.count("form", form)
        impl = runner(model, op, item, q)
        mod = tc.parse_model_answer(ans)
        want_calls = [e for e in ev if e[0] != "meta"]
        want_metas = [bridge.to_sx(as_ast(e[1])) for e in ev if e[0] == "meta"]
        ok, what = True, ""
        if impl[0] != "ok":
            ok, what = False, "query refused/crashed: %s" % tc.show(impl)[:160]
        else:
            got_calls = [tuple(c) for c in impl[3]]
            if [c[:3] for c in got_calls] != [c[:3] for c in want_calls] or \
                    [c[3] for c in got_calls if c[0] == "param"] != [c[3] for c in want_calls if c[0] == "param"]:
                ok, what = False, "invocation log %s, expected %s" % ([c[:2] for c in got_calls], [c[:2] for c in want_calls])
                if [c[:2] for c in got_calls] == [c[:2] for c in want_calls]:
                    what = "callbacks saw other call sites than the query's: got %s" % [
                        ast.unparse(bridge.from_sx(c[2])) for c in got_calls]
            elif impl[4] != want_metas:
                ok, what = False, "MetaData upstream of %s: %d entries %s, expected %s" % (
                    op, len(impl[4]), [ast.unparse(bridge.from_sx(x)) for x in impl[4]],
                    [ast.unparse(bridge.from_sx(x)) for x in want_metas])
            elif impl[6] != ast.dump(qx):
                ok, what = False, "emitted %s, the callbacks' rewrites give %s" % (
                    ast.unparse(bridge.from_sx(impl[1])), ast.unparse(qx))
        wit = {"desc": desc, "op": op, "query_dump": ast.dump(q), "query": ast.unparse(q), "expect_dump": ast.dump(qx),
               "events": [list(e) for e in ev], "form": form}
        if not ok:
            ctx.fail("failing-input", "%s(%s%s): %s" % (op, tag, ast.unparse(q), what), dict(wit, oracle="callbacks"),
                     key=core.digest({"p": ID, "d": desc, "q": ast.dump(q), "op": op, "form": form}))
        if not tc.same_outcome(impl, mod):
            ctx.corr_disagreements += 1
            if ok:
                ctx.fail("no-failing-input-found", "correspondence stream_op vs ObjectStream.%s broke on %s: model %s, code %s" % (
                    op, ast.unparse(q), tc.show(mod)[:200], tc.show(impl)[:200]),
                    dict(wit, correspondence="stream_op", model=ans[:300], impl=tc.show(impl)[:300]))
        if len(ctx.samples) < 5 and depth >= 2 and sites >= 3 and impl[0] == "ok":
            ctx.sample({"input": ast.unparse(q), "output": ast.unparse(bridge.from_sx(impl[1])),
                        "log": [c[:2] for c in impl[3]], "metadata": len(impl[4])})


def gen_cases(r, model, desc, n):
    out = []
    for i in range(n):
        g = Q(r, model, desc)
        ev = []
        v = r.choice(["e", "j"])
        op = r.choice(["Select", "Select", "Where", "SelectMany"])
        if op == "Select":
            b, bx = g.top("Event", v, 0, ev)
        elif op == "Where":
            b, bx = g.scalar("Event", v, 0, ev)
            b, bx = gen.cmp(ast.Gt, b, C(0)), gen.cmp(ast.Gt, bx, C(0))
        else:
            b, bx, _ = g.collection("Event", v, 0, ev)
        out.append((op, lam(v, b), lam(v, bx), ev, g.sites, g.depth))
    return out


def run(ctx):
    for mi in range(ctx.budget(12, 150)):
        desc = gen_desc(ctx.rng)
        model = tc.Model(desc)
        cases = gen_cases(ctx.rng, model, desc, ctx.budget(100, 300))
        run_cases(ctx, model, desc, cases)
        # the queries that call a registered function, again as Python callables (last: the functions are registered anew)
        seen, fcases = set(), []
        for c in cases:
            if uses_function(c[1]) and ast.dump(c[1]) not in seen:
                seen.add(ast.dump(c[1]))
                fcases.append(c)
        run_cases(ctx, model, desc, fcases[:ctx.budget(10, 40)], form="callable")
    residual_called_lambdas(ctx)


# ---------------------------------------------------------------- residual of F45 (open, listed in KNOWN_FINDINGS.txt by these exact witnesses)
# An immediately called lambda is followed (its parameters typed by the arguments) only when it is called with exactly its plain
# positional parameters; called with a keyword, or with a default left to apply, its body is not followed: a call site inside
# it fires no callback and its MetaData is missing.  Found by a reviewer of round 11 on the unchanged tree; binding keywords and
# defaults in process_called_lambda means visiting default expressions in the enclosing scope and putting the rewritten nodes back -
# not a small change, and the model (called_ok / bind_params in Model/TypeFollow.v) and four whole-query theorems follow the code.

_RES_LOG = []


def _res_cb(s, a):
    _RES_LOG.append(ast.unparse(a))
    return s.MetaData({"m": "jetpt"}), a


class ResJet:
    @__import__("func_adl").func_adl_callback(_res_cb)
    def pt(self) -> float: ...


class ResEvent:
    def LeadJet(self) -> ResJet: ...


RESIDUAL = ["lambda e: (lambda j: j.pt())(j=e.LeadJet())", "lambda e: (lambda j, k=1: j.pt())(e.LeadJet())"]
RESIDUAL_CONTROL = "lambda e: (lambda j: j.pt())(e.LeadJet())"


def residual_called_lambdas(ctx, only=None):
    import logging
    from func_adl import ObjectStream

    logging.disable(logging.CRITICAL)
    try:
        for src in [RESIDUAL_CONTROL] + RESIDUAL:
            if only is not None and src != only:
                continue
            del _RES_LOG[:]
            st = ObjectStream[ResEvent](ast.Name("ds", ast.Load()), ResEvent).Select(src)
            fired = list(_RES_LOG)
            has_md = "MetaData" in ast.dump(st.query_ast)
            ctx.evaluations += 1
            ok = fired == ["j.pt()"] and has_md
            ctx.count("called_lambda_binding", ("control" if src == RESIDUAL_CONTROL else "keyword/default") + (": callback fired" if ok else ": NOT fired"))
            if not ok:
                ctx.fail("failing-input", "Select(%s) on a typed stream: the call site j.pt() inside the called lambda fired %r and the "
                         "stream %s the callback's MetaData; the property requires one invocation and the MetaData upstream"
                         % (src, fired, "carries" if has_md else "does not carry"),
                         {"oracle": "called-lambda-binding", "lambda": src}, key=core.digest({"p": ID, "called-lambda": src}))
    finally:
        logging.disable(logging.NOTSET)


def replay(ctx, wit):
    if wit.get("oracle") == "called-lambda-binding":
        residual_called_lambdas(ctx, only=wit["lambda"])
        return
    desc = wit["desc"]
    model = tc.Model(desc)
    q = eval(wit["query_dump"], dict(vars(ast)))
    qx = eval(wit["expect_dump"], dict(vars(ast)))
    ev = [tuple(e) for e in wit["events"]]
    run_cases(ctx, model, desc, [(wit["op"], q, qx, ev, 1, 0)], form=wit.get("form", "ast"))

"""C11 - streams are immutable values."""
from __future__ import annotations

import stream_common as sc

ID = "C11"
TAG = "stream"
EXTRACT = "FA/Extract/ExtractStream.v"
DRIVER = "driver_stream.ml"
COQ_FILES = ["FA/Proofs/HeapFacts.v", "FA/Proofs/StreamFrame.v", "FA/Properties/C11.v"]

LEVEL = ("Coq theorems over the executable state machine Model/Stream.v on a heap of AST node objects (Model/Heap.v): "
         "streams_immutable (for every history and every prefix, the dump and item type - and every non-field attribute - of "
         "every live stream are unchanged by any later operation, incl. value()), proved from the frame invariant that every step "
         "only extends the heap and the stream table (step_frame) ; remove_preserves_input (the cleaner writes no existing object). "
         "Model tied to the code by exact comparison after every step of every live stream, incl. the object graph (which objects "
         "are shared, which are new, which non-field attributes they carry). Oracles on the code alone: 'immutable' (dump, item type, "
         "the _q_metadata carried by the nodes of the query AST and lookup_query_metadata of every key of the history, of every live "
         "stream, equal their first observation after every later step), 'item-type', 'independent' (every stream equals the one "
         "built by the operations of its own derivation path alone).")
TRUSTED = sc.TRUSTED_COMMON
ASSUME = sc.ASSUME_COMMON
RULE = ("corpus (F13 witnesses, shared prebuilt lambdas, joins) + all histories of length <= N over a 9-operation alphabet acting on "
        "any live stream + seeded random histories (<= 40 operations, <= 3 datasets, typed and untyped, callbacks adding metadata, "
        "sync and async value with interleaved completions); QMetaData lands on tops with and without query metadata, on dataset "
        "roots and derived streams, shared with 0, 1, >= 2 other live streams (histogram qmd_target); a history is non-trivial when it has >= 3 streams and a value or "
        "QMetaData operation; distinct by its JSON")

ALPHABET = [
    {"op": "ds", "ty": "Any"},
    {"op": "der", "kind": "Select", "lam": "lambda e: e.x"},
    {"op": "der", "kind": "Where", "lam": "lambda e: e.x > 1"},
    {"op": "md", "val": {}},
    {"op": "md", "val": {"m": 2}},
    {"op": "qmd", "kv": [["a", 2]]},
    {"op": "qmd", "kv": [["a", 3], ["b", 2]]},
    {"op": "term", "m": "AsAwkwardArray", "args": {}},
    {"op": "val", "ov": None, "title": None, "res": ["R", "r1"]},
]

CORPUS = [
    # F13: value() used to delete the empty wrapper from the stream's own AST and from every stream sharing it
    [{"op": "ds", "ty": "Any"}, {"op": "md", "s": 0, "val": {}}, {"op": "der", "s": 1, "kind": "Select", "lam": "lambda e: e.x"},
     {"op": "val", "s": 2, "ov": None, "title": None, "res": ["R", "r1"]}],
    [{"op": "ds", "ty": "Any"}, {"op": "md", "s": 0, "val": {}}, {"op": "md", "s": 1, "val": {}},
     {"op": "der", "s": 2, "kind": "Select", "lam": "lambda e: MetaData(e.x, {})"},
     {"op": "term", "s": 3, "m": "AsAwkwardArray", "args": {}}, {"op": "vs", "s": 4, "ov": 0, "title": "t"},
     {"op": "val", "s": 1, "ov": None, "title": None, "res": ["X", "KeyError"]}, {"op": "vf", "c": 0, "res": ["R", "r2"]}],
    # callbacks put an empty wrapper on the parent chain
    [{"op": "ds", "ty": "EvtC"}, {"op": "der", "s": 0, "kind": "Select", "lam": "lambda e: e.jets()"},
     {"op": "der", "s": 0, "kind": "SelectMany", "lam": "lambda e: e.jets()"},
     {"op": "val", "s": 1, "ov": None, "title": None, "res": ["R", "r1"]}, {"op": "val", "s": 2, "ov": None, "title": None, "res": ["R", "r1"]}],
    # a prebuilt lambda whose body is another stream's AST object (shared), cleaned by value()
    [{"op": "ds", "ty": "Any"}, {"op": "md", "s": 0, "val": {}}, {"op": "new", "src": "MetaData(S1, {})", "ty": "Any"},
     {"op": "der", "s": 0, "kind": "Select", "lam": "lambda e: S2", "prebuilt": True},
     {"op": "der", "s": 1, "kind": "Select", "lam": "lambda e: (S2, S3)", "prebuilt": True},
     {"op": "val", "s": 4, "ov": 1, "title": None, "res": ["R", "r1"]}, {"op": "val", "s": 3, "ov": 1, "title": None, "res": ["R", "r1"]}],
    # the caller hands the SAME lambda tree to operator calls on an untyped and on two typed datasets (F52): the defaults the
    # follower fills in for one stream must not show up in the others
    [{"op": "ds", "ty": "Any"}, {"op": "ds", "ty": "Evt"}, {"op": "ds", "ty": "EvtC"},
     {"op": "der", "s": 0, "kind": "Select", "lam": "lambda e: e.met()", "prebuilt": "shared"},
     {"op": "der", "s": 1, "kind": "Select", "lam": "lambda e: e.met()", "prebuilt": "shared"},
     {"op": "der", "s": 2, "kind": "Select", "lam": "lambda e: e.met()", "prebuilt": "shared"},
     {"op": "der", "s": 0, "kind": "Where", "lam": "lambda e: e.met() > 10", "prebuilt": "shared"},
     {"op": "der", "s": 2, "kind": "Where", "lam": "lambda e: e.met() > 10", "prebuilt": "shared"},
     {"op": "val", "s": 3, "ov": None, "title": None, "res": ["R", "r1"]}],
    # QMetaData on the dataset root and on derived streams, then siblings
    [{"op": "ds", "ty": "Evt"}, {"op": "qmd", "s": 0, "kv": [["a", 2]]}, {"op": "qmd", "s": 1, "kv": [["b", 3]]},
     {"op": "der", "s": 2, "kind": "Where", "lam": "lambda e: e.met() > 10"}, {"op": "qmd", "s": 3, "kv": [["a", 3]]},
     {"op": "qmd", "s": 3, "kv": [["a", 2]]}, {"op": "der", "s": 0, "kind": "Where", "lam": "lambda e: e.met()"}],
    # QMetaData on a derived stream whose top node carries no query metadata yet, with an earlier child of that stream alive;
    # then a sibling QMetaData from the same parent, an execution of one branch, a late child; second dataset: on the root first
    [{"op": "ds", "ty": "Evt"}, {"op": "der", "s": 0, "kind": "SelectMany", "lam": "lambda e: e.jets()"},
     {"op": "der", "s": 1, "kind": "Where", "lam": "lambda j: j.pt() > 5"}, {"op": "der", "s": 2, "kind": "Select", "lam": "lambda j: j.pt()"},
     {"op": "qmd", "s": 2, "kv": [["a", "v1"]]}, {"op": "qmd", "s": 2, "kv": [["b", "22"]]},
     {"op": "der", "s": 4, "kind": "Select", "lam": "lambda j: j.pt()"}, {"op": "val", "s": 6, "ov": None, "title": None, "res": ["R", "r1"]},
     {"op": "der", "s": 2, "kind": "Select", "lam": "lambda j: j.pt()"},
     {"op": "ds", "ty": "Any"}, {"op": "qmd", "s": 8, "kv": [["c", "x"]]}, {"op": "der", "s": 9, "kind": "Select", "lam": "lambda e: e.x"},
     {"op": "qmd", "s": 10, "kv": [["a", "v2"]]}],
    # the same on tops made by MetaData, a terminal and Where; the bare dataset root with two children and two QMetaData branches
    [{"op": "ds", "ty": "Any"}, {"op": "md", "s": 0, "val": {"m": 2}}, {"op": "der", "s": 1, "kind": "Select", "lam": "lambda e: e.x"},
     {"op": "qmd", "s": 1, "kv": [["a", 2]]}, {"op": "qmd", "s": 1, "kv": [["b", 3]]},
     {"op": "term", "s": 2, "m": "AsAwkwardArray", "args": {}}, {"op": "qmd", "s": 5, "kv": [["a", 3]]}, {"op": "qmd", "s": 5, "kv": [["a", "y"]]},
     {"op": "der", "s": 0, "kind": "Where", "lam": "lambda e: e.x > 1"}, {"op": "qmd", "s": 0, "kv": [["c", None], ["a", 2]]},
     {"op": "qmd", "s": 0, "kv": [["b", "x"]]}, {"op": "vs", "s": 9, "ov": None, "title": None}, {"op": "qmd", "s": 8, "kv": [["a", "2"]]},
     {"op": "vf", "c": 0, "res": ["R", "r2"]}],
]


def histories(ctx):
    hs = list(CORPUS)
    n = ctx.budget(4, 5)
    ex = sc.exhaustive_histories(ALPHABET, n)
    ctx.notes.append("exhaustive: %d histories of length <= %d over %d operation templates" % (len(ex), n, len(ALPHABET)))
    hs += ex
    for _ in range(ctx.budget(120, 1500)):
        hs.append(sc.random_history(ctx.rng, ctx.rng.randrange(4, 41)))
    return hs


# ---------------------------------------------------------------- regrafted lambdas (outside the stream model)
# A lambda - or a part of one - taken out of the query of a live stream and handed, as an ast object, to an operator of
# another dataset.  The nodes of a processed lambda carry non-field attributes of the library's own (`_old_ast` on calls whose
# defaults were filled in), and the second dataset's class model fills in other defaults: nothing of that may show in the
# first stream.  The lambda processing is an input of Model/Stream.v, so this is a direct oracle on the implementation.

from typing import Iterable  # noqa: E402


class InfoA:
    def met(self, scale: float = 1.0) -> float: ...


class JetA:
    def pt(self, unit: int = 1) -> float: ...


class EvA:
    def info(self) -> InfoA: ...
    def jets(self) -> Iterable[JetA]: ...
    def met(self, unit: int = 1) -> float: ...


class InfoB:
    def met(self, scale: float = 1.0, calib: bool = True) -> float: ...


class JetB:
    def pt(self, unit: int = 7, tag: str = "b") -> float: ...


class EvB:
    def info(self, version: int = 5) -> InfoB: ...
    def jets(self, coll: str = "kt") -> Iterable[JetB]: ...
    def met(self, unit: int = 2, extra: int = 3) -> float: ...


def _regraft_classes():
    return EvA, EvB


REGRAFT_LAMBDAS = [
    ("Select", "lambda e: e.info().met()"),
    ("Select", "lambda e: e.met() + e.info().met(2.0)"),
    ("Where", "lambda e: e.info().met() > 10"),
    ("Select", "lambda e: e.jets().Select(lambda j: j.pt())"),
    ("SelectMany", "lambda e: e.jets()"),
    ("Select", "lambda e: (e.met(), e.jets().Where(lambda j: j.pt() > e.met()).Count())"),
    ("Select", "lambda e: {'m': e.met(), 'i': e.info().met()}"),
]


def _regraft_scenarios():
    out = []
    for i in range(len(REGRAFT_LAMBDAS)):
        for how in ("string", "ast"):
            for second in ("B", "A", "Any"):
                for then in ("same-op", "Select-after-Select"):
                    out.append({"lam": i, "how": how, "second": second, "then": then})
    return out


def _regraft_run(sn):
    """Returns a description of the first change seen on an earlier stream, or None."""
    import ast
    from typing import Any
    from func_adl import EventDataset

    EvA, EvB = _regraft_classes()

    class DS(EventDataset):
        def __init__(self, t):
            super().__init__(item_type=t)

        async def execute_result_async(self, a, title=None):
            return a

    kind, src = REGRAFT_LAMBDAS[sn["lam"]]
    first = ast.parse(src, mode="eval").body if sn["how"] == "ast" else src
    live = []

    def watch(st):
        live.append((st, ast.dump(st.query_ast), st.item_type))

    def changed(step):
        for k, (st, d, it) in enumerate(live):
            if ast.dump(st.query_ast) != d or st.item_type != it:
                return "after %s: stream #%d was %s and is now %s" % (step, k, _unp(d), ast.unparse(st.query_ast))
        return None

    def _unp(d):
        try:
            return ast.unparse(eval(d, dict(vars(ast))))
        except Exception:  # noqa
            return d[:200]

    s1 = getattr(DS(EvA), kind)(first)
    watch(s1)
    lam_node = s1.query_ast.args[1]
    t2 = {"A": EvA, "B": EvB, "Any": Any}[sn["second"]]
    try:
        s2 = getattr(DS(t2), kind)(lam_node)
        watch(s2)
    except ValueError:
        pass
    x = changed("handing stream #0's lambda to %s of a dataset of %s" % (kind, sn["second"]))
    if x:
        return x
    if sn["then"] == "Select-after-Select" and kind == "Select":
        # the processed lambda once more, to a third dataset, and the second stream's lambda back to the first class model
        try:
            s3 = DS(EvB).Select(lam_node)
            watch(s3)
            s4 = DS(EvA).Select(live[1][0].query_ast.args[1]) if len(live) > 1 else None
            if s4 is not None:
                watch(s4)
        except ValueError:
            pass
        x = changed("handing the lambdas on once more")
        if x:
            return x
    for st, _, _ in list(live):
        try:
            st.value()
        except Exception:  # noqa
            pass
    return changed("executing every stream")


def regraft_oracle(ctx, only=None):
    import core
    n = 0
    for sn in _regraft_scenarios():
        if only is not None and sn != only:
            continue
        n += 1
        ctx.evaluations += 1
        try:
            x = _regraft_run(sn)
        except Exception as ex:  # noqa
            x = None
            ctx.count("regraft", "scenario raised %s" % type(ex).__name__)
        ctx.count("regraft", "changed an earlier stream" if x else "all earlier streams unchanged")
        if x:
            kind, src = REGRAFT_LAMBDAS[sn["lam"]]
            ctx.fail("failing-input", "C11 oracle 'regraft': DS(EvA).%s(%s) [%s], then its processed lambda object handed to another "
                     "dataset: %s" % (kind, src, sn["how"], x), {"oracle": "regraft", "scenario": sn},
                     key=core.digest({"p": ID, "regraft": sn}))
    ctx.notes.append("regraft oracle: %d scenarios (a processed lambda taken from a live stream's query handed to operators of other "
                     "datasets with other class models; every earlier stream's dump and item type re-read after every step)" % n)


def run(ctx):
    sc.check_histories(ctx, ID, histories(ctx), "history")
    regraft_oracle(ctx)


def replay(ctx, w):
    if w.get("oracle") == "regraft":
        regraft_oracle(ctx, only=w["scenario"])
        return
    sc.replay_history(ctx, ID, w)

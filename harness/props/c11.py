"""C11 - streams are immutable values."""
from __future__ import annotations

import stream_common as sc

ID = "C11"
TAG = "stream"
EXTRACT = "FA/Extract/ExtractStream.v"
DRIVER = "driver_stream.ml"
COQ_FILES = ["FA/Proofs/HeapFacts.v", "FA/Proofs/StreamFrame.v", "FA/Proofs/CopyTreeFacts.v", "FA/Proofs/CopyTreeStore.v", "FA/Proofs/CopyTreeFresh.v", "FA/Properties/C11.v"]

LEVEL = ("Coq theorems over the executable state machine Model/Stream.v on a heap of AST node objects (Model/Heap.v): "
         "streams_immutable (for every history and every prefix, the dump and item type - and every non-field attribute - of "
         "every live stream are unchanged by any later operation, incl. value()), proved from the frame invariant that every step "
         "only extends the heap and the stream table (step_frame) ; remove_preserves_input (the cleaner writes no existing object). "
         "Model tied to the code by exact comparison after every step of every live stream, incl. the object graph (which objects "
         "are shared, which are new, which non-field attributes they carry). Oracles on the code alone: 'immutable' (dump, item type, "
         "the _q_metadata carried by the nodes of the query AST and lookup_query_metadata of every key of the history, of every live "
         "stream, equal their first observation after every later step), 'item-type', 'independent' (every stream equals the one "
         "built by the operations of its own derivation path alone).")
TRUSTED = sc.TRUSTED_COMMON
ASSUME = sc.ASSUME_COMMON
RULE = ("corpus (F13 witnesses, shared prebuilt lambdas, joins) + all histories of length <= N over a 9-operation alphabet acting on "
        "any live stream + seeded random histories (<= 40 operations, <= 3 datasets, typed and untyped, callbacks adding metadata, "
        "sync and async value with interleaved completions); QMetaData lands on tops with and without query metadata, on dataset "
        "roots and derived streams, shared with 0, 1, >= 2 other live streams (histogram qmd_target); a history is non-trivial when it has >= 3 streams and a value or "
        "QMetaData operation; distinct by its JSON")

ALPHABET = [
    {"op": "ds", "ty": "Any"},
    {"op": "der", "kind": "Select", "lam": "lambda e: e.x"},
    {"op": "der", "kind": "Where", "lam": "lambda e: e.x > 1"},
    {"op": "md", "val": {}},
    {"op": "md", "val": {"m": 2}},
    {"op": "qmd", "kv": [["a", 2]]},
    {"op": "qmd", "kv": [["a", 3], ["b", 2]]},
    {"op": "term", "m": "AsAwkwardArray", "args": {}},
    {"op": "val", "ov": None, "title": None, "res": ["R", "r1"]},
]

CORPUS = [
    # F13: value() used to delete the empty wrapper from the stream's own AST and from every stream sharing it
    [{"op": "ds", "ty": "Any"}, {"op": "md", "s": 0, "val": {}}, {"op": "der", "s": 1, "kind": "Select", "lam": "lambda e: e.x"},
     {"op": "val", "s": 2, "ov": None, "title": None, "res": ["R", "r1"]}],
    [{"op": "ds", "ty": "Any"}, {"op": "md", "s": 0, "val": {}}, {"op": "md", "s": 1, "val": {}},
     {"op": "der", "s": 2, "kind": "Select", "lam": "lambda e: MetaData(e.x, {})"},
     {"op": "term", "s": 3, "m": "AsAwkwardArray", "args": {}}, {"op": "vs", "s": 4, "ov": 0, "title": "t"},
     {"op": "val", "s": 1, "ov": None, "title": None, "res": ["X", "KeyError"]}, {"op": "vf", "c": 0, "res": ["R", "r2"]}],
    # callbacks put an empty wrapper on the parent chain
    [{"op": "ds", "ty": "EvtC"}, {"op": "der", "s": 0, "kind": "Select", "lam": "lambda e: e.jets()"},
     {"op": "der", "s": 0, "kind": "SelectMany", "lam": "lambda e: e.jets()"},
     {"op": "val", "s": 1, "ov": None, "title": None, "res": ["R", "r1"]}, {"op": "val", "s": 2, "ov": None, "title": None, "res": ["R", "r1"]}],
    # a prebuilt lambda whose body is another stream's AST object (shared), cleaned by value()
    [{"op": "ds", "ty": "Any"}, {"op": "md", "s": 0, "val": {}}, {"op": "new", "src": "MetaData(S1, {})", "ty": "Any"},
     {"op": "der", "s": 0, "kind": "Select", "lam": "lambda e: S2", "prebuilt": True},
     {"op": "der", "s": 1, "kind": "Select", "lam": "lambda e: (S2, S3)", "prebuilt": True},
     {"op": "val", "s": 4, "ov": 1, "title": None, "res": ["R", "r1"]}, {"op": "val", "s": 3, "ov": 1, "title": None, "res": ["R", "r1"]}],
    # the caller hands the SAME lambda tree to operator calls on an untyped and on two typed datasets (F52): the defaults the
    # follower fills in for one stream must not show up in the others
    [{"op": "ds", "ty": "Any"}, {"op": "ds", "ty": "Evt"}, {"op": "ds", "ty": "EvtC"},
     {"op": "der", "s": 0, "kind": "Select", "lam": "lambda e: e.met()", "prebuilt": "shared"},
     {"op": "der", "s": 1, "kind": "Select", "lam": "lambda e: e.met()", "prebuilt": "shared"},
     {"op": "der", "s": 2, "kind": "Select", "lam": "lambda e: e.met()", "prebuilt": "shared"},
     {"op": "der", "s": 0, "kind": "Where", "lam": "lambda e: e.met() > 10", "prebuilt": "shared"},
     {"op": "der", "s": 2, "kind": "Where", "lam": "lambda e: e.met() > 10", "prebuilt": "shared"},
     {"op": "val", "s": 3, "ov": None, "title": None, "res": ["R", "r1"]}],
    # QMetaData on the dataset root and on derived streams, then siblings
    [{"op": "ds", "ty": "Evt"}, {"op": "qmd", "s": 0, "kv": [["a", 2]]}, {"op": "qmd", "s": 1, "kv": [["b", 3]]},
     {"op": "der", "s": 2, "kind": "Where", "lam": "lambda e: e.met() > 10"}, {"op": "qmd", "s": 3, "kv": [["a", 3]]},
     {"op": "qmd", "s": 3, "kv": [["a", 2]]}, {"op": "der", "s": 0, "kind": "Where", "lam": "lambda e: e.met()"}],
    # QMetaData on a derived stream whose top node carries no query metadata yet, with an earlier child of that stream alive;
    # then a sibling QMetaData from the same parent, an execution of one branch, a late child; second dataset: on the root first
    [{"op": "ds", "ty": "Evt"}, {"op": "der", "s": 0, "kind": "SelectMany", "lam": "lambda e: e.jets()"},
     {"op": "der", "s": 1, "kind": "Where", "lam": "lambda j: j.pt() > 5"}, {"op": "der", "s": 2, "kind": "Select", "lam": "lambda j: j.pt()"},
     {"op": "qmd", "s": 2, "kv": [["a", "v1"]]}, {"op": "qmd", "s": 2, "kv": [["b", "22"]]},
     {"op": "der", "s": 4, "kind": "Select", "lam": "lambda j: j.pt()"}, {"op": "val", "s": 6, "ov": None, "title": None, "res": ["R", "r1"]},
     {"op": "der", "s": 2, "kind": "Select", "lam": "lambda j: j.pt()"},
     {"op": "ds", "ty": "Any"}, {"op": "qmd", "s": 8, "kv": [["c", "x"]]}, {"op": "der", "s": 9, "kind": "Select", "lam": "lambda e: e.x"},
     {"op": "qmd", "s": 10, "kv": [["a", "v2"]]}],
    # the same on tops made by MetaData, a terminal and Where; the bare dataset root with two children and two QMetaData branches
    [{"op": "ds", "ty": "Any"}, {"op": "md", "s": 0, "val": {"m": 2}}, {"op": "der", "s": 1, "kind": "Select", "lam": "lambda e: e.x"},
     {"op": "qmd", "s": 1, "kv": [["a", 2]]}, {"op": "qmd", "s": 1, "kv": [["b", 3]]},
     {"op": "term", "s": 2, "m": "AsAwkwardArray", "args": {}}, {"op": "qmd", "s": 5, "kv": [["a", 3]]}, {"op": "qmd", "s": 5, "kv": [["a", "y"]]},
     {"op": "der", "s": 0, "kind": "Where", "lam": "lambda e: e.x > 1"}, {"op": "qmd", "s": 0, "kv": [["c", None], ["a", 2]]},
     {"op": "qmd", "s": 0, "kv": [["b", "x"]]}, {"op": "vs", "s": 9, "ov": None, "title": None}, {"op": "qmd", "s": 8, "kv": [["a", "2"]]},
     {"op": "vf", "c": 0, "res": ["R", "r2"]}],
]


def histories(ctx):
    hs = list(CORPUS)
    n = ctx.budget(4, 5)
    ex = sc.exhaustive_histories(ALPHABET, n)
    ctx.notes.append("exhaustive: %d histories of length <= %d over %d operation templates" % (len(ex), n, len(ALPHABET)))
    hs += ex
    for _ in range(ctx.budget(120, 1500)):
        hs.append(sc.random_history(ctx.rng, ctx.rng.randrange(4, 41)))
    return hs


# ---------------------------------------------------------------- regrafted lambdas (outside the stream model)
# A lambda - or a part of one - taken out of the query of a live stream and handed, as an ast object, to an operator of
# another dataset.  The nodes of a processed lambda carry non-field attributes of the library's own (`_old_ast` on calls whose
# defaults were filled in), and the second dataset's class model fills in other defaults: nothing of that may show in the
# first stream.  The lambda processing is an input of Model/Stream.v, so this is a direct oracle on the implementation.

from typing import Iterable  # noqa: E402


class InfoA:
    def met(self, scale: float = 1.0) -> float: ...


class JetA:
    def pt(self, unit: int = 1) -> float: ...


class EvA:
    def info(self) -> InfoA: ...
    def jets(self) -> Iterable[JetA]: ...
    def met(self, unit: int = 1) -> float: ...


class InfoB:
    def met(self, scale: float = 1.0, calib: bool = True) -> float: ...


class JetB:
    def pt(self, unit: int = 7, tag: str = "b") -> float: ...


class EvB:
    def info(self, version: int = 5) -> InfoB: ...
    def jets(self, coll: str = "kt") -> Iterable[JetB]: ...
    def met(self, unit: int = 2, extra: int = 3) -> float: ...


def _regraft_classes():
    return EvA, EvB


REGRAFT_LAMBDAS = [
    ("Select", "lambda e: e.info().met()"),
    ("Select", "lambda e: e.met() + e.info().met(2.0)"),
    ("Where", "lambda e: e.info().met() > 10"),
    ("Select", "lambda e: e.jets().Select(lambda j: j.pt())"),
    ("SelectMany", "lambda e: e.jets()"),
    ("Select", "lambda e: (e.met(), e.jets().Where(lambda j: j.pt() > e.met()).Count())"),
    ("Select", "lambda e: {'m': e.met(), 'i': e.info().met()}"),
]


def _regraft_scenarios():
    out = []
    for i in range(len(REGRAFT_LAMBDAS)):
        for how in ("string", "ast"):
            for second in ("B", "A", "Any"):
                for then in ("same-op", "Select-after-Select"):
                    out.append({"lam": i, "how": how, "second": second, "then": then})
    return out


def _regraft_run(sn):
    """Returns a description of the first change seen on an earlier stream, or None."""
    import ast
    from typing import Any
    from func_adl import EventDataset

    EvA, EvB = _regraft_classes()

    class DS(EventDataset):
        def __init__(self, t):
            super().__init__(item_type=t)

        async def execute_result_async(self, a, title=None):
            return a

    kind, src = REGRAFT_LAMBDAS[sn["lam"]]
    first = ast.parse(src, mode="eval").body if sn["how"] == "ast" else src
    live = []

    def watch(st):
        live.append((st, ast.dump(st.query_ast), st.item_type))

    def changed(step):
        for k, (st, d, it) in enumerate(live):
            if ast.dump(st.query_ast) != d or st.item_type != it:
                return "after %s: stream #%d was %s and is now %s" % (step, k, _unp(d), ast.unparse(st.query_ast))
        return None

    def _unp(d):
        try:
            return ast.unparse(eval(d, dict(vars(ast))))
        except Exception:  # noqa
            return d[:200]

    s1 = getattr(DS(EvA), kind)(first)
    watch(s1)
    lam_node = s1.query_ast.args[1]
    t2 = {"A": EvA, "B": EvB, "Any": Any}[sn["second"]]
    try:
        s2 = getattr(DS(t2), kind)(lam_node)
        watch(s2)
    except ValueError:
        pass
    x = changed("handing stream #0's lambda to %s of a dataset of %s" % (kind, sn["second"]))
    if x:
        return x
    if sn["then"] == "Select-after-Select" and kind == "Select":
        # the processed lambda once more, to a third dataset, and the second stream's lambda back to the first class model
        try:
            s3 = DS(EvB).Select(lam_node)
            watch(s3)
            s4 = DS(EvA).Select(live[1][0].query_ast.args[1]) if len(live) > 1 else None
            if s4 is not None:
                watch(s4)
        except ValueError:
            pass
        x = changed("handing the lambdas on once more")
        if x:
            return x
    for st, _, _ in list(live):
        try:
            st.value()
        except Exception:  # noqa
            pass
    return changed("executing every stream")


def regraft_oracle(ctx, only=None):
    import core
    n = 0
    for sn in _regraft_scenarios():
        if only is not None and sn != only:
            continue
        n += 1
        ctx.evaluations += 1
        try:
            x = _regraft_run(sn)
        except Exception as ex:  # noqa
            x = None
            ctx.count("regraft", "scenario raised %s" % type(ex).__name__)
        ctx.count("regraft", "changed an earlier stream" if x else "all earlier streams unchanged")
        if x:
            kind, src = REGRAFT_LAMBDAS[sn["lam"]]
            ctx.fail("failing-input", "C11 oracle 'regraft': DS(EvA).%s(%s) [%s], then its processed lambda object handed to another "
                     "dataset: %s" % (kind, src, sn["how"], x), {"oracle": "regraft", "scenario": sn},
                     key=core.digest({"p": ID, "regraft": sn}))
    ctx.notes.append("regraft oracle: %d scenarios (a processed lambda taken from a live stream's query handed to operators of other "
                     "datasets with other class models; every earlier stream's dump and item type re-read after every step)" % n)


# ---------------------------------------------------------------- Model/CopyTree.v against util_ast._copy_of_tree
# Random trees of ast node objects, some of them carrying non-field attributes (the three a stream's nodes carry, the library's
# own marks _old_ast/_ignore, a user's).  View of a tree: a node's children are its child nodes in ast.iter_fields order without the
# field-less singleton-like nodes (expr_context, operators), which go into the node's class text with its atoms.  Object identity:
# the nodes of the input are numbered in preorder 0..N-1; in the result, an object of the input keeps its number and the new
# objects are numbered N, N+1, ... in preorder - the order in which the code makes them.  The model must give the same list of
# identities (evaluated inside Coq by vm_compute), and the code's result must dump like its input and carry the same attributes.

COPY_ATTRS = ["_func_adl_executor", "_eds_object", "_q_metadata", "_old_ast", "_ignore", "note"]
_FIELDLESS = None


def _kids(n):
    import ast
    global _FIELDLESS
    if _FIELDLESS is None:
        _FIELDLESS = (ast.expr_context, ast.operator, ast.unaryop, ast.cmpop, ast.boolop)
    return [c for c in ast.iter_child_nodes(n) if not isinstance(c, _FIELDLESS)]


def _extra_attrs(n):
    return sorted(set(vars(n)) - set(n._fields) - set(n._attributes))


def _rand_tree(r, depth, pool=None):
    # pool: finished subtrees that may be used again - ONE node object at two places of the tree (a user who builds an ast by hand
    # can do that).  The code has no memo, so each occurrence is copied on its own; the model sees the unfolding (equal identities).
    import ast
    if pool and r.random() < 0.3:
        return r.choice(pool)
    n = _rand_tree1(r, depth, pool)
    if pool is not None:
        pool.append(n)
    return n


def _rand_tree1(r, depth, pool):
    import ast
    L = ast.Load()
    k = r.random()
    if depth <= 0 or k < 0.2:
        n = r.choice([lambda: ast.Name(id=r.choice("exyj"), ctx=L), lambda: ast.Constant(value=r.choice([1, 2.5, "s", True]))])()
    elif k < 0.45:
        n = ast.Call(func=ast.Attribute(value=_rand_tree(r, depth - 1, pool), attr=r.choice(["pt", "met", "info"]), ctx=L),
                     args=[_rand_tree(r, depth - 1, pool) for _ in range(r.randrange(0, 3))],
                     keywords=[ast.keyword(arg="k", value=_rand_tree(r, depth - 2, pool))] if r.random() < .2 else [])
    elif k < 0.6:
        n = ast.BinOp(left=_rand_tree(r, depth - 1, pool), op=r.choice([ast.Add(), ast.Mult()]), right=_rand_tree(r, depth - 1, pool))
    elif k < 0.7:
        n = ast.Lambda(args=ast.arguments(posonlyargs=[], args=[ast.arg(arg=r.choice("exyj"))], kwonlyargs=[], kw_defaults=[], defaults=[]),
                       body=_rand_tree(r, depth - 1, pool))
    elif k < 0.8:
        n = ast.Tuple(elts=[_rand_tree(r, depth - 1, pool) for _ in range(r.randrange(0, 4))], ctx=L)
    elif k < 0.9:
        n = ast.Call(func=ast.Name(id=r.choice(["Select", "Where", "MetaData", "EventDataset"]), ctx=L),
                     args=[_rand_tree(r, depth - 1, pool) for _ in range(r.randrange(0, 3))], keywords=[])
    else:
        n = ast.Subscript(value=_rand_tree(r, depth - 1, pool), slice=_rand_tree(r, depth - 2, pool), ctx=L)
    if r.random() < 0.22:
        for a in r.sample(COPY_ATTRS, r.choice([1, 1, 1, 2])):
            setattr(n, a, {"x": 1} if a == "_q_metadata" else (n if a == "_old_ast" else True))
    return n


def copytree_correspondence(ctx):
    import ast
    import os
    import core
    import bridge
    from func_adl.util_ast import _copy_of_tree

    r = ctx.rng
    n_cases = ctx.budget(60, 600)
    lines = ["From Coq Require Import String List.", "Import ListNotations.", "Local Open Scope string_scope.",
             "From FA.Model Require Import CopyTree.", ""]
    kinds = {"new": 0, "kept": 0, "shared": 0}
    done = 0
    for ci in range(n_cases):
        shared_case = ci % 2 == 1
        t = _rand_tree(r, r.choice([2, 3, 3, 4]), [] if shared_case else None)
        if ci % 3 == 0:
            t = ast.Lambda(args=ast.arguments(posonlyargs=[], args=[ast.arg(arg="e")], kwonlyargs=[], kw_defaults=[], defaults=[]), body=t)
        order = []

        def pre(n):
            order.append(n)
            for c in _kids(n):
                pre(c)
        pre(t)
        if len(order) > 60:
            continue
        index = {}
        for n in order:
            index.setdefault(id(n), len(index))
        N = len(index)
        if N < len(order):
            kinds["shared"] += 1
        newidx = {}
        before = ast.dump(t)
        res = _copy_of_tree(t)
        ctx.evaluations += 1
        got, carried = [], []
        cnt = [N]

        def walk(n):
            if id(n) in index:
                got.append(index[id(n)])
                kinds["kept"] += 1
            elif id(n) in newidx:
                got.append(newidx[id(n)])
            else:
                newidx[id(n)] = cnt[0]
                got.append(cnt[0])
                cnt[0] += 1
                kinds["new"] += 1
            carried.append(_extra_attrs(n))
            for c in _kids(n):
                walk(c)
        walk(res)
        wit = {"oracle": "copytree", "tree_dump": before, "attrs": [(i, _extra_attrs(n)) for i, n in enumerate(order) if _extra_attrs(n)]}
        if ast.dump(res) != before or ast.dump(t) != before or carried != [_extra_attrs(n) for n in order]:
            ctx.fail("failing-input", "_copy_of_tree changed the tree it was given or returned another query / other attributes: %s" % before[:300],
                     wit, key=core.digest({"p": ID, "copytree": before, "a": wit["attrs"]}))
            continue

        def g(n):
            return "(Node %d [%s] %s [%s])" % (index[id(n)], "; ".join(bridge.coq_str(a) for a in _extra_attrs(n)),
                                              bridge.coq_str(type(n).__name__), "; ".join(g(c) for c in _kids(n)))
        lines.append("Example copy_%d : (ids (fst (copy %s %d)), snd (copy %s %d)) = ([%s], %d)." % (
            ci, g(t), N, g(t), N, "; ".join(str(i) for i in got), cnt[0]))
        lines.append("Proof. vm_compute. reflexivity. Qed.")
        done += 1
    path = os.path.join(core.WORK, "copytree_%s.v" % ID)
    with open(path, "w") as f:
        f.write("\n".join(lines) + "\n")
    rc, out = core.sh(["timeout", "600", "coqc", "-Q", os.path.join(core.COQ, "FA"), "FA", path], cwd=core.WORK, timeout=660)
    ctx.corr_cases += done
    ctx.count("copytree", "objects of the result that are new", kinds["new"])
    ctx.count("copytree", "objects of the result that are the caller's (kept)", kinds["kept"])
    ctx.count("copytree", "input trees in which one node object occurs at two places", kinds["shared"])
    if rc != 0:
        ctx.corr_disagreements += 1
        ctx.fail("no-failing-input-found", "correspondence copy (Model/CopyTree.v, evaluated inside Coq) vs util_ast._copy_of_tree broke: "
                 "the code shares / renews other objects than the model", {"correspondence": "copytree", "file": path, "coq_output": out[-1500:]})
    else:
        ctx.notes.append("copy-of-tree correspondence: %d random attributed trees, the identities of the result's objects as the model "
                         "computes them (vm_compute inside Coq) equal the code's" % done)
    for ext in (".vo", ".vok", ".vos", ".glob"):
        try:
            os.remove(path[:-2] + ext)
        except OSError:
            pass
    try:
        os.remove(os.path.join(core.WORK, ".copytree_%s.aux" % ID))
    except OSError:
        pass


def run(ctx):
    sc.check_histories(ctx, ID, histories(ctx), "history")
    regraft_oracle(ctx)
    copytree_correspondence(ctx)


def replay(ctx, w):
    if w.get("oracle") == "regraft":
        regraft_oracle(ctx, only=w["scenario"])
        return
    sc.replay_history(ctx, ID, w)

"""C04 - captured variables are frozen by value at the call, respecting scope."""
from __future__ import annotations

import capture_common as cc
from capture_common import Case, Var

ID = "C04"
TAG = cc.TAG
EXTRACT = cc.EXTRACT
DRIVER = cc.DRIVER
COQ_FILES = ["FA/Proofs/CaptureProofs.v", "FA/Proofs/CaptureSem.v", "FA/Proofs/CaptureGen.v", "FA/Properties/C04.v"]

LEVEL = ("Coq theorems over the executable model of _rewrite_captured_vars / check_ast (Model/Capture.v, mirroring the code "
         "incl. fixes F08, F19, FC1, FC3, FC5-FC8): capture_freezes_partial - for EVERY expression tree and every backend, "
         "eval later (rewrite ce e) = eval (vals ce ++ later) e (both directions) whenever the names occurring in e are bound "
         "in the snapshot to int/bool/str/None literals or not at all and no attribute is folded; capture_then_resolve_partial "
         "(freeze + resolve of called lambdas, one direction); capture_respects_scope (snapshot values of names on the ignore "
         "stack are irrelevant, all trees; stack = erasure); capture_defaults_in_enclosing_scope (FC7/FC8: every bound name of a "
         "lambda with defaults / other parameter kinds is pushed, its default values are rewritten in the enclosing scope); "
         "capture_gate (check_ast accepts exactly legal constant kinds - "
         "generated table - else ValueError; the pipeline never returns an illegal constant).  Model tied to the code by exact "
         "comparison on generated Python programs incl. the same callable passed twice around a rebinding.")
TRUSTED = ["Coq 8.16.1 kernel (coqc); no axioms (Print Assumptions: closed under the global context)",
           "harness/sync_tables.py + harness/tables/util.py (legal_const_kinds read from util_ast.g_legal_capture_types)",
           "extraction: ExtrOcamlBasic + ExtrOcamlNativeString; ocaml/driver_capture.ml + ocaml/sx.ml codecs",
           "harness/bridge.py ast<->expr encoding; harness/props/capture_common.py program generator, snapshot construction, oracles",
           "inputs of the model, validated by correspondence only: what inspect.getclosurevars / f.__globals__ / hasattr+getattr "
           "report at the call (the snapshot cenv); source recovery of the lambda text (C03)"]
ASSUME = ["the snapshot (closure cells, module globals, attribute lookups) is an input of the model",
          "capture_freezes: names holding classes/modules/enums (attribute folding) and captured helpers are outside the theorem (correspondence + oracle only)",
          "lambdas with default values / other parameter kinds are [Other] nodes of the reference semantics (no value): covered by "
          "capture_respects_scope, capture_defaults_in_enclosing_scope, the correspondence and the oracles, not by capture_freezes"]
RULE = ("generated Python programs: values of 24 kinds x scope (module global, enclosing function at depth 1-3, class constant "
        "nested <=2, module attribute, enum with/without namespace) x use patterns (arithmetic, nested lambdas, comprehensions, "
        "called lambdas, attribute/keyword names equal to the captured name, ast-field attribute names, every lambda parameter kind "
        "and default values, starred arguments, helpers returning lambdas whose defaults capture variables) x rebinding/deletion after "
        "the call, plus seeded random lambda bodies; a case is non-trivial when python computes a value on some datum and that "
        "value was compared with the recorded lambda's; distinct by program text")

# use patterns: {X} is the captured expression, the lambda parameter is `e`
USES_INT = [
    "lambda e: e.a + {X}",
    "lambda e: ({X}, e.a, {X})",
    "lambda e: e.jets.Select(lambda j: j.pt + {X})",
    "lambda e: e.jets.Where(lambda j: j.pt > {X}).Count()",
    "lambda e: e.jets.Select(lambda j: j.sub.Select(lambda s: s + j.pt + {X}))",
    "lambda e: [j.pt + {X} for j in e.jets]",
    "lambda e: [j.pt for j in e.jets if j.pt > {X}]",
    "lambda e: (lambda q: q + {X})(e.a)",
    "lambda e: e.a if e.b > {X} else {X}",
    "lambda e: {{'k': {X}, 'v': e.a}}['k']",
    "lambda e: -{X} + e.a",
]
USES_ANY = [
    "lambda e: {X}",
    "lambda e: (e.a, {X})",
    "lambda e: e.jets.Select(lambda j: {X})",
]

# shadowing patterns: the captured name is `x` (value 5 unless stated)
SHADOW = [
    "lambda x: x.a",
    "lambda e: e.jets.Select(lambda x: x.pt)",
    "lambda e: e.jets.Select(lambda x: x.pt).Select(lambda q: q + x)",
    "lambda e: e.jets.Select(lambda j: j.sub.Select(lambda x: x + j.pt))",
    "lambda e: e.jets.Select(lambda x: x.sub.Select(lambda j: j + x.pt))",
    "lambda e: e.jets.Select(lambda j: j.sub.Select(lambda s: s + x))",
    "lambda e: [x.pt for x in e.jets]",
    "lambda e: [x.pt for x in e.jets if x.pt > 0]",
    "lambda e: [x.pt for x in e.jets] + [x]",
    "lambda e: [j.pt + x for j in e.jets]",
    "lambda e: sum(x.pt for x in e.jets)",
    "lambda e: sum(x.pt for x in e.jets) + x",
    "lambda e: {x.pt: x.eta for x in e.jets}",
    "lambda e: {x.pt for x in e.jets}",
    "lambda e: [x + y for (x, y) in e.pairs]",
    "lambda e: [x + q for (q, y) in e.pairs]",
    "lambda e: [s + j.pt for j in e.jets for s in j.sub]",
    "lambda e: [x for j in e.jets for x in j.sub]",
    "lambda e: [j.pt for j in e.jets if j.pt > x]",
    # the FIRST iterable belongs to the enclosing scope: the captured variable there is frozen although the target has its name
    "lambda e: [x + 1 for x in e.jets.Select(lambda j: j.pt + x)]",
    "lambda e: sum(x for x in e.jets.Select(lambda j: j.pt * x))",
    "lambda e: sorted({x for x in [x, e.a]})",
    "lambda e: {x: y for x in [x, y, e.a]}",
    "lambda e: [x + s for x in [x, e.a] for s in [x, y]]",
    "lambda e: [q for q in e.jets.Select(lambda x: x.pt + y) if q > x] + [x for x in [x]]",
    "lambda e: e.jets.Select(lambda j: [x * j.pt for x in [x, y]])",
    # several `for` clauses: a later iterable / condition mentions an earlier target that has the captured name
    "lambda e: [s + x.pt for x in e.jets for s in x.sub]",
    "lambda e: [s + x.pt for x in e.jets for s in x.sub if s > x.eta] + [x]",
    "lambda e: sum(s for x in e.jets for s in x.sub)",
    "lambda e: sum(1 for x in e.jets for s in x.sub if s > y) > x",
    "lambda e: {s for x in e.jets for s in x.sub}",
    "lambda e: {s: x.pt for x in e.jets for s in x.sub}",
    "lambda e: [t for x in e.jets for y in x.sub for t in [x.pt, y]]",
    "lambda e: [t + y for j in e.jets for x in j.sub for t in [x, j.pt]]",
    "lambda e: [s for j in e.jets for s in j.sub.Select(lambda q: q + x)]",
    "lambda e: [x + y for (x, y) in e.pairs for y in [x, y]]",
    "lambda e: e.jets.Select(lambda j: [s + x.pt for x in e.jets for s in x.sub if s > j.pt])",
    "lambda e: (lambda x: x + 1)(e.a) + x",
    "lambda e: (lambda x: x + 1)(x)",
    "lambda e: e.x",
    "lambda e: e.x + x",
    "lambda e: e.o.x + e.jets.Select(lambda j: j.x).Count()",
    "lambda e: abs(e.b - x)",
    "lambda e: e.jets.Select(lambda j: [x.real for x in j.sub])",
    "lambda e: [[x + y for y in j.sub] for j in e.jets]",
    "lambda e: (lambda q, x: q + x)(e.a, 1) + x",
    "lambda e: (lambda x, y: x - y)(e.a, e.b) + y",
    "lambda e: (lambda q, r, x: q + r + x)(e.a, y, 1)",
    "lambda e: e.jets.Aggregate(0, lambda acc, x: acc + x.pt) + x",
    "lambda e: e.jets.Aggregate(y, lambda x, y: x + y.pt)",
]

# attribute names that are fields of Python's own ast nodes (F19) on capture-free lambdas
ASTNAMES = ["lambda e: e.o.id", "lambda e: e.o.attr", "lambda e: e.o.value", "lambda e: e.o.lineno", "lambda e: e.o.ctx",
            "lambda e: e.o.a", "lambda e: e.jets.Select(lambda j: j.pt).Count()", "lambda e: e.o.jets.Select(lambda j: e.o.id + j.pt)"]


def scopes_for(name, src_of, depth_opts=((1, "l1"), (2, "l1"), (2, "l2"), (3, "l1"), (3, "l3"))):
    yield 1, "g"
    for d, s in depth_opts:
        yield d, s


def corpus():
    out = []
    # F08: a captured name that is also a comprehension target
    out.append(Case("lambda ev: [j.pt for j in ev.jets] + [j]", [Var("j", "l1", "j = 5")], 1, {"F08"}, group="corpus"))
    out.append(Case("lambda e: [x for x in e.jets.Select(lambda j: j.pt)]", [Var("x", "l1", "x = 3")], 1, {"F08"}, group="corpus"))
    out.append(Case("lambda e: {x: e.a for x in e.jets.Select(lambda j: j.pt)}", [Var("x", "g", "x = 3")], 1, {"F08"}, group="corpus"))
    # the first iterable of a comprehension is evaluated outside it: `jet` there is the captured global, the target is not
    out.append(Case("lambda e: [jet + 1 for jet in e.jets.Select(lambda j: j.pt * jet)]", [Var("jet", "g", "jet = 4", after="jet = 'REBOUND'")],
                    1, {"first-iterable"}, group="corpus"))
    # F42: the walrus target is a local of the lambda although a global of that name exists
    out.append(Case("lambda e: (y := e.x) + y", [Var("y", "g", "y = 3", after="y = 'REBOUND'")], 1, {"F42", "assignment-expression"}, group="corpus"))
    # a left-over loop index `j` as module global, two `for` clauses (the second iterable uses the first target)
    out.append(Case("lambda e: [t * scale for j in e.jets for t in j.sub if t > cut]",
                    [Var("j", "g", "for j in range(2):\n    pass", after="j = 77"), Var("cut", "g", "cut = 1", after="cut = 500"),
                     Var("scale", "g", "scale = 2.5", after="del scale")], 1, {"multi-for"}, group="corpus"))
    out.append(Case("lambda e: sum(1 for j in e.jets for t in j.sub if t > cut) > j",
                    [Var("j", "l1", "j = 1", after="j = 77"), Var("cut", "g", "cut = 1", after="cut = 500")], 1, {"multi-for"}, group="corpus"))
    # F19: attribute names of ast nodes
    for s in ASTNAMES:
        out.append(Case(s, [], 1, {"F19"}, group="corpus"))
    # FC1: a closure variable hides a module global of the same name
    out.append(Case("lambda e: e.a + x", [Var("x", "g", "x = 1"), Var("x", "l1", "x = 2")], 1, {"FC1"}, group="corpus"))
    out.append(Case("lambda e: e.a + x", [Var("x", "g", "x = 1"), Var("x", "l1", "x = 2"), Var("x", "l2", "x = 3")], 2, {"FC1"}, group="corpus"))
    return out


def class_cases():
    out = []
    for d, sc in scopes_for("K", None):
        K = Var("K", sc, "class K:\n    C = 5\n    class In:\n        D = 6\n        class Deep:\n            E = 7",
                after="K.C = 'REBOUND'\nK.In.D = 'REBOUND'\nK = 'REBOUND'")
        for X in ("K.C", "K.In.D", "K.In.Deep.E", "K.C + K.In.D"):
            for u in USES_INT[:6]:
                out.append(Case(u.format(X=X), [K], d, {"class-const"}, group="class"))
        out.append(Case("lambda e: K.missing", [K], d, {"class-const"}, group="class"))
        out.append(Case("lambda e: K", [K], d, {"class-const"}, group="class"))
        out.append(Case("lambda e: K.In", [K], d, {"class-const"}, group="class"))
        out.append(Case("lambda e: e.jets.Select(lambda K: K.pt)", [K], d, {"class-const", "shadow"}, group="class"))
    # data classes / named tuples stay as constants in callee position; other classes go back to a name
    out.append(Case("lambda e: DC(e.a, e.b)", [Var("DC", "g", "@dataclasses.dataclass\nclass DC:\n    u: int\n    v: int")], 1, {"dataclass"}, group="class"))
    out.append(Case("lambda e: NT(e.a, e.b)", [Var("NT", "g", "NT = collections.namedtuple('NT', ['u', 'v'])")], 1, {"dataclass"}, group="class"))
    out.append(Case("lambda e: PK(e.a)", [Var("PK", "g", "class PK:\n    def __init__(self, q):\n        self.q = q\n    def __eq__(self, o):\n        return self.q == o.q", byname=True)], 1, {"class-callee"}, group="class"))
    # module attributes
    for X, ok in (("math.pi", 1), ("math.e + math.pi", 1), ("math.floor(e.a)", 1), ("math.nosuch", 0), ("mm.pi", 1)):
        vs = [Var("mm", "l1", "mm = math", after="mm = None")]
        out.append(Case("lambda e: (%s, e.a)" % X, vs, 1, {"module-attr"}, group="module"))
        out.append(Case("lambda e: e.jets.Select(lambda j: %s)" % X, vs, 2, {"module-attr"}, group="module"))
    # enums, with and without the namespace attribute
    for ns in (None, "", "ns", "ns1.ns2"):
        for sc, d in (("g", 1), ("l1", 1), ("l2", 2)):
            col = Var("Col", sc, "class Col(enum.Enum):\n    red = 1\n    blue = 2", after="Col = None", byname=True)
            out.append(Case("lambda e: Col.red", [col], d, {"enum"}, ns_attr=ns, group="enum"))
            out.append(Case("lambda e: (Col.red, Col.blue, e.a)", [col], d, {"enum"}, ns_attr=ns, group="enum"))
            out.append(Case("lambda e: e.f(Col.red)", [col], d, {"enum"}, ns_attr=ns, group="enum"))
            out.append(Case("lambda e: Col.red.value + e.a", [col], d, {"enum"}, ns_attr=ns, group="enum"))
        out.append(Case("lambda e: Hold.Col.red", [Var("Hold", "g", "class Hold:\n    class Col(enum.Enum):\n        red = 1", byname=True)], 1, {"enum"}, ns_attr=ns, group="enum"))
    return out


def value_cases():
    out = []
    for d, sc in scopes_for("x", None):
        for label, v in cc.value_vars("x", sc):
            uses = USES_ANY + (USES_INT if label in ("int", "negint", "bigint", "bool", "float") else USES_INT[:2])
            if label in ("builtin-fn", "multi-stmt-fn", "lambda-helper", "callable-object", "bound-method", "wraps-decorated"):
                uses = ["lambda e: x(e.a)", "lambda e: e.jets.Select(lambda j: x(j.pt))", "lambda e: x"]
            if label in ("str",):
                uses = USES_ANY + ["lambda e: x + 'a'", "lambda e: x.upper()", "lambda e: e.jets.Select(lambda j: (j.pt, x))"]
            if label in ("int",):
                uses = uses + ["lambda e: x.real + e.a", "lambda e: x.bit_length() + e.a", "lambda e: x.nosuch"]
            if label in ("object",):
                uses = uses + ["lambda e: x.pt + e.a", "lambda e: [j.pt for j in x.jets]"]
            if label in ("tuple", "list"):
                uses = uses + ["lambda e: x[0] + e.a"]
            for u in uses:
                for after in ("x = 'REBOUND'", "del x"):
                    vv = Var(v.name, v.scope, v.src, after, v.helper, v.byname, v.lam_helper, None, v.stays, v.outside)
                    out.append(Case(u.format(X="x") if "{X}" in u else u, [vv], d, {"value:" + label, "after:" + after.split()[0]},
                                    group="value"))
    return out


def shadow_cases():
    out = []
    for d, sc in scopes_for("x", None):
        for s in SHADOW:
            vs = [Var("x", sc, "x = 5", after="del x"), Var("y", sc, "y = 9")]
            out.append(Case(s, vs, d, {"shadow"}, group="shadow"))
    # same name at several levels: the innermost enclosing binding is the one captured
    for lam in ("lambda e: e.a + x", "lambda e: e.jets.Select(lambda j: j.pt + x)", "lambda e: [x.pt for x in e.jets] + [x]"):
        out.append(Case(lam, [Var("x", "g", "x = 1"), Var("x", "l1", "x = 2"), Var("x", "l3", "x = 4")], 3, {"shadow", "FC1"}, group="shadow"))
        out.append(Case(lam, [Var("x", "g", "x = 1"), Var("x", "l2", "x = 3")], 3, {"shadow", "FC1"}, group="shadow"))
        out.append(Case(lam, [Var("x", "l1", "x = 2"), Var("x", "l2", "x = 3")], 2, {"shadow"}, group="shadow"))
    return out


class RandomLambda:
    """Seeded random lambda bodies over the C04 grammar."""

    def __init__(self, rng):
        self.r = rng

    def int_expr(self, bound, depth):
        r = self.r
        names_int = [b for b, t in bound if t == "int"]
        names_rec = [b for b, t in bound if t == "rec"]
        if depth <= 0:
            leaves = ["x", "y", "g", "K.C", "K.In.D", "1"] + names_int + ["%s.%s" % (n, a) for n in names_rec for a in ("a", "pt", "x")]
            return r.choice(leaves)
        c = r.randrange(12)
        if c == 0:
            return r.choice(["x", "y", "K.C", "K.In.D", "1", "g"])
        if c == 1 and names_int:
            return r.choice(names_int)
        if c in (2, 3) and names_rec:
            return "%s.%s" % (r.choice(names_rec), r.choice(["a", "b", "pt", "x"]))
        if c == 4:
            return r.choice(["x", "y", "g", "7"])
        if c in (5, 6):
            return "(%s %s %s)" % (self.int_expr(bound, depth - 1), r.choice("+-*"), self.int_expr(bound, depth - 1))
        if c == 7 and names_rec:
            p = r.choice(["j", "x", "y", "e", "q"])
            return "%s.jets.Select(lambda %s: %s).Count()" % (r.choice(names_rec), p, self.int_expr(bound_with(bound, p, "rec"), depth - 1))
        if c == 8 and names_rec:
            p = r.choice(["j", "x", "y", "q"])
            return "sum([%s for %s in %s.jets])" % (self.int_expr(bound_with(bound, p, "rec"), depth - 1), p, r.choice(names_rec))
        if c == 9:
            p = r.choice(["x", "y", "q"])
            return "(lambda %s: %s)(%s)" % (p, self.int_expr(bound_with(bound, p, "int"), depth - 1), self.int_expr(bound, depth - 1))
        if c == 10 and names_rec:
            p = r.choice(["j", "x", "g"])
            return "sum(%s for %s in %s.jets if %s > %s)" % (
                self.int_expr(bound_with(bound, p, "rec"), depth - 1), p, r.choice(names_rec),
                self.int_expr(bound_with(bound, p, "rec"), depth - 1), self.int_expr(bound_with(bound, p, "rec"), depth - 1))
        return "(%s if %s > %s else %s)" % (self.int_expr(bound, depth - 1), self.int_expr(bound, depth - 1),
                                           self.int_expr(bound, depth - 1), self.int_expr(bound, depth - 1))

    def case(self):
        r = self.r
        depth = r.randrange(1, 4)
        p = r.choice(["e", "e", "e", "x", "y"])
        body = self.int_expr([(p, "rec")], r.randrange(1, 4))
        vs = []
        for n, val in (("x", "5"), ("y", "-2"), ("g", "11")):
            for sc in r.sample(["g", "l1", "l2", "l3"], r.randrange(1, 3)):
                if sc == "g" or int(sc[1]) <= depth:
                    vs.append(Var(n, sc, "%s = %s" % (n, str(int(val) + (0 if sc == "g" else int(sc[1]))))
                                  , after=r.choice(["%s = 'REBOUND'" % n, "del %s" % n, "%s = 0" % n])))
        ksc = r.choice(["g", "l1"])
        vs.append(Var("K", ksc, "class K:\n    C = 50\n    class In:\n        D = 60", after="K.C = 0\nK = None"))
        # every name the body may mention must exist in some scope, otherwise python itself raises NameError
        have = {v.name for v in vs}
        for n, val in (("x", "5"), ("y", "-2"), ("g", "11")):
            if n not in have:
                vs.append(Var(n, "g", "%s = %s" % (n, val)))
        return Case("lambda %s: %s" % (p, body), vs, depth, {"random"}, group="random")


def bound_with(bound, p, t):
    return [(b, ty) for b, ty in bound if b != p] + [(p, t)]


TWICE_BODIES = ["lambda e: e.a + x", "lambda e: e.jets.Where(lambda j: j.pt > x).Count()", "lambda e: [j.pt for j in e.jets if j.pt > x]",
                "lambda e: (lambda q: q + x)(e.a) + g"]


def second_call_cases():
    """The SAME callable object handed to the operator twice, the captured names rebound in between: each call must
    freeze the values of its own moment (module-level defs, local defs over closure cells, stored lambdas, inline)."""
    out = []
    for passed in ("def-local", "def-global", "var-local", "var-global", "inline"):
        for xs in ("g", "l1"):
            if passed.endswith("-global") and xs != "g":
                continue          # a module-level callable sees module globals only
            for mid in ("x = 50", "x = x + 1", "x = [1, 2]", "x = 2.5"):
                for body in TWICE_BODIES:
                    vs = [Var("x", xs, "x = 30", after="x = 'REBOUND'", mid=mid), Var("g", "g", "g = 7", mid="g = 8")]
                    out.append(Case(body, vs, 1, {"second-call", "mid:" + mid}, group="twice", passed=passed, twice=True))
        # class constant / module attribute changed between the calls
        K = Var("K", "g", "class K:\n    C = 5\n    class In:\n        D = 6", after="K = None", mid="K.C = 70\nK.In.D = 80")
        out.append(Case("lambda e: e.a + K.C + K.In.D", [K], 1, {"second-call"}, group="twice", passed=passed, twice=True))
        # a closure variable that starts hiding a global only before the second call cannot be written in python;
        # the converse - both exist, both change
        if not passed.endswith("-global"):
            out.append(Case("lambda e: e.a + x", [Var("x", "g", "x = 1", mid="x = 2"), Var("x", "l1", "x = 10", mid="x = 20")],
                            1, {"second-call", "FC1"}, group="twice", passed=passed, twice=True))
    # once only, through a named callable (the history clause on the first recording, as for inline lambdas)
    for passed in ("def-local", "def-global"):
        for body in TWICE_BODIES[:3]:
            out.append(Case(body, [Var("x", "g", "x = 30"), Var("g", "g", "g = 7")], 1, {"named-callable"}, group="twice", passed=passed))
    # the free variables of a captured helper are captured values too (frozen with the helper's own snapshot, FC5):
    # rebinding them between two calls that use the same helper object must show in the second query
    for passed in ("inline", "def-local"):
        for sc in ("g", "l1"):
            vs = [Var("G", sc, "G = 7", after="G = 'REBOUND'", mid="G = 70"),
                  Var("h", sc, "def h(a):\n    return a + G", "h = 'REBOUND'", helper=(["a"], "a + G"), byname=True)]
            out.append(Case("lambda e: h(e.a) + G", vs, 1, {"second-call", "helper-free-variable"}, group="twice",
                            passed=passed, twice=True))
    return out


# FC7: parameter kinds other than plain positional bind names too (decoded by the model's lam_view)
NONPLAIN = [
    "lambda e: (lambda q, *x: q + len(x))(e.a, 1, 2) + x",
    "lambda e: (lambda *x: x)(e.a, e.b)",
    "lambda e: (lambda q, *, x=1: q + x)(e.a) + x",
    "lambda e: (lambda q, *, x=1: q + x)(e.a, x=y)",
    "lambda e: (lambda q, **x: q + len(x))(e.a, k=1) + x",
    "lambda e: (lambda q, /, x: q + x)(e.a, 1) + x",
    "lambda e: (lambda q, r=2: q + r + x)(e.a)",
    "lambda e: (lambda q, r=y: q + r)(e.a) + x",
    "lambda e: sum(e.jets.Select(lambda j, *x: j.pt + len(x))) + x",
    "lambda e: sum(e.jets.Select(lambda j, x=3: j.pt + x)) + x",
    "lambda e: [(lambda *x: len(x))(j.pt, y) for j in e.jets]",
    # FC8: default expressions belong to the enclosing scope, also when the parameter has the captured name
    "lambda e: (lambda q, x=x: q + x)(e.a)",
    "lambda e: (lambda q, *, x=x + y: q + x)(e.a) + x",
    "lambda e: sum(e.jets.Select(lambda j, x=x: j.pt + x))",
]


# F30: starred arguments next to captured variables (e.xs, e.rest hold one element, e.two two)
STARRED = [
    "lambda e: (lambda a: a + x)(*e.xs)",
    "lambda e: (lambda a, b: a + b + x)(e.a, *e.rest)",
    "lambda e: (lambda a, b: a + b + x)(*e.two)",
    "lambda e: max(*e.two) + x",
    "lambda e: max(*[x, e.a])",
    "lambda e: (lambda a, b: a - b)(*[x, y])",
    "lambda e: (lambda x: x + y)(*e.xs) + x",
    "lambda e: (lambda q, r=x: q + r)(*e.xs)",
    "lambda e: (lambda q, x=x: q + x)(*e.xs)",
    "lambda e: (lambda q, x=x: q + x)(e.a, *e.rest) + x",
    "lambda e: (lambda *x: len(x))(*e.two) + x",
    "lambda e: sum(e.jets.Select(lambda j: (lambda a, b, c: a + b + c + x)(*j.sub)))",
    "lambda e: [*e.two, x]",
]
# F31 / FC5 / FC8: a helper that returns (or keeps) a lambda whose default values mention the helper's parameter AND a
# variable captured in the helper's own closure; the query's argument mentions the query's parameter
DEFAULT_HELPERS = [
    ("mk", ["k"], "lambda j, k=k, x=x: j + k + x"),
    ("mks", ["k"], "lambda j, *, s=k + x: j * s"),
    ("mkx", ["x"], "lambda j, x=x: j + x + y"),
    ("hsel", ["s", "k"], "sum(s.Select(lambda j, k=k + x: j.pt + k))"),
]
DEFAULT_USES = [
    ("mk", "lambda e: mk(e.off)"), ("mk", "lambda e: mk(e.off)(1)"), ("mk", "lambda e: mk(e.off)(1, k=x)"),
    ("mk", "lambda e: e.jets.Select(lambda j: mk(j.pt))"), ("mk", "lambda x: mk(x.off)"),
    ("mks", "lambda e: mks(e.off)"), ("mks", "lambda e: mks(e.off)(2)"), ("mks", "lambda e: mks(x)(e.a, s=e.off)"),
    ("mkx", "lambda e: mkx(e.off)"), ("mkx", "lambda e: mkx(e.off)(x)"), ("mkx", "lambda e: mkx(x)(e.off)"),
    ("hsel", "lambda e: hsel(e.jets, e.off)"), ("hsel", "lambda e: hsel(e.jets, x)"),
    (None, "lambda e: (lambda k: lambda j, k=k, x=x: j + k + x)(e.off)"),
    (None, "lambda e: (lambda k: lambda j, *, x=x + k: j + x)(e.off)(y)"),
]


# F42: a name bound by an assignment expression is local to the lambda it occurs in - never a capture - although a global /
# closure variable of that name exists (x = 5, y = 9); the same name outside that lambda is the captured variable
WALRUS = [
    "lambda e: (x := e.a) + x",
    "lambda e: (x := e.a) + x + y",
    "lambda e: (y := x + e.a) * y",
    "lambda e: [y := e.a, y + x][1]",
    "lambda e: [(x := j.pt) + x for j in e.jets]",
    "lambda e: [(x := j.pt) + x for j in e.jets] + [x]",
    "lambda e: sum((x := s) * x for j in e.jets for s in j.sub)",
    "lambda e: e.jets.Select(lambda j: (x := j.pt) + x).Count() + x",
    "lambda e: sum(e.jets.Select(lambda j: (y := j.pt) * y)) + y",
    "lambda e: (lambda q: (x := q) + x)(e.a) + x",
    "lambda e: (lambda q: (x := q) + x)(e.a) + (lambda q: q + x)(e.b)",
    "lambda e: (lambda q, r=(x := e.a): q + r + x)(1)",
    "lambda e: (lambda q, *, r=(x := e.a + y): q + r)(1) + x",
    "lambda e: e.a if (x := e.b) > 0 else x",
    "lambda e: x + (x := e.a)",
    "lambda x: (y := x.a) + y",
]


def nonplain_cases():
    out = []
    for d, sc in ((1, "g"), (1, "l1"), (2, "l1"), (3, "l2")):
        for s in WALRUS:
            out.append(Case(s, [Var("x", sc, "x = 5", after="del x"), Var("y", sc, "y = 9", after="y = 'REBOUND'")], d,
                            {"F42", "assignment-expression"}, group="nonplain"))
    for d, sc in ((1, "g"), (1, "l1"), (2, "l1")):
        for s in NONPLAIN:
            out.append(Case(s, [Var("x", sc, "x = 5", after="del x"), Var("y", sc, "y = 9")], d, {"FC7", "non-plain"}, group="nonplain"))
        for s in STARRED:
            out.append(Case(s, [Var("x", sc, "x = 5", after="del x"), Var("y", sc, "y = 9")], d, {"F30", "starred"}, group="nonplain"))
        for h, s in DEFAULT_USES:
            vs = [Var("x", sc, "x = 5", after="x = 'REBOUND'"), Var("y", sc, "y = 9", after="del y")]
            for (name, params, body) in DEFAULT_HELPERS:
                if name == h:
                    # the helper lives in the same scope as the variables it captures (FC5: frozen with its own snapshot)
                    vs.append(Var(name, sc, "def %s(%s):\n    return %s" % (name, ", ".join(params), body), "%s = 'REBOUND'" % name,
                                  helper=(params, body), byname=True))
            out.append(Case(s, vs, d, {"F31", "defaults-of-staying-lambda"}, group="nonplain"))
    return out


def all_cases(ctx):
    cs = corpus() + shadow_cases() + second_call_cases() + nonplain_cases() + class_cases() + value_cases()
    rl = RandomLambda(ctx.rng)
    for _ in range(ctx.budget(400, 6000)):
        cs.append(rl.case())
    cap = ctx.budget(2600, 40000)
    if len(cs) > cap:
        head = [c for c in cs if c.group in ("corpus", "shadow", "twice", "nonplain")]
        rest = [c for c in cs if c.group not in ("corpus", "shadow", "twice", "nonplain")]
        ctx.notes.append("%d generated programs; corpus, shadow, second-call and non-plain patterns all kept, seeded sample of the rest to %d" % (len(cs), cap))
        cs = head + ctx.rng.sample(rest, max(0, cap - len(head)))
    else:
        ctx.notes.append("all %d generated programs run" % len(cs))
    return cs


def run(ctx):
    cs = all_cases(ctx)
    cc.run_cases(ctx, ID, cs)
    for c in cs[:4] + cs[40:44]:
        ctx.sample({"lambda": c.lam, "vars": [(v.name, v.scope, v.src) for v in c.vars], "depth": c.depth})


def replay(ctx, w):
    cc.replay_case(ctx, ID, w)

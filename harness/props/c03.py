"""C03 - source recovery returns the lambda that was actually passed."""
from __future__ import annotations

import atexit
import os
import random
import re
import shutil
from typing import Any, Dict, List, Optional, Tuple

import core
import finder_common as fc

ID = "C03"
TAG = "finder"
EXTRACT = "FA/Extract/ExtractFinder.v"
DRIVER = "driver_finder.ml"
COQ_FILES = ["FA/Proofs/LambdaFinderProofs.v", "FA/Proofs/LambdaFinderLayouts.v", "FA/Proofs/LambdaFinderWitness.v", "FA/Properties/C03.v"]

LEVEL = ("Coq theorems over a token-level executable model of util_ast's source recovery (find_identifier, tokens_till, "
         "_get_lambda_in_stream, the backing-up loop, grouping by the preceding NAME, caller/argument filters, multiplicity "
         "errors, def branch) with the fixes F15/F15b/F28.  Safety: finder_never_picks_neighbour (whatever is returned is the "
         "passed lambda, for every token stream in which the passed lambda is not written inside another lambda), "
         "lambda_never_def, def_never_lambda, def_exact / def_found_only_own_return (a function's outcome depends only on its "
         "own source), finder_raises_when_ambiguous, finder_total.  Liveness: finder_layout_outcome (outcome on every "
         "call-segment stream = the three filters over its segments) with corollaries finder_supported_layouts_partial, "
         "finder_ambiguous_layout_raises (exactly 'multiple'), finder_uncalled_raises (a lambda that is not the first "
         "argument raises), keyword_lambda_filed_under_method / keyword_lambda_recovered (a lambda passed by keyword is filed "
         "under the called method and recovered), def_supported; nested_brackets_balanced + finder_recognised_layouts (a syntactic recogniser - "
         "token classes and real bracket nesting - implies the liveness hypotheses).  The pinned commit's selection is kept "
         "and refuted in Coq (F15, F15b), and so is the selection before d451731 (F28).  PARTIAL: CPython's tokenizer (per start row), untokenize+ast.parse of an extent, "
         "inspect.findsource/getsource and co_firstlineno are inputs of the model; that a source text of a given shape "
         "tokenizes to a recognised stream is checked by evaluation on every generated case (recogniser cut at the lambda "
         "extents CPython's own parser reports), not proved.")
TRUSTED = ["Coq 8.16.1 kernel (coqc); no axioms (Print Assumptions: closed under the global context)",
           "extraction: ExtrOcamlBasic + ExtrOcamlNativeString; ocaml/driver_finder.ml token codec",
           "harness/props/finder_common.py: layout generator, CPython-side inputs of the model (tokenize streams, "
           "untokenize+ast.parse of extents, inspect.findsource/getsource), marker bookkeeping",
           "CPython 3.12 tokenize / inspect / ast (represented by parameters of the model)"]
ASSUME = ["token streams, rows and the parse of an extent are what CPython yields (parameters of the model; rows_ok is "
          "re-checked on every stream of every run)",
          "the passed lambda is not itself written inside the argument extent of another lambda of the scanned region "
          "(func_adl never executes lambda bodies, so a nested lambda is never the callable that is passed)"]
RULE = ("generated source files from a layout grammar (single-line chains, black-style one call per line, wrapped "
        "arguments, inline-then-wrapped, random legal line breaks, backslash continuations, multi-line bodies, comments and "
        "strings/f-strings with brackets and the word lambda, nested lambdas with equal or different names, enclosing "
        "identifiers that are substrings/superstrings of `lambda`/`def` as dataset variables, helpers, hops, attributes and "
        "parameters, several calls inside an enclosing call/tuple/list/dict, def/method/nested def/class body/if/for/try/with/comprehension/conditional expression/decorator/default argument, "
        "one- and two-line defs, lambdas inside one-line defs, assigned/listed/second-argument lambdas, lambdas passed by "
        "keyword (f= / filter= / func=, alone, on their own line, chained with positional ones with equal and different "
        "method/parameter names, keyword names equal to method names)), each run "
        "with a recording fake stream and with the real ObjectStream on an untyped dataset; a case is one callable passed "
        "to Select/Where/SelectMany; non-trivial = the scanned region holds at least two lambdas or spans several rows; "
        "distinct by (source text, marker)")

WORK = os.path.join(core.WORK, "finder-%d" % os.getpid())

# ------------------------------------------------------------------------------------------ corpus
# «m» marks the keyword of the lambda/def with marker m.  (marker, kind, op, args, passed, supported)
CORPUS = [
    ("F28 witness: a lambda passed by keyword, alone on its line, is a candidate for the called method",
     "r = ds.Select(f=«2200»lambda e: e.b + 2200)\n",
     [(2200, "lambda", "Select", ["e"], True, True)]),
    ("F28 witness: the keyword lambda of the second call must not be recorded as the first call's lambda",
     "r = ds.Select(«2210»lambda e: e.a + 2210).Select(f=«2211»lambda e: e.b * 2 + 2211)\n",
     [(2210, "lambda", "Select", ["e"], True, False), (2211, "lambda", "Select", ["e"], True, False)]),
    ("F28: keyword and positional lambdas on a line told apart by parameter name / by method name (real parameter names)",
     "r = ds.Select(«2220»lambda e: e.v + 2220).Select(f=«2221»lambda j: j.v * 2 + 2221)\n"
     "r = ds.Where(filter=«2222»lambda e: e.v + 2222 != 7).Select(«2223»lambda e: e.v + 2223).SelectMany(func=«2224»lambda e: e.v + 2224)\n"
     "r = ds.Select(f=«2225»lambda e: e.v + 2225).Where(«2226»lambda e: e.v + 2226 != 7)\n",
     [(2220, "lambda", "Select", ["e"], True, True), (2221, "lambda", "Select", ["j"], True, True),
      (2222, "lambda", "Where", ["e"], True, True), (2223, "lambda", "Select", ["e"], True, True),
      (2224, "lambda", "SelectMany", ["e"], True, True),
      (2225, "lambda", "Select", ["e"], True, True), (2226, "lambda", "Where", ["e"], True, True)]),
    ("F28: keyword lambda on its own line below the call (black output), spaces around `=`, two keyword calls wrapped",
     "r = ds.Select(\n    f=«2230»lambda e: e.v + 2230\n)\n"
     "r = ds.Where(filter = «2231»lambda e: e.v + 2231 != 7)\n"
     "r = ds.Select(f=«2232»lambda e: e.v + 2232).Select(\n    f=«2233»lambda e: e.v + 2233\n)\n",
     [(2230, "lambda", "Select", ["e"], True, True), (2231, "lambda", "Where", ["e"], True, True),
      (2232, "lambda", "Select", ["e"], True, True), (2233, "lambda", "Select", ["e"], True, True)]),
    ("F28: keyword names that coincide with method names (the recording stream accepts any keyword): the lambda "
     "belongs to the called method, not to the method its keyword is named after",
     "r = ds.Where(Select=«2240»lambda e: e.v + 2240 != 7).Select(f=«2241»lambda e: e.v + 2241)\n"
     "r = ds.Select(«2242»lambda e: e.v + 2242).Where(Select=«2243»lambda e: e.v + 2243 != 7)\n"
     "r = ds.Select(Where=«2244»lambda e: e.v + 2244).Where(Select=«2245»lambda j: j.v + 2245 != 7)\n",
     [(2240, "lambda", "Where", ["e"], True, True), (2241, "lambda", "Select", ["e"], True, True),
      (2242, "lambda", "Select", ["e"], True, True), (2243, "lambda", "Where", ["e"], True, True),
      (2244, "lambda", "Select", ["e"], True, True), (2245, "lambda", "Where", ["j"], True, True)]),
    ("F15 witness: third lambda starts a line reached by backing up; the first must not be recorded for it",
     "r = ds.Select(«2001»lambda j: j.jets.Select(\n    «2002»lambda j: j.v + 2002) + (2001,)).Select(«2003»lambda j: j.v + 2003)\n",
     [(2001, "lambda", "Select", ["j"], True, False), (2002, "lambda", "Select", ["j"], False, False),
      (2003, "lambda", "Select", ["j"], True, False)]),
    ("F15b witness: a lambda inside a one-line def must not be recorded as that def",
     "«2010»def get(d): return d.Select(«2011»lambda e: e.v + 2011)\nr = get(ds)\n",
     [(2010, "def", None, [], False, False), (2011, "lambda", "Select", ["e"], True, False)]),
    ("F15b: a def under a decorator that takes a lambda with the same parameter name",
     "def deco(f): return lambda g: g\n@deco(«2020»lambda e: e.v + 2020)\n«2021»def fn(e): return e.v + 2021\nr = ds.Select(fn)\n",
     [(2020, "lambda", "Select", ["e"], False, False), (2021, "def", "Select", ["e"], True, False)]),
    ("black chain (README style)",
     "r = (\n    ds.Select(«2030»lambda e: e.v + 2030)\n    .Where(«2031»lambda e: e.v + 2031 != 7)\n    .Select(«2032»lambda e: e.v + 2032)\n)\n",
     [(2030, "lambda", "Select", ["e"], True, True), (2031, "lambda", "Where", ["e"], True, True),
      (2032, "lambda", "Select", ["e"], True, True)]),
    ("two same-signature Selects, the second wrapped (black output for a long line)",
     "r = ds.Select(«2040»lambda e: e.v + 2040).Select(\n    «2041»lambda e: e.v + 2041\n)\n",
     [(2040, "lambda", "Select", ["e"], True, True), (2041, "lambda", "Select", ["e"], True, True)]),
    ("same line told apart by method name / by argument name",
     "r = ds.Select(«2050»lambda e: e.v + 2050).Where(«2051»lambda e: e.v + 2051 != 7).Select(«2052»lambda f: f.v + 2052)\n",
     [(2050, "lambda", "Select", ["e"], True, True), (2051, "lambda", "Where", ["e"], True, True),
      (2052, "lambda", "Select", ["f"], True, True)]),
    ("same everything on a line: must raise",
     "r = ds.Select(«2060»lambda e: e.v + 2060).Select(«2061»lambda e: e.v + 2061)\n",
     [(2060, "lambda", "Select", ["e"], True, False), (2061, "lambda", "Select", ["e"], True, False)]),
    ("comment and string with brackets and the word lambda; multi-line body",
     "r = ds.Select(«2070»lambda e: \"lambda e: e.zz, )\" + str(e.v  # comment with ) and , lambda e: e.bad\n                     + 2070))\n",
     [(2070, "lambda", "Select", ["e"], True, True)]),
    ("funny split (issue 84)",
     "r = ds.Select(«2080»lambda event: event.v + 2080\n              ).Select(«2081»lambda event: event.v + 2081)\n",
     [(2080, "lambda", "Select", ["event"], True, True), (2081, "lambda", "Select", ["event"], True, True)]),
    ("each lambda on its own line, breaks after the opening parenthesis",
     "r = ds.Select(\n    «2090»lambda e: e.v + 2090).Select(\n    «2091»lambda e: e.v + 2091)\n",
     [(2090, "lambda", "Select", ["e"], True, True), (2091, "lambda", "Select", ["e"], True, True)]),
    ("F40 witness: a def nested in a function whose body holds a multi-line string (continuation lines are part of the string)",
     "def outer_2110():\n    «2110»def ms(e): return e.v + 2110 + len(\"\"\"\n    abcdefgh\n  ij\"\"\")\n    «2111»def ms2(e):\n"
     "        return e.v + 2111 + len(\"\"\"\nabcdefgh\"\"\")\n    return ds.Select(ms).Select(ms2)\nr = outer_2110()\n",
     [(2110, "def", "Select", ["e"], True, True), (2111, "def", "Select", ["e"], True, True)]),
    ("F51 witness: a bracketed continuation line left of the def (a def under `if` in a function)",
     "def outer_2112():\n    if ds is not None:\n        «2112»def g(e): return (e.v *\n    1+2112)\n        return ds.Select(g)\nr = outer_2112()\n",
     [(2112, "def", "Select", ["e"], True, True)]),
    ("F53 witness: a function under a functools.wraps decorator that doubles the result: must raise, not record the undecorated body",
     "@twice\n«2113»def dbl(e): return e.v + 2113\nr = ds.Select(dbl)\n",
     [(2113, "def", "Select", ["e"], True, False)]),
    ("one-line def, two-line def",
     "«2100»def one(e): return e.v + 2100\n«2101»def two(e):\n    return e.v + 2101\nr = ds.Select(one).Select(two)\n",
     [(2100, "def", "Select", ["e"], True, True), (2101, "def", "Select", ["e"], True, True)]),
    ("two calls inside an enclosing call, dataset variable named `d` (a substring of `lambda`), same signature: must raise",
     "r = compare(ds.Select(«2120»lambda e: e.v + 2120), d.Select(«2121»lambda e: e.v * 2 + 2121))\n",
     [(2120, "lambda", "Select", ["e"], True, False), (2121, "lambda", "Select", ["e"], True, False)]),
    ("two calls inside an enclosing call on short-named datasets, told apart by parameter name / by method name",
     "r = compare(ds.Select(«2130»lambda e: e.v + 2130), d.Select(«2131»lambda j: j.v * 2 + 2131))\n"
     "r = lam(a.Select(«2132»lambda e: e.v + 2132), b.Where(«2133»lambda e: e.v + 2133 != 7), am.m.SelectMany(«2134»lambda e: e.v + 2134))\n",
     [(2130, "lambda", "Select", ["e"], True, True), (2131, "lambda", "Select", ["j"], True, True),
      (2132, "lambda", "Select", ["e"], True, True), (2133, "lambda", "Where", ["e"], True, True),
      (2134, "lambda", "SelectMany", ["e"], True, True)]),
    ("short names (substrings of the keywords) as parameter, attribute and hop names in a chain",
     "r = l.Select(«2140»lambda a: a.lam + 2140).da.Where(«2141»lambda d: d.de + 2141 != 7).m.Select(«2142»lambda lam: lam.a + 2142)\n",
     [(2140, "lambda", "Select", ["a"], True, True), (2141, "lambda", "Where", ["d"], True, True),
      (2142, "lambda", "Select", ["lam"], True, True)]),
    ("nested lambdas wrapped by black, only the outer one is passed",
     "r = ds.Select(\n    «2110»lambda e: e.jets.Select(\n        «2111»lambda j: j.jets.Select(\n            «2112»lambda j1: j1.v + 2112\n        ) + (2111,)\n    ) + (2110,)\n)\n",
     [(2110, "lambda", "Select", ["e"], True, True), (2111, "lambda", "Select", ["j"], False, False),
      (2112, "lambda", "Select", ["j1"], False, False)]),
]


# Open known findings (KNOWN_FINDINGS.txt `open:` lines; run first).  The passed lambda is not written directly as the
# operator's argument (second branch of a conditional expression, argument of a pass-through helper), so find_identifier
# files it under another NAME (`else`, `keep`); a neighbouring lambda of the same logical line that IS filed under the
# method name and has the same parameter names is then the only candidate, and it is recorded without raising.
# (what, text, spec, marker of the passed callable whose mis-recovery is the finding)
KNOWN_OPEN = [
    ("open W1: conditional expression as the argument, the second branch is passed, same parameter names",
     "flag = False\nr = ds.Select((«2301»lambda x: x.v + 2301) if flag else («2302»lambda x: x.v + 2302))\n",
     [(2301, "lambda", "Select", ["x"], False, False), (2302, "lambda", "Select", ["x"], True, False)], 2302),
    ("open W2: lambda wrapped in a pass-through helper next to a same-signature call on the line",
     "def keep(f): return f\nr = ds.Select(«2311»lambda x: x.v + 2311).Select(keep(«2312»lambda x: x.v * 10 + 2312))\n",
     [(2311, "lambda", "Select", ["x"], True, False), (2312, "lambda", "Select", ["x"], True, False)], 2312),
]


def open_key(text: str, marker: int, op: str) -> str:
    """stable key of an open finding: digest of the witness statement itself (independent of the prelude)"""
    return core.digest({"p": ID, "open": text, "marker": marker, "op": op})


def tagged_files(entries):
    out = []
    for what, text, spec in entries:
        cases = {m: fc.Case(m, k, op, args, passed, sup, "corpus") for m, k, op, args, passed, sup in spec}
        import re
        tagged = re.sub("«(\\d+)»", lambda mo: fc.TAG_A + mo.group(1) + fc.TAG_B, text)
        src = fc.strip_tags(fc.PRELUDE + tagged, cases)
        out.append((src, cases, what))
    return out


def corpus_files():
    return tagged_files(CORPUS)


# ------------------------------------------------------------------------------------------ one file -> items

class Item:
    def __init__(self, path, src, cases, mode, op, f, real_outcome=None):
        self.path, self.src, self.cases, self.mode, self.op, self.f = path, src, cases, mode, op, f
        self.real_outcome = real_outcome
        self.truth = fc.primary(fc.code_markers(f), cases)
        self.case: Optional[fc.Case] = cases.get(self.truth) if self.truth is not None else None
        self.probe: Optional[fc.Probe] = None
        self.okey: Optional[str] = None        # key of the open known finding this item is the witness of

    def witness(self):
        return {"source": self.src, "marker": self.truth, "op": self.op, "mode": self.mode,
                "cases": {str(m): [c.kind, c.op, c.args, c.passed, c.supported, c.family, list(c.pos or ())]
                          for m, c in self.cases.items()}}

    def key(self):
        if self.okey is not None:
            return self.okey
        return core.digest({"p": ID, "source": self.src, "marker": self.truth, "op": self.op})


_counter = [0]


_recycle = [None]       # when set to [k]: files are written to the paths r0.py, r1.py, ... again (see run)


def items_of(src: str, cases, modes=("fake", "real")) -> List[Item]:
    os.makedirs(WORK, exist_ok=True)
    _counter[0] += 1
    path = os.path.join(WORK, "m%d.py" % _counter[0])
    if _recycle[0] is not None:
        path = os.path.join(WORK, "r%d.py" % _recycle[0][0])
        _recycle[0][0] += 1
    with open(path, "w") as fh:
        fh.write(src)
    out = []
    for mode in modes:
        log: List[Any] = []
        ds = fc.Fake(log) if mode == "fake" else fc.RealProbe(fc.real_dataset(), log)
        fc.load_module(path, "c03gen_%d_%s" % (_counter[0], mode), ds)
        for ent in log:
            if not callable(ent[1]) or not hasattr(ent[1], "__code__"):
                continue
            out.append(Item(path, src, cases, mode, ent[0], ent[1], ent[2:] if mode == "real" else None))
    return out


# ------------------------------------------------------------------------------------------ model side

def model_answers(ctx, items: List[Item]):
    """returns for each item (outcome string, hyps bits or None, k0 or None, stream index or None)"""
    live = []
    for it in items:
        it.probe = fc.Probe(it.path, it.op, it.f)
        if it.probe.ok:
            live.append(it)
    # phase A: which extents does the scan hand to CPython's parser
    pending = list(live)
    cand: Dict[int, Tuple[str, int, List[Tuple[int, int, int]]]] = {}
    for rnd in range(3):
        if not pending:
            break
        ans = ctx.driver.call("cands", [["1", "1" if it.probe.is_lam else "0", it.probe.enc_streams()] for it in pending])
        nxt = []
        for it, a in zip(pending, ans):
            parts = a.split(" ")
            if parts[0] == "need" and rnd < 2:
                n_before = len(it.probe.streams)
                it.probe.more(8 if rnd == 0 else 10000)
                if len(it.probe.streams) > n_before:
                    nxt.append(it)
                    continue
            if parts[0] in ("FAIL", "BADCMD"):
                raise core.MachineryError("driver: " + a[:200])
            ext = [tuple(int(x) for x in e.split(".")) for e in parts[2].split(";")] if len(parts) > 2 and parts[2] else []
            cand[id(it)] = (parts[0], int(parts[1]), ext)
        pending = nxt
    # phase B: position of the passed lambda in the selected stream, end of its extent
    stops_req = []
    for it in live:
        tag, s, ext = cand[id(it)]
        it.k0 = None
        it.s = s if tag != "need" and s < len(it.probe.streams) else None
        if it.s is not None and it.case is not None and it.case.kind == "lambda" and it.case.pos:
            it.k0 = it.probe.streams[it.s].index_of(*it.case.pos)
            if it.k0 is not None:
                stops_req.append(it)
    stops = ctx.driver.call("stop", [[it.probe.streams[it.s].enc, str(it.k0)] for it in stops_req])
    for it, st in zip(stops_req, stops):
        it.k0_stop = int(st)
    # phase C: CPython's parse of every such extent, then the model
    rows, hrows, hitems = [], [], []
    for it in live:
        tag, s, ext = cand[id(it)]
        ent = []
        seen = set()
        for si, a, b in ext:
            if (si, a, b) not in seen and si < len(it.probe.streams):
                seen.add((si, a, b))
                ent.append("%d.%d.%d.%s" % (si, a, b, it.probe.streams[si].parse_extent(a, b)))
        if it.k0 is not None and (it.s, it.k0, it.k0_stop) not in seen:
            ent.append("%d.%d.%d.%s" % (it.s, it.k0, it.k0_stop, it.probe.streams[it.s].parse_extent(it.k0, it.k0_stop)))
        it.ptab = ";".join(ent)
        rows.append(["1", "1", it.probe.enc_streams(), str(it.probe.l0 + 1), "1" if it.probe.is_lam else "0", it.probe.dsrc,
                     fc.hx(it.op), ",".join(fc.hx(a) for a in it.probe.args), it.ptab])
        if it.k0 is not None:
            own = ";".join("0." + e.split(".", 1)[1] for e in ent if e.startswith("%d." % it.s))
            hrows.append([it.probe.streams[it.s].enc, str(it.k0), str(it.probe.l0 + 1), fc.hx(it.op),
                          ",".join(fc.hx(a) for a in it.probe.args), own])
            hitems.append(it)
    ans = ctx.driver.call("find", rows)
    for it, a in zip(live, ans):
        it.model = a
        it.layout = None
    # does the supported-layout theorem apply (segment decomposition at the scan's candidates)?
    lrows, litems = [], []
    for it in live:
        tag, s, ext = cand[id(it)]
        if tag == "done" and it.k0 is not None and it.probe.is_lam:
            cl = []
            for si, a, b in ext:
                if si == s and (a, b) not in cl:
                    cl.append((a, b))
            if any(a == it.k0 for a, _ in cl):
                lrows.append([it.probe.enc_streams(), str(s), ";".join("%d.%d" % ab for ab in cl), str(it.k0),
                              str(it.probe.l0 + 1), fc.hx(it.op), ",".join(fc.hx(a) for a in it.probe.args), it.ptab])
                litems.append(it)
    for it, a in zip(litems, ctx.driver.call("layout", lrows)):
        if a.startswith("FAIL") or a.startswith("BADCMD"):
            raise core.MachineryError("driver layout: " + a[:200])
        it.layout = a
    # the syntactic recogniser, cut at the lambda extents CPython's own parser reports (ast end positions)
    rrows, ritems = [], []
    for it in live:
        it.layout_ast = None
        if it.s is None or it.k0 is None or not it.probe.is_lam:
            continue
        st = it.probe.streams[it.s]
        cl = fc.ast_chain(st, fc.ast_lambda_ends(it.path, it.probe.lines))
        if not cl or not any(a == it.k0 for a, _ in cl):
            continue
        have = set(e.rsplit(".", 1)[0] for e in it.ptab.split(";") if e)
        extra = ["%d.%d.%d.%s" % (it.s, a, b, st.parse_extent(a, b)) for a, b in cl if "%d.%d.%d" % (it.s, a, b) not in have]
        rrows.append([it.probe.enc_streams(), str(it.s), ";".join("%d.%d" % ab for ab in cl), str(it.k0),
                      str(it.probe.l0 + 1), fc.hx(it.op), ",".join(fc.hx(a) for a in it.probe.args),
                      ";".join([e for e in [it.ptab] + extra if e])])
        ritems.append(it)
    for it, a in zip(ritems, ctx.driver.call("layout", rrows)):
        if a.startswith("FAIL") or a.startswith("BADCMD"):
            raise core.MachineryError("driver layout(ast): " + a[:200])
        it.layout_ast = a
    # the def branch: does def_supported apply
    drows, ditems = [], []
    for it in live:
        it.deflayout = None
        if not it.probe.is_lam and it.probe.streams:
            drows.append([it.probe.streams[0].enc, it.probe.dsrc])
            ditems.append(it)
    for it, a in zip(ditems, ctx.driver.call("deflayout", drows)):
        if a.startswith("FAIL") or a.startswith("BADCMD"):
            raise core.MachineryError("driver deflayout: " + a[:200])
        it.deflayout = a
    hans = ctx.driver.call("hyps", hrows)
    for it in live:
        it.hyps = None
    for it, a in zip(hitems, hans):
        it.hyps = a
    for it in items:
        if not it.probe.ok:
            it.model = "Unprobed " + it.probe.why
            it.hyps = None
            it.k0 = None
            it.s = None


def canon_model(it: Item):
    a = it.model.split(" ")
    if a[0] == "Found":
        return ("ok", it.probe.streams[int(a[1])].pos_of(int(a[2])))
    if a[0] == "FoundDef":
        return ("ok", it.case.pos if it.case is not None else None)
    if a[0] == "Err":
        return ("exc", "ValueError")
    if a[0] == "Crash":
        return ("exc", a[1])
    return ("unresolved", it.model)


def canon_impl(it: Item, res):
    st, val = res
    if st == "ok":
        m = fc.primary(fc.ast_markers(val), it.cases)
        return ("ok", it.cases[m].pos if m is not None else None)
    return ("exc", val)


# ------------------------------------------------------------------------------------------ judging

def judge(ctx, it: Item):
    ctx.evaluations += 1
    fam = it.case.family if it.case else "untagged"
    ctx.count("family", fam)
    ctx.count("mode", it.mode)
    if it.case is not None and it.case.kind == "lambda" and it.case.pos:
        row, col = it.case.pos
        before = it.src.split("\n")[row - 1][:col]
        by_kw = re.search(r"[(,]\s*[A-Za-z_]\w*\s*=\s*$", before) is not None
        ctx.count("passed lambda written as", "keyword argument `name=lambda`" if by_kw else "other")
    full = fc.impl_parse(it.f, it.op)
    sel = fc.impl_source_only(it.f, it.op) or full
    ci = canon_impl(it, sel)
    ctx.count("impl_result", "ok" if full[0] == "ok" else full[1])
    truth_pos = it.case.pos if it.case else None
    # ---- oracle on the implementation (independent of the model)
    oracle_ok = True
    if full[0] == "ok":
        got = fc.primary(fc.ast_markers(full[1]), it.cases)
        same, why = fc.behaves_like(it.f, full[1])
        if got != it.truth or not same:
            oracle_ok = False
            ctx.count("oracle failures", "a different lambda was recorded without raising (parse_as_ast)")
            ctx.fail("failing-input",
                     "parse_as_ast(<callable with marker %s>, %r) recorded the lambda with marker %s without raising%s; source:\n%s"
                     % (it.truth, it.op, got, "" if same else " (" + why + ")", it.src),
                     it.witness(), key=it.key())
    elif it.case is not None and it.case.supported:
        oracle_ok = False
        ctx.count("oracle failures", "documented layout raises")
        ctx.fail("failing-input",
                 "documented layout (%s) not recovered: parse_as_ast(<marker %s>, %r) raises %s; source:\n%s"
                 % (fam, it.truth, it.op, full[1], it.src), it.witness(), key=it.key())
    if it.mode == "real" and it.real_outcome is not None and it.real_outcome[0] == "ok":
        got = fc.primary(fc.ast_markers(it.real_outcome[1]), it.cases)
        if got != it.truth:
            oracle_ok = False
            ctx.count("oracle failures", "a different lambda was recorded in query_ast (ObjectStream)")
            ctx.fail("failing-input",
                     "ObjectStream.%s(<callable with marker %s>) recorded the lambda with marker %s in query_ast; source:\n%s"
                     % (it.op, it.truth, got, it.src), it.witness(), key=it.key())
    if it.mode == "real" and it.real_outcome is not None:
        ctx.count("real_stream", "ok" if it.real_outcome[0] == "ok" else it.real_outcome[1])
    # ---- correspondence model <-> implementation
    if not it.probe.ok:
        ctx.count("model", "unprobed")
        return
    cm = canon_model(it)
    ctx.count("model", it.model.split(" ")[0] + ("" if it.model.split(" ")[0] not in ("Err", "Crash") else " " + it.model.split(" ")[1]))
    if cm[0] == "unresolved":
        ctx.count("model", "unresolved")
        return
    ctx.corr_cases += 1
    if len(it.probe.streams) and it.s is not None:
        nl = sum(1 for r in it.probe.streams[it.s].rows if r[1] == "n" and r[2] == "lambda")
        if nl >= 2 or it.s > 0:
            ctx.distinct.add((it.src, it.truth))
    if cm != ci:
        ctx.corr_disagreements += 1
        if oracle_ok:
            ctx.fail("no-failing-input-found",
                     "correspondence find (Model/LambdaFinder.v) vs _parse_source_for_lambda broke: model %s = %s, code %s "
                     "(callable marker %s at %s, caller %s); source:\n%s" % (it.model, cm, ci, it.truth, truth_pos, it.op, it.src),
                     dict(it.witness(), correspondence="find", model=it.model, impl=repr(ci)))
    # ---- the supported-layout theorem on this case
    lay = getattr(it, "layout", None)
    if it.case is not None and it.case.kind == "lambda":
        bits = lay.split(" ")[0][:3] if lay else "none"
        ctx.count("supported-layout theorem applies (decomposition/backs up/supported_layoutb)" +
                  (" [documented]" if it.case.supported else " [other]"), bits)
        la = getattr(it, "layout_ast", None)
        abits = la.split(" ")[0] if la else "none"
        ctx.count("recogniser at CPython-ast extents (decomposition/backs up/supported_layoutb/recognisedb)" +
                  (" [documented]" if it.case.supported else " [other]"), abits)
        if it.case.supported and abits != "1111":
            ctx.count("documented label not recognised", it.case.family)
        if la and abits[:2] == "11" and abits[3] == "1":
            pred = int(la.split(" ")[1])
            if it.model != "Found %d %d" % (it.s, pred) or pred != it.k0:
                ctx.fail("no-failing-input-found",
                         "theorem finder_recognised_layouts contradicted by the extracted model (%s, predicted %d) on:\n%s"
                         % (it.model, pred, it.src), dict(it.witness(), correspondence="recogniser-theorem"))
        if lay and bits == "111":
            pred = int(lay.split(" ")[1])
            if it.model != "Found %d %d" % (it.s, pred) or pred != it.k0:
                ctx.fail("no-failing-input-found",
                         "theorem finder_supported_layouts_partial contradicted by the extracted model (%s, predicted %d) on:\n%s"
                         % (it.model, pred, it.src), dict(it.witness(), correspondence="liveness-theorem"))
    if it.case is not None and it.case.kind == "def" and getattr(it, "deflayout", None) is not None:
        ctx.count("def_supported applies (def_layoutb)" + (" [documented]" if it.case.supported else " [other]"), it.deflayout)
        if it.case.supported and it.deflayout != "1":
            ctx.count("documented label not recognised", it.case.family)
        if it.deflayout == "1" and it.model != "FoundDef":
            ctx.fail("no-failing-input-found", "theorem def_supported contradicted by the extracted model (%s) on:\n%s"
                     % (it.model, it.src), dict(it.witness(), correspondence="def-theorem"))
    # ---- the theorems' hypotheses on this case
    if it.hyps is not None:
        ctx.count("hypotheses rows_ok/lambda_at/not_nested", it.hyps)
        if it.hyps[0] != "1":
            ctx.fail("no-failing-input-found", "tokenizer assumption rows_ok does not hold on a stream of:\n%s" % it.src,
                     dict(it.witness(), correspondence="rows_ok"))
        if it.hyps == "111" and it.model.startswith("Found"):
            if cm[1] != truth_pos:
                ctx.fail("no-failing-input-found",
                         "theorem finder_never_picks_neighbour contradicted by the extracted model on:\n%s" % it.src,
                         dict(it.witness(), correspondence="safety-theorem"))


def run_files(ctx, files, okeys=None):
    items: List[Item] = []
    for n, (src, cases, what) in enumerate(files):
        modes = ("fake", "real") if what != "generated-fake" else ("fake",)
        its = items_of(src, cases, modes)
        if okeys is not None:
            for it in its:
                if it.truth == okeys[n][0]:
                    it.okey = okeys[n][1]
        items += its
    model_answers(ctx, items)
    for it in items:
        judge(ctx, it)
    return items


def cleanup():
    shutil.rmtree(WORK, ignore_errors=True)


def run(ctx):
    atexit.register(cleanup)
    import logging
    logging.disable(logging.CRITICAL)
    try:
        of = tagged_files([e[:3] for e in KNOWN_OPEN])
        oitems = run_files(ctx, of, [(m, open_key(text, m, "Select")) for _, text, _, m in KNOWN_OPEN])
        ctx.notes.append("open known findings: %d witnesses, %d passed callables; keys %s"
                         % (len(of), len(oitems), ", ".join(open_key(t, m, "Select") for _, t, _, m in KNOWN_OPEN)))
        cf = corpus_files()
        items = run_files(ctx, cf)
        ctx.notes.append("corpus: %d files, %d passed callables" % (len(cf), len(items)))
        n_files = ctx.budget(700, 12000)
        batch = 130
        done = 0
        shown = 0
        while done < n_files:
            files = []
            for i in range(min(batch, n_files - done)):
                real = (done + i) % 3 == 2
                src, cases = fc.generate(ctx.rng, real, ctx.rng.choice([1, 1, 2, 3, 4]))
                files.append((src, cases, "generated" if real else "generated-fake"))
            its = run_files(ctx, files)
            for it in its[:40]:
                if shown < 6 and it.case is not None and it.probe.ok:
                    ctx.sample({"source": it.src, "passed_marker": it.truth, "caller": it.op, "model": it.model,
                                "hypotheses": it.hyps})
                    shown += 1
            done += len(files)
            fc._stream_cache.clear()
            fc._ends_cache.clear()
            shutil.rmtree(WORK, ignore_errors=True)
        ctx.notes.append("%d generated files" % n_files)
        # the same file paths again with other contents (an edited and re-imported module): the source that is read must
        # be the file's current text
        for rnd in range(3):
            files = []
            for i in range(30):
                src, cases = fc.generate(ctx.rng, True, ctx.rng.choice([1, 1, 2, 3]))
                files.append((src, cases, "generated"))
            _recycle[0] = [0]
            fc._stream_cache.clear()         # the harness's own per-path caches
            fc._ends_cache.clear()
            try:
                run_files(ctx, files)
            finally:
                _recycle[0] = None
        ctx.notes.append("3 x 30 generated files written to the same 30 paths")
        repeat_oracle(ctx)
    finally:
        cleanup()


# ---------------------------------------------------------------- one lambda expression passed several times
# The same code object reaches the operator again and again - a loop over cuts, a query factory called twice, a one-line def
# used before and after a global changes.  Each recording must behave like the callable that was passed *at that call*.

REPEAT_SOURCES = [
    "for k in (3, 40, 500):\n    ds.Select(lambda e: e.v + k)\n",
    "for k in (3, 40):\n    for m in (2, 7):\n        ds.Where(lambda e: e.v * m > k)\n",
    "def times(m):\n    return ds.Where(lambda e: e.v * m > 100)\ntimes(2)\ntimes(30)\ntimes(2)\n",
    "def cut(c, tag):\n    return ds.Select(lambda e: (e.v > c, tag))\ncut(5, 'a')\ncut(50, 'b')\n",
    "def one(e): return e.v - K\nK = 5\nds.Select(one)\nK = 60\nds.Select(one)\n",
    "for k in (1, 2):\n    ds.Select(lambda e: e.v + k).Select(lambda j: j.v - k)\n",
]
REPEAT_PRELUDE = ("from func_adl.util_ast import parse_as_ast\nOUT = []\n"
                  "class _D:\n"
                  "    def Select(self, f):\n        OUT.append((f, 'Select', parse_as_ast(f, 'Select')))\n        return self\n"
                  "    def Where(self, f):\n        OUT.append((f, 'Where', parse_as_ast(f, 'Where')))\n        return self\n"
                  "    def SelectMany(self, f):\n        OUT.append((f, 'SelectMany', parse_as_ast(f, 'SelectMany')))\n        return self\n"
                  "ds = _D()\n")


def repeat_oracle(ctx, only=None):
    import ast
    import importlib.util
    import sys
    import types

    os.makedirs(WORK, exist_ok=True)
    events = [types.SimpleNamespace(v=v) for v in (1, 4, 30, 60, 700)]
    for i, body in enumerate(REPEAT_SOURCES):
        if only is not None and body != only:
            continue
        name = "repeat_%d_%d" % (os.getpid(), i)
        path = os.path.join(WORK, name + ".py")
        with open(path, "w") as fh:
            fh.write(REPEAT_PRELUDE + body)
        spec = importlib.util.spec_from_file_location(name, path)
        mod = importlib.util.module_from_spec(spec)
        sys.modules[name] = mod
        # the callable's own values are read at the moment it is passed: wrap the recording calls
        got = []
        try:
            src = REPEAT_PRELUDE + body
            # record python's values at call time by evaluating the callable inside the operator call
            src = src.replace("OUT.append((f, ", "OUT.append(([_v(f, x) for x in EVENTS], ")
            with open(path, "w") as fh:
                fh.write(src)
            mod.EVENTS = events

            def _v(f, x):
                try:
                    return ("ok", f(x))
                except Exception as ex:  # noqa
                    return ("exc", type(ex).__name__)
            mod._v = _v
            try:
                spec.loader.exec_module(mod)
                got = list(mod.OUT)
                raised = None
            except Exception as ex:  # noqa
                raised = type(ex).__name__
        finally:
            sys.modules.pop(name, None)
        ctx.evaluations += 1
        if raised is not None:
            # raising instead of recording is allowed by the property's letter for layouts it cannot identify; these are supported
            ctx.count("repeat", "raised " + raised)
            ctx.fail("failing-input", "C03 oracle 'repeat': a documented layout (one lambda per call) passed repeatedly raises %s: %s"
                     % (raised, body), {"oracle": "repeat", "body": body}, key=core.digest({"p": ID, "repeat": body}))
            continue
        bad = None
        for k, (want, op, tree) in enumerate(got):
            try:
                fn = eval(compile(ast.fix_missing_locations(ast.Expression(body=tree)), "<recorded>", "eval"), {})
                have = [_v(fn, x) for x in events]
            except Exception as ex:  # noqa
                have = [("uncompilable", type(ex).__name__)]
            if have != want:
                bad = "call #%d (%s): recorded `%s` computes %r, the callable passed at that call computes %r" % (
                    k + 1, op, ast.unparse(tree), have, want)
                break
        ctx.count("repeat", "a recording differs from its callable" if bad else "every recording behaves like its callable")
        if bad:
            ctx.fail("failing-input", "C03 oracle 'repeat': %s ; program: %s" % (bad, body), {"oracle": "repeat", "body": body},
                     key=core.digest({"p": ID, "repeat": body}))
    ctx.notes.append("repeat oracle: %d programs passing one lambda expression / one-line def several times with other captured "
                     "values (loops, query factories, a global rebound in between)" % len(REPEAT_SOURCES))


def replay(ctx, w):
    atexit.register(cleanup)
    if w.get("oracle") == "repeat":
        try:
            repeat_oracle(ctx, only=w["body"])
        finally:
            cleanup()
        return
    import logging
    logging.disable(logging.CRITICAL)
    try:
        src = w["source"]
        cases: Dict[int, fc.Case] = {}
        for m, (kind, op, args, passed, sup, fam, pos) in w["cases"].items():
            c = fc.Case(int(m), kind, op, args, passed, sup, fam)
            c.pos = tuple(pos) if pos else None
            cases[int(m)] = c
        items = [it for it in items_of(src, cases, (w.get("mode", "fake"),)) if it.truth == w.get("marker") and it.op == w.get("op")]
        if not items:
            items = items_of(src, cases, ("fake",))
        model_answers(ctx, items)
        for it in items:
            judge(ctx, it)
    finally:
        cleanup()

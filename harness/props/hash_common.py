"""Shared code of the C20 package (tag ``hash``): codec Python ``ast`` -> raw generic tree
S-expression read by ocaml/driver_hash.ml, the structural key used by the oracles, the input
pools (parsed corpus, enumerated, random, adversarial atoms, malformed nodes) and the edits."""
from __future__ import annotations

import ast
import copy
from typing import Any, List, Optional

import gen
from bridge import hx
from gen import A, C, N, call, fcall, lam, mcall


class Unsupported(Exception):
    """A raw Python value outside the modelled atom kinds (tuple, frozenset, object, ...)."""


# ---------------------------------------------------------------- codec (independent of ast.dump)

def atom_sx(v: Any) -> str:
    t = type(v)
    if v is None:
        return "N"
    if v is Ellipsis:
        return "E"
    if t is bool:
        return "(B %d)" % (1 if v else 0)
    if t is int:
        return "(I %d)" % v
    if t is str:
        return "(S%s)" % "".join(" %d" % ord(c) for c in v)
    if t is bytes:
        return "(Y%s)" % "".join(" %d" % c for c in v)
    if t is float:
        return "(F %s)" % hx(repr(v))
    if t is complex:
        return "(X %s)" % hx(repr(v))
    raise Unsupported(t.__name__)


def to_rsx(v: Any, attrs: bool = True) -> str:
    """Raw node as the model's [rval]: every name of _fields with the class-default flag and the
    value (or '-' when getattr raises), plus the non-field attributes (name, type name)."""
    if isinstance(v, ast.AST):
        cls = type(v)
        slots = []
        for name in v._fields:
            d = 1 if getattr(cls, name, ...) is None else 0
            try:
                val = getattr(v, name)
            except AttributeError:
                slots.append("(%s %d -)" % (hx(name), d))
                continue
            slots.append("(%s %d %s)" % (hx(name), d, to_rsx(val, attrs)))
        ats = []
        if attrs:
            for k, val in sorted(getattr(v, "__dict__", {}).items()):
                if k not in v._fields:
                    ats.append("(%s %s)" % (hx(k), hx(type(val).__name__)))
        return "(N %s (%s) (%s))" % (hx(cls.__name__), " ".join(slots), " ".join(ats))
    if isinstance(v, list):
        return "(L%s)" % "".join(" " + to_rsx(x, attrs) for x in v)
    return atom_sx(v)


def nonprintable(v: Any, acc: Optional[set] = None) -> set:
    """Code points >= 128 occurring in str values of the tree for which str.isprintable() is False."""
    acc = set() if acc is None else acc
    if isinstance(v, ast.AST):
        for name in v._fields:
            if hasattr(v, name):
                nonprintable(getattr(v, name), acc)
    elif isinstance(v, list):
        for x in v:
            nonprintable(x, acc)
    elif type(v) is str:
        for c in v:
            if ord(c) >= 128 and not c.isprintable():
                acc.add(ord(c))
    return acc


def np_arg(v: Any) -> str:
    s = nonprintable(v)
    return ",".join(str(c) for c in sorted(s)) if s else "-"


def skey(v: Any):
    """Structural key (the oracle's notion of 'structurally identical'): class names, present fields
    (a None value of a field whose class default is None counts as absent), list shapes, and atoms by
    exact type and value (float/complex by repr).  Positions and every non-field attribute are ignored."""
    if isinstance(v, ast.AST):
        cls = type(v)
        out = []
        for name in v._fields:
            if not hasattr(v, name):
                continue
            val = getattr(v, name)
            if val is None and getattr(cls, name, ...) is None:
                continue
            out.append((name, skey(val)))
        return ("N", cls.__name__, tuple(out))
    if isinstance(v, list):
        return ("L", tuple(skey(x) for x in v))
    if type(v) in (float, complex):
        return ("a", type(v).__name__, repr(v))
    if type(v) in (int, bool, str, bytes, type(None), type(Ellipsis)):
        return ("a", type(v).__name__, v)
    return ("a", type(v).__name__, repr(v))


def text_of(answer: str) -> str:
    return "".join(chr(int(t)) for t in answer.split()) if answer.strip() else ""


# ---------------------------------------------------------------- pools

EXPR_CORPUS = [
    "x", "x.y.z", "f(x)", "f(x, y, k=1, *a, **kw)", "lambda e: e.jets.Select(lambda j: j.pt)",
    "lambda x, y=1, *a, z, w=2, **k: x", "lambda: 0", "lambda x, /, y: x", "[i for i in x if i > 1 if i < 5]",
    "{k: v for k, v in d.items()}", "{i for i in x}", "(i async for i in x)", "f'{x!r:>{w}} and {y} {{z}}'",
    "f''", "(*a, b)", "[*a, b]", "(y := f(x))", "a[1:2]", "a[1:2:3]", "a[::]", "a[:, 1]", "a[()]", "a[1, 2]", "a[...]",
    "not x", "-x", "+x", "~x", "a + b - c * d / e // f % g ** h @ i", "a << b >> c | d ^ e & f",
    "a and b or c", "a < b <= c == d != e > f >= g is h is not i in j not in k", "x if c else y",
    "{}", "{'a': 1, **b}", "{1, 2}", "[]", "[1, [2, [3]]]", "()", "(1,)", "(1, 2)", "1", "True", "False", "None",
    "...", "'1'", "1.0", "1e100", "1e-5", "1j", "1+2j", "b'1'", "b''", "''", "u'x'", "0x10", "10**30",
    "-1", "'it''s'", "'say \"hi\"'", "'both \\' and \"'", "'back\\\\slash'", "'nl\\n\\r\\t'", "'\\x00\\x1f\\x7f'",
    "'caf\\xe9'", "'\\x80\\xa0\\xad'", "'\\u20ac\\u0394'", "'\\u2028\\ufeff'", "'\\U0001f600'", "'\\U000e0001'",
    "b'\\x00\\xff\\'\"'", "b\"it's\"", "await x", "(yield)", "(yield x)", "(yield from x)",
    "Select(ds, lambda e: e.met)", "ds.Select(lambda e: e.jets).Where(lambda j: j.pt > 30).Count()",
    "ds.Select(lambda e: {'pt': e.jets.Select(lambda j: j.pt), 'n': e.jets.Count()})",
    "ds.SelectMany(lambda e: e.jets).Select(lambda j: (j.pt, j.eta))",
    "EventDataset().Select(lambda e: e.Jets('jets').SelectMany(lambda j: e.Tracks('InnerTracks')).First())",
    "ResultTTree(Select(EventDataset('a.root', 'tree'), lambda e: e.x), ['x'], 'tree', 'out.root')",
]

STMT_CORPUS = [
    "x = 1", "x: int = 1", "x += 1", "def f(a, b: int = 2, *c, d, **e) -> int:\n  'doc'\n  return a",
    "async def g():\n  await h()\n  async with a as b: pass\n  async for i in j: pass",
    "class K(B, metaclass=M):\n  x: int\n  def m(self): pass", "import a.b as c, d", "from . import x", "from ..m import (y as z)",
    "for i in x:\n  break\nelse:\n  continue", "while 1:\n  pass", "if a:\n  pass\nelif b:\n  pass\nelse:\n  pass",
    "with a as b, c:\n  pass",
    "try:\n  pass\nexcept E as e:\n  raise\nelse:\n  pass\nfinally:\n  pass", "try:\n  pass\nexcept* G as g:\n  raise X from g",
    "global a, b", "def f():\n  nonlocal_ = 1", "assert x, 'm'", "del a, b[0]", "return_ = lambda: (yield)",
    "match p:\n  case [1, *r] | {'k': v, **o} if v:\n    pass\n  case K(a, b=c) as d:\n    pass\n  case _:\n    pass",
    "type X[T: int, *Ts, **P] = list[T]", "def f[T](x: T) -> T: return x", "@d\ndef f(): pass", "x = 1 # type: int",
]

ADV_STRINGS = [
    "", "'", '"', "'\"", "\\", "\\'", "\\\\", "a'b", 'a"b', "a'b\"c", "\n", "\r", "\t", "\x00", "\x01\x1f", "\x7f", "\x80", "\x9f",
    "\xa0", "\xad", "\xe9", "\xff", "\u0100", "\u0394", "\u20ac", "\u2028", "\u2029", "\ufeff", "\ufffe", "\ud800", "\udfff",
    "\U00010000", "\U0001f600", "\U000e0001", "\U0010ffff", "x\\x41", "\\n", "None", "True", "1", "1.0", "b'x'", "f(x)", "a, b", "a=b",
    "[", "]", "(", ")", "Name(id='x')", "', ctx=Load()", " ", "  ", "e\u0301", "\u0661", "日本語", "\x1b[0m", "'''", '"""',
]
ADV_BYTES = [b"", b"'", b'"', b"'\"", b"\\", b"\n\r\t", b"\x00\x01\x1f", b"\x7e\x7f\x80\xff", b"abc", b"a'b", b'a"b', bytes(range(256))]
ADV_INTS = [0, 1, -1, 7, 10, -10, 255, 256, 2 ** 31, -2 ** 31, 2 ** 63, 2 ** 64 + 1, 10 ** 30, -10 ** 30, 10 ** 100 + 7, -(10 ** 200), 123456789012345678901234567890]
ADV_FLOATS = [0.0, -0.0, 1.0, -1.5, 1e100, 1e-5, 1e16, 1.5e-300, float("inf"), float("-inf"), float("nan"), 0.1, 123456789.123]
ADV_COMPLEX = [1j, -1j, 1 + 2j, -1 - 2j, complex(0.0, -0.0), complex(-0.0, 1), complex("inf"), complex("nanj"), complex(float("nan"), float("inf")), 1e16j, complex(1e-5, 1e100)]


def parsed_corpus():
    out = []
    for s in EXPR_CORPUS:
        out.append(ast.parse(s, mode="eval").body)
        out.append(ast.parse(s, mode="eval"))
    for s in STMT_CORPUS:
        try:
            out.append(ast.parse(s, type_comments=True))
        except SyntaxError:
            out.append(ast.parse(s))
    return out


def atom_pool():
    out = []
    for v in ADV_STRINGS + ADV_BYTES + ADV_INTS + ADV_FLOATS + ADV_COMPLEX + [None, Ellipsis, True, False]:
        out.append(C(v))
    for s in ADV_STRINGS:
        out.append(N(s))                                  # arbitrary text where an identifier goes
        out.append(ast.Attribute(value=N("e"), attr=s, ctx=gen.L))
        out.append(ast.Constant(value=s, kind="u"))
        out.append(call(N("f"), [C(s)], [(s, C(s))]))
    out.append(ast.Dict(keys=[None, C("a"), None], values=[N("b"), C(1), N("c")]))
    out.append(ast.List(elts=[C(s) for s in ADV_STRINGS], ctx=gen.L))
    return out


def malformed_pool():
    """Nodes with missing optional and mandatory fields, None in optional slots, raw values where nodes go."""
    out = [
        ast.Name(), ast.Name(id="x"), ast.Name(ctx=ast.Load()), ast.Name(id="x", ctx=ast.Store()), ast.Name(id="x", ctx=ast.Del()),
        ast.Call(func=N("f")), ast.Call(args=[N("a")]), ast.Call(func=N("f"), args=[], keywords=[]), ast.Call(),
        ast.Constant(), ast.Constant(value=None), ast.Constant(value=None, kind=None), ast.Constant(value=1, kind="u"),
        ast.Constant(kind="u"), ast.arg(arg="x"), ast.arg(arg="x", annotation=None), ast.arg(arg="x", annotation=N("int")),
        ast.arg(arg="x", annotation=None, type_comment="c"), ast.arg(annotation=N("int")), ast.arg(),
        ast.keyword(value=C(1)), ast.keyword(arg=None, value=C(1)), ast.keyword(arg="k", value=C(1)), ast.keyword(arg="k"),
        ast.Slice(), ast.Slice(lower=C(1)), ast.Slice(upper=C(1)), ast.Slice(step=C(1)), ast.Slice(lower=None, upper=C(1), step=None),
        ast.Lambda(args=ast.arguments(args=[ast.arg(arg="x")]), body=N("x")), ast.Lambda(body=N("x")),
        ast.arguments(), ast.arguments(posonlyargs=[], args=[], vararg=None, kwonlyargs=[], kw_defaults=[None], kwarg=None, defaults=[]),
        ast.arguments(vararg=ast.arg(arg="a")), ast.arguments(kwarg=ast.arg(arg="a")),
        ast.Name(id=1), ast.Name(id=None), ast.Name(id=True, ctx="Load"), ast.Name(id=b"x"), ast.Name(id=1.5), ast.Name(id=[N("x"), 1, "s", None]),
        ast.BinOp(left=1, op="+", right=[1, 2]), ast.BinOp(left=N("a"), op=ast.Add(), right=None), ast.Attribute(value=None, attr=None),
        ast.Tuple(elts=[]), ast.Tuple(elts=[[]]), ast.Tuple(elts=[[], [[]], [N("x"), []]]), ast.Tuple(elts=None), ast.Tuple(elts="ab"),
        ast.List(elts=[None, Ellipsis, True, 0, "", b""]), ast.Dict(keys=[None], values=[None]), ast.Dict(),
        ast.Load(), ast.Add(), ast.Module(body=[], type_ignores=[]), ast.Module(), ast.Expression(body=None), ast.Expression(),
        ast.FunctionDef(name="f"), ast.comprehension(target=N("i"), iter=N("x"), ifs=[], is_async=0), ast.comprehension(is_async=True),
        ast.FormattedValue(value=N("x"), conversion=-1), ast.FormattedValue(value=N("x"), conversion=114, format_spec=None),
        ast.JoinedStr(values=[C("a"), C("b")]), ast.JoinedStr(values=[C("ab")]), ast.Subscript(value=N("a"), slice=C(1)),
        ast.UnaryOp(op=ast.USub(), operand=C(1)), ast.Constant(value=-1), ast.Constant(value=(1, 2)), ast.Constant(value=frozenset()), ast.Starred(value=N("a")), ast.Starred(value=N("a"), ctx=ast.Load()),
    ]
    return out


def _leaves():
    return [N("x"), N("y"), ast.Name(id="x"), C(1), C(True), C("1"), C(1.0), C(None)]


def _builders():
    un = [lambda a: A(a, "x"), lambda a: ast.Attribute(value=a, attr="y"), lambda a: fcall("f", a), lambda a: fcall("g", a),
          lambda a: lam("x", a), lambda a: lam("y", a), lambda a: ast.UnaryOp(op=ast.USub(), operand=a),
          lambda a: ast.UnaryOp(op=ast.Not(), operand=a), lambda a: gen.tup(a), lambda a: gen.lst(a),
          lambda a: call(N("f"), [], [("k", a)]), lambda a: call(N("f"), [], [(None, a)]), lambda a: ast.Starred(value=a, ctx=gen.L),
          lambda a: mcall(a, "Count")]
    bi = [lambda a, b: gen.binop(ast.Add, a, b), lambda a, b: gen.binop(ast.Sub, a, b), lambda a, b: fcall("f", a, b),
          lambda a, b: gen.tup(a, b), lambda a, b: gen.cmp(ast.Lt, a, b), lambda a, b: gen.cmp(ast.Gt, a, b),
          lambda a, b: gen.sub(a, b), lambda a, b: fcall("Select", a, lam("x", b)), lambda a, b: mcall(a, "Select", lam("x", b)),
          lambda a, b: gen.dct([(a, b)]), lambda a, b: ast.BoolOp(op=ast.And(), values=[a, b]),
          lambda a, b: ast.BoolOp(op=ast.Or(), values=[a, b])]
    te = [lambda a, b, c: ast.IfExp(test=a, body=b, orelse=c), lambda a, b, c: fcall("f", a, b, c),
          lambda a, b, c: ast.Slice(lower=a, upper=b, step=c)]
    return {1: un, 2: bi, 3: te}


def enum_pool(size: int):
    by = gen.enum_trees(_leaves, _builders(), size)
    return [t for s in sorted(by) for t in by[s]]


def random_pool(rng, n: int):
    rg = gen.RandomExpr(rng, names=["ds", "e", "x"], attrs=["jets", "pt", "eta", "met"], funcs=["f", "g", "Count", "abs"],
                        methods=["Count", "First", "m"], consts=[0, 1, 2, True, False, "a", "1", 1.0, 2.5, None, b"a", -3, 10 ** 20])
    return [rg.expr(rng.randrange(1, 6)) for _ in range(n)]


# ---------------------------------------------------------------- single edits

TYPE_CYCLE = [1, True, "1", 1.0, b"1", 1j]
BINOPS = [ast.Add, ast.Sub, ast.Mult, ast.Div, ast.FloorDiv, ast.Mod, ast.Pow, ast.BitAnd, ast.BitOr]
CMPOPS = [ast.Lt, ast.Gt, ast.Eq, ast.NotEq, ast.LtE, ast.GtE, ast.Is, ast.In]


STR_EDITS = [
    lambda s: s + "_", lambda s: s.swapcase(), lambda s: s[::-1], lambda s: "q" + s[1:], lambda s: s + " ", lambda s: " " + s,
    lambda s: s[:1] + " " + s[1:], lambda s: s.replace(" ", ""), lambda s: s + s, lambda s: s[1:], lambda s: s.upper(),
    lambda s: s + "'", lambda s: s + "\\", lambda s: s + "\n", lambda s: s + "\u00e9",
]
INT_EDITS = [lambda v: v + 1, lambda v: -v, lambda v: v * 10, lambda v: v + 10, lambda v: v - 1]


def _pick_str_edit(rng):
    return rng.choice(STR_EDITS)


def edits(t: ast.AST, rng) -> List[tuple]:
    """All applicable single edits of the tree: (kind, tree_a, tree_b) differing by exactly that edit."""
    out = []
    nodes = list(ast.walk(t))
    idx = {id(n): i for i, n in enumerate(nodes)}

    def edited(i, f):
        c = copy.deepcopy(t)
        n = list(ast.walk(c))[i]
        r = f(n)
        return c if r is not False else None

    for n in nodes:
        i = idx[id(n)]
        if isinstance(n, ast.Name) and isinstance(getattr(n, "id", None), str):
            out.append(("rename", edited(i, lambda m, f=_pick_str_edit(rng): setattr(m, "id", f(m.id)))))
        elif isinstance(n, ast.Attribute) and isinstance(getattr(n, "attr", None), str):
            out.append(("rename-attr", edited(i, lambda m, f=_pick_str_edit(rng): setattr(m, "attr", f(m.attr)))))
        elif isinstance(n, ast.arg) and isinstance(getattr(n, "arg", None), str):
            out.append(("rename-param", edited(i, lambda m, f=_pick_str_edit(rng): setattr(m, "arg", f(m.arg)))))
        elif isinstance(n, ast.Constant) and hasattr(n, "value"):
            v = n.value
            if type(v) is int:
                out.append(("const-value", edited(i, lambda m, f=rng.choice(INT_EDITS): setattr(m, "value", f(m.value)))))
            elif type(v) is str:
                out.append(("const-value", edited(i, lambda m, f=_pick_str_edit(rng): setattr(m, "value", f(m.value)))))
            if type(v) in (int, bool, str, float):
                same = [x for x in (1, True, "1", 1.0) if type(x) is not type(v)]
                # same Python value (1 == True == 1.0), different type
                base = {int: 1, bool: True, str: "1", float: 1.0}[type(v)]

                def to_base(m, base=base):
                    m.value = base
                c0 = edited(i, to_base)
                for x in same:
                    j = i

                    def to_x(m, x=x):
                        m.value = x
                    c1 = copy.deepcopy(c0)
                    to_x(list(ast.walk(c1))[j])
                    out.append(("const-type", (c0, c1)))
        elif isinstance(n, ast.BinOp):
            k = rng.randrange(len(BINOPS))

            def chop(m, k=k):
                new = BINOPS[k] if not isinstance(m.op, BINOPS[k]) else BINOPS[(k + 1) % len(BINOPS)]
                m.op = new()
            out.append(("operator", edited(i, chop)))
            if skey(n.left) != skey(n.right):
                def sw(m):
                    m.left, m.right = m.right, m.left
                out.append(("swap-operands", edited(i, sw)))
        elif isinstance(n, ast.Compare) and len(getattr(n, "ops", [])) >= 1:
            def chc(m):
                m.ops[0] = (ast.GtE if not isinstance(m.ops[0], ast.GtE) else ast.Lt)()
            out.append(("operator", edited(i, chc)))
        elif isinstance(n, ast.BoolOp):
            def chb(m):
                m.op = (ast.Or if isinstance(m.op, ast.And) else ast.And)()
            out.append(("operator", edited(i, chb)))
        elif isinstance(n, ast.UnaryOp):
            def chu(m):
                m.op = (ast.Not if isinstance(m.op, ast.USub) else ast.USub)()
            out.append(("operator", edited(i, chu)))
        elif isinstance(n, ast.Call):
            args = getattr(n, "args", None) or []
            if len(args) >= 2 and skey(args[0]) != skey(args[1]):
                def swa(m):
                    m.args[0], m.args[1] = m.args[1], m.args[0]
                out.append(("swap-args", edited(i, swa)))
            # re-nest  f(g(x), ...) -> g(f(x), ...)
            if args and isinstance(args[0], ast.Call) and getattr(args[0], "args", None) and hasattr(n, "func") \
                    and hasattr(args[0], "func") and skey(n.func) != skey(args[0].func):
                def ren(m):
                    m.func, m.args[0].func = m.args[0].func, m.func
                out.append(("re-nest", edited(i, ren)))
            if len(args) >= 1 and isinstance(getattr(n, "func", None), ast.Name):
                def drop(m):
                    m.args.pop()
                out.append(("drop-arg", edited(i, drop)))
            kws = getattr(n, "keywords", None) or []
            if len(kws) >= 2 and skey(kws[0]) != skey(kws[1]):
                # the written order of keyword arguments is structure (the dump lists them in order)
                def swk(m):
                    m.keywords[0], m.keywords[1] = m.keywords[1], m.keywords[0]
                out.append(("swap-keywords", edited(i, swk)))
        elif isinstance(n, (ast.Tuple, ast.List, ast.Set)) and len(getattr(n, "elts", None) or []) >= 2 \
                and skey(n.elts[0]) != skey(n.elts[1]):
            def swe(m):
                m.elts[0], m.elts[1] = m.elts[1], m.elts[0]
            out.append(("swap-elements", edited(i, swe)))
        elif isinstance(n, ast.Dict) and len(getattr(n, "keys", None) or []) >= 2 and len(n.keys) == len(getattr(n, "values", []) or []):
            def swd(m):
                m.keys[0], m.keys[1] = m.keys[1], m.keys[0]
                m.values[0], m.values[1] = m.values[1], m.values[0]
            if skey(n.keys[0]) != skey(n.keys[1]) or skey(n.values[0]) != skey(n.values[1]):
                out.append(("swap-entries", edited(i, swd)))
    res = []
    for k, c in out:
        if c is None:
            continue
        if isinstance(c, tuple):
            res.append((k, c[0], c[1]))
        else:
            res.append((k, t, c))
    return res

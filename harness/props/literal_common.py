"""Shared code of work package `literal` (property C13): value codec, generators, implementation runners,
oracles.  NOTE: no `from __future__ import annotations` here - the classes built by make_cls() must carry real
annotation objects for typing.get_type_hints()."""
import ast
import itertools
import math
import re
import struct
import sys
import types

import bridge

# ---------------------------------------------------------------- codec  Python value -> pyval S-expression


def val_sx(v):
    if v is None:
        return "PN"
    if isinstance(v, bool):
        return "(PB %d)" % (1 if v else 0)
    if isinstance(v, int):
        return "(PI %d)" % v
    if isinstance(v, str):
        return "(PS %s)" % bridge.hx(v)
    if isinstance(v, bytes):
        return "(PY s%s)" % v.hex()
    if isinstance(v, float):
        return "(PF %s)" % bridge.hx(repr(v))
    if isinstance(v, list):
        return "(PL%s)" % "".join(" " + val_sx(x) for x in v)
    if isinstance(v, tuple):
        return "(PT%s)" % "".join(" " + val_sx(x) for x in v)
    if isinstance(v, dict):
        return "(PD%s)" % "".join(" (%s %s)" % (val_sx(k), val_sx(x)) for k, x in v.items())
    raise TypeError(type(v))


def hx_bytes(b: bytes) -> str:
    return "s" + b.hex()


_F = re.compile(r"\(F s([0-9a-f]*)\)")


def canon_floats(sx: str) -> str:
    """the model carries a float as its source token; the bridge as repr(value): re-render the model's tokens"""
    def f(m):
        tok = bytes.fromhex(m.group(1)).decode()
        try:
            return "(F %s)" % bridge.hx(repr(float(tok)))
        except ValueError:
            return m.group(0)
    return _F.sub(f, sx)


# ---------------------------------------------------------------- "finite" and printable, decided in Python


def is_finite(v) -> bool:
    if isinstance(v, float):
        return math.isfinite(v)
    if isinstance(v, bool):
        return True
    if isinstance(v, int):
        return abs(v) < 10 ** 4300
    if isinstance(v, (list, tuple)):
        return all(is_finite(x) for x in v)
    if isinstance(v, dict):
        return all(is_finite(k) and is_finite(x) for k, x in v.items())
    return True


def depth(v) -> int:
    if isinstance(v, (list, tuple)):
        return 1 + max([depth(x) for x in v], default=0)
    if isinstance(v, dict):
        return 1 + max([max(depth(k), depth(x)) for k, x in v.items()], default=0)
    return 0


def is_embeddable(v) -> bool:
    """finite, and within CPython's 200-open-brackets tokenizer limit"""
    return is_finite(v) and depth(v) <= 200


def strings_of(v):
    if isinstance(v, str):
        yield v
    elif isinstance(v, (list, tuple)):
        for x in v:
            yield from strings_of(x)
    elif isinstance(v, dict):
        for k, x in v.items():
            yield from strings_of(k)
            yield from strings_of(x)


def passthrough_ok(v) -> bool:
    """the model's stated assumption: every non-ASCII code point in a str is printable (repr copies it)"""
    return all(ord(c) < 128 or c.isprintable() for s in strings_of(v) for c in s)


def interesting(v) -> bool:
    """non-trivial case: a str whose text needs a quote choice or an escape, or any non-str value other than a
    non-negative int / bool / None"""
    if isinstance(v, str):
        return any(c in "'\"\\" or ord(c) < 32 or ord(c) >= 127 for c in v)
    if isinstance(v, bool) or v is None:
        return False
    if isinstance(v, int):
        return v < 0
    return True


# ---------------------------------------------------------------- oracle: type-exact literal round trip

LITERAL_SCALARS = (str, bytes, int, float, bool, type(None))


def pure_literal(n) -> bool:
    if isinstance(n, ast.Constant):
        return type(n.value) in LITERAL_SCALARS
    if isinstance(n, ast.UnaryOp) and isinstance(n.op, ast.USub):
        return isinstance(n.operand, ast.Constant) and type(n.operand.value) in (int, float)
    if isinstance(n, (ast.List, ast.Tuple)):
        return all(pure_literal(x) for x in n.elts)
    if isinstance(n, ast.Dict):
        return all(k is not None and pure_literal(k) for k in n.keys) and all(pure_literal(x) for x in n.values)
    return False


def exact_eq(a, b) -> bool:
    if type(a) is not type(b):
        return False
    if isinstance(a, float):
        if a != a or b != b:
            return a != a and b != b
        return a == b and math.copysign(1.0, a) == math.copysign(1.0, b)
    if isinstance(a, (list, tuple)):
        return len(a) == len(b) and all(exact_eq(x, y) for x, y in zip(a, b))
    if isinstance(a, dict):
        return len(a) == len(b) and all(exact_eq(k1, k2) and exact_eq(x1, x2)
                                        for (k1, x1), (k2, x2) in zip(a.items(), b.items()))
    return a == b


def embeds(node, v):
    """None if `node` is a literal that evaluates back to `v` type-exactly, else a description"""
    if not isinstance(node, ast.AST):
        return "not an AST node: %r" % (node,)
    if not pure_literal(node):
        return "not a literal (contains code): %s" % ast.dump(node)[:200]
    try:
        got = ast.literal_eval(node)
    except Exception as ex:  # noqa
        return "literal_eval raises %s" % type(ex).__name__
    if not exact_eq(got, v):
        return "evaluates to %r (%s)" % (got, type(got).__name__)
    return None


# ---------------------------------------------------------------- implementation runners


def ds():
    from func_adl import ObjectStream

    return ObjectStream(ast.Name(id="ds", ctx=ast.Load()))


DS_SX = bridge.to_sx(ast.Name(id="ds", ctx=ast.Load()))


def run(f, *a, **k):
    try:
        return ("ok", f(*a, **k))
    except Exception as ex:  # noqa
        return ("exc", type(ex).__name__)


def impl_as_ast(v):
    from func_adl.util_ast import as_ast

    return run(as_ast, v)


def impl_metadata(v):
    return run(lambda: ds().MetaData(v).query_ast)


TERMINAL_PARAMS = {           # Python signature of each terminal (keyword names), read at import of the code below
    "AsPandasDF": ["columns"],
    "AsROOTTTree": ["filename", "treename", "columns"],
    "AsParquetFiles": ["filename", "columns"],
    "AsAwkwardArray": ["columns"],
}


def impl_terminal(meth, kwargs):
    return run(lambda: getattr(ds(), meth)(**kwargs).query_ast)


def make_cls(default):
    from typing import Iterable

    class Evt:
        def pt(self, scale: float = default) -> float:
            ...

        def ok(self, scale: float = default) -> bool:
            ...

        def many(self, scale: float = default) -> Iterable[float]:
            ...
    return Evt


def impl_default(d, op="Select"):
    from func_adl import ObjectStream

    Evt = make_cls(d)
    s = ObjectStream[Evt](ast.Name(id="ds", ctx=ast.Load()), Evt)
    try:
        if op == "Select":
            q = s.Select(lambda e: e.pt())
        elif op == "Where":
            q = s.Where(lambda e: e.ok())
        else:
            q = s.SelectMany(lambda e: e.many())
        return ("ok", q.query_ast)
    except Exception as ex:  # noqa
        return ("exc", type(ex).__name__)


def impl_capture(v, op="Select"):
    s = ds()
    try:
        if op == "Select":
            q = s.Select(lambda e: (e.x, v))
        elif op == "Where":
            q = s.Where(lambda e: (e.x, v) == e.y)
        else:
            q = s.SelectMany(lambda e: (e.x, v))
        return ("ok", q.query_ast)
    except Exception as ex:  # noqa
        return ("exc", type(ex).__name__)


def transportable_py(v) -> bool:
    return type(v) in (str, int, float, bool, complex, bytes) or isinstance(v, types.ModuleType)


# ---------------------------------------------------------------- generators

ALPHABET = ["'", '"', "\\", "\n", "\r", "\t", "[", "]", "{", "}", "(", ")", ",", ":", "#", "+", " ", "n", "x", "0",
            "\x00", "é", "-", "b"]

CORPUS_STRINGS = ["it's", "a\\nb", "x' + 'y", "a\nb", "\\", "", "plain", "a\x00b", "\r", "\x0c", "\x0b", "\x1b", "\x7f",
                  "'\"", "\\'", "\\\\'", "'''", '"""', "\\x00", "\\N{DASH}", "\\u1234", "#", " ", "  lead", "trail ",
                  "\xa0", "\u0085", "\xad", "\u2028", "\u2029", "\ufeff", "\ud800", "\udfff", "\ue000", "\U0010ffff",
                  "\U0001f600", "\xe9'\"\\", "__import__('os').system('x')", "' or '1'=='1", "'); drop(", "\\\n",
                  "\x80", "\xff", "{0}", "%s", "{p_var}", "\\t\\r\\n", "\t\r\n", "b'x'", "None", "True", "-1", "1e5"]

CORPUS_VALUES = [0, 1, -1, -0, 10 ** 20, -10 ** 20, 10 ** 4299, -(10 ** 4299) - 7, 10 ** 4300, True, False, None,
                 1.0, -1.5, 1e100, 1e-7, 5e-324, 1.7976931348623157e308, -0.0, 0.0, 1e16, 1e22, 123456789.12345679,
                 float("inf"), float("-inf"), float("nan"),
                 b"", b"ab", b"\xff'\"", b"'", b"\\", b"\n\r\t\x00\x7f\x80", b"it's \"x\"",
                 (), (1,), ((),), (((),),), (1, 2), [], [[]], [[[]]], {}, {"a": {}}, {1: 2, (1, 2): "x"}, {True: None},
                 {"a": {"b": [1, (2,)]}}, [1.5, -2.5e-10], ["it's", "a\\nb", ['"', "'\""]], [float("inf")],
                 {"a": float("nan")}, {(): []}, {b"k": b"v"}, {-1: -1.0}, [None, True, False], ("a",), ("it's",),
                 [10 ** 4300], {"n": "a\nb", "q": "it's", "c": "x' + 'y"}]


def all_strings(maxlen):
    for n in range(0, maxlen + 1):
        for t in itertools.product(ALPHABET, repeat=n):
            yield "".join(t)


def rand_string(r, maxlen=64):
    n = r.randrange(0, maxlen + 1)
    pool = ALPHABET + ["a", "Z", "_", "9", "€", "\U0001f600", " ", "\x7f", "\x1f", "e", "."]
    return "".join(r.choice(pool) for _ in range(n))


def rand_float(r):
    k = r.randrange(6)
    if k == 0:
        return struct.unpack("<d", struct.pack("<Q", r.getrandbits(64)))[0]
    if k == 1:
        return r.uniform(-1, 1) * 10 ** r.randrange(-320, 308)
    if k == 2:
        return float(r.randrange(-1000, 1000))
    if k == 3:
        return r.choice([1e16, 1e15, 9999999999999998.0, 1e-5, 0.0001, 1e22, 1e23, 0.1, -0.0, 2.5e-10])
    if k == 4:
        return r.random()
    return r.uniform(-1e6, 1e6)


def rand_scalar(r):
    k = r.randrange(9)
    if k <= 2:
        return rand_string(r, r.choice([2, 6, 20, 64]))
    if k == 3:
        return r.choice([0, 1, -1, r.randrange(-10 ** 6, 10 ** 6), r.randrange(-10 ** 40, 10 ** 40), 10 ** r.randrange(0, 400)])
    if k == 4:
        return r.choice([True, False])
    if k == 5:
        return None
    if k == 6:
        return bytes(r.choice([r.randrange(256), ord("'"), ord('"'), 92, 10]) for _ in range(r.randrange(0, 12)))
    x = rand_float(r)
    while not math.isfinite(x):
        x = rand_float(r)
    return x


def rand_key(r):
    k = r.randrange(5)
    if k == 0:
        return tuple(rand_key(r) for _ in range(r.randrange(0, 3)))
    v = rand_scalar(r)
    return v


def rand_value(r, depth):
    if depth <= 0 or r.random() < 0.3:
        return rand_scalar(r)
    k = r.randrange(3)
    n = r.choice([0, 1, 1, 2, 3, 5])
    if k == 0:
        return [rand_value(r, depth - 1) for _ in range(n)]
    if k == 1:
        return tuple(rand_value(r, depth - 1) for _ in range(n))
    d = {}
    for _ in range(n):
        key = rand_key(r)
        if isinstance(key, float) and key != key:
            continue
        d[key] = rand_value(r, depth - 1)
    return d


def deep_nests():
    out = []
    for depth in (5, 20, 60, 90, 199, 200, 201):
        v = "it's"
        w = (1,)
        d = {"k": -1}
        for i in range(depth):
            v = [v]
            w = (w,)
            d = {"k\\": d}
        out += [v, w, d]
    return out


def value_repr_for_replay(v) -> str:
    return repr(v)


def value_from_replay(s: str):
    return eval(s, {"inf": float("inf"), "nan": float("nan"), "__builtins__": {}})
